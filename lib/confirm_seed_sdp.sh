#!/bin/bash
# usage: lib/confirm_seed_sdp.sh <id> <k> [<worktree> <outdir> <name>]  -- confirms a seeded change whose demo needs the sdp feature
# (worktree /tmp/seed/<id> with its sdpdemo project): suite green with patch (default features),
# demo (sdp build) fails with patch and passes without.
set -u
id=$1; k=$2; WT=${3:-/tmp/seed/$id}; out=${4:-/tmp/seed/$id.out}; name=${5:-$id-$k}
dest=/verif/seeded/$name; mkdir -p $dest
cp $out/patch$k.diff $dest/patch.diff; cp $out/demo$k.rs $dest/demo.rs; cp $out/notes$k.md $dest/notes.md 2>/dev/null
cd $WT && git checkout -q -- . && git clean -fdq -- tests src
export CARGO_TARGET_DIR=$WT/target
applies=yes; git apply --check $dest/patch.diff 2>/dev/null || applies=no
suite="n/a"; dw="n/a"; dwo="n/a"
if [ $applies = yes ]; then
  git apply $dest/patch.diff
  if cargo test --offline >/tmp/confirm_suite.log 2>&1; then suite=pass; else suite=fail; fi
  cp sdpdemo/src/bin/demo.rs /tmp/confirm_skel.rs; cp $dest/demo.rs sdpdemo/src/bin/demo.rs
  if (cd sdpdemo && env -u CARGO_TARGET_DIR timeout 900 cargo run --offline --bin demo >/tmp/confirm_demo1.log 2>&1); then dw=pass; else dw=fail; fi
  git checkout -q -- src
  if (cd sdpdemo && env -u CARGO_TARGET_DIR timeout 900 cargo run --offline --bin demo >/tmp/confirm_demo2.log 2>&1); then dwo=pass; else dwo=fail; fi
  cp /tmp/confirm_skel.rs sdpdemo/src/bin/demo.rs
fi
python3 - "$dest" "$id" "$applies" "$suite" "$dw" "$dwo" <<'PY'
import json,sys,os
dest,prop,applies,suite,dw,dwo=sys.argv[1:]
notes=open(os.path.join(dest,'notes.md')).read() if os.path.exists(os.path.join(dest,'notes.md')) else ''
meta={"property":prop,"patch_applies_to_repo_head":applies=="yes","suite_with_patch":suite,"demo_with_patch":dw,"demo_without_patch":dwo,
      "confirmed": applies=="yes" and suite=="pass" and dw=="fail" and dwo=="pass",
      "ran":["git apply patch.diff (scratch worktree)","cargo test --offline (default-feature suite)","cargo run --bin demo in a scratch project depending on the worktree with features sdp (BLAS via scipy-openblas), with patch then without"],
      "needs": notes[:1500], "detected_by": []}
json.dump(meta,open(os.path.join(dest,'meta.json'),'w'),indent=1)
print(dest, meta["confirmed"], suite, dw, dwo)
PY
