#!/bin/bash
# usage: lib/runall.sh <tier> <seed> [ids...]  -- runs checks sequentially, prints one line per check
tier=$1; seed=$2; shift 2
ids=${@:-C01 C02 C03 C04 C05 C06 C07 C08 C09 C10 C11 C12 C13 C14 C15 C16 C17 C18 C19 C20}
cd /verif
for id in $ids; do
  s=$(date +%s)
  out=$(VERIF_SEED=$seed ./check $id --tier $tier 2>&1); rc=$?
  e=$(( $(date +%s) - s ))
  echo "$id seed=$seed tier=$tier rc=$rc ${e}s $(echo "$out" | grep -E '^(VIOLATION|TOOL-ERROR|KNOWN)' | head -2 | tr '\n' ' ')"
done
