"""Shared helpers for the /verif/check driver (python3 stdlib only)."""
import json, os, re, subprocess, sys, time, shutil, hashlib, threading
from concurrent.futures import ThreadPoolExecutor

ROOT = os.path.dirname(os.path.dirname(os.path.abspath(__file__)))
SPEC = os.path.join(ROOT, "spec")
HARNESS = os.path.join(ROOT, "harness")
WORK = os.path.join(ROOT, "work")
EVID = os.path.join(ROOT, "evidence")
REPLAYS = os.path.join(ROOT, "replays")
KNOWN = os.path.join(ROOT, "known_findings.txt")
# Experiments only (lib/seedtest_wt.sh): build the harness against another checkout of the repository so that seeded
# changes can be tried without touching /repo while other checks run.  Registered commands never set this.
ALT_REPO = os.environ.get("VERIF_REPO_OVERRIDE")
VH = os.path.join(HARNESS, "target-alt" if ALT_REPO else "target", "debug", "vh")
if ALT_REPO:
    EVID = os.path.join(WORK, "evidence-alt")
    REPLAYS = os.path.join(WORK, "replays-alt")
TLA_CP = "/opt/veriftools/tla/tla2tools.jar:/opt/veriftools/tla/CommunityModules-deps.jar"

ENV_OFFLINE = {"CARGO_NET_OFFLINE": "true"}


class ToolError(Exception):
    pass


def log(*a):
    print(*a, flush=True)


_WD = {}


def workdir(name):
    """scratch directory of this process for `name` (unique per process so that checks can run concurrently);
    stale directories of earlier runs are removed"""
    os.makedirs(WORK, exist_ok=True)
    now = time.time()
    for ent in os.listdir(WORK):
        full = os.path.join(WORK, ent)
        if ent.startswith(name + "-") or ent.startswith("tlc_"):
            try:
                if now - os.path.getmtime(full) > 3 * 3600:
                    shutil.rmtree(full, ignore_errors=True)
            except OSError:
                pass
    d = os.path.join(WORK, f"{name}-{os.getpid()}")
    shutil.rmtree(d, ignore_errors=True)
    os.makedirs(d, exist_ok=True)
    _WD[name] = d
    return d


def wd_of(name):
    return _WD.get(name) or workdir(name)


def cleanup_workdirs():
    for d in _WD.values():
        shutil.rmtree(d, ignore_errors=True)


_built = False


def build_harness():
    """(Re)build the conformance harness against /repo's current working tree, hooks on."""
    global _built
    if _built:
        return VH
    env = dict(os.environ)
    env.update(ENV_OFFLINE)
    t0 = time.time()
    # a lock so that concurrently started checks do not fight over cargo's build directory
    os.makedirs(WORK, exist_ok=True)
    import fcntl
    with open(os.path.join(WORK, ".build-alt.lock" if ALT_REPO else ".build.lock"), "w") as lk:
        fcntl.flock(lk, fcntl.LOCK_EX)
        cmd = ["cargo", "build", "--offline", "--quiet"]
        if ALT_REPO:
            cmd += ["--config", f'paths=["{ALT_REPO}"]', "--target-dir", "target-alt"]
        p = subprocess.run(cmd, cwd=HARNESS, env=env,
                           stdout=subprocess.PIPE, stderr=subprocess.STDOUT, text=True)
    if p.returncode != 0:
        # a tree that does not compile with the hooks is a tool error, not a violation
        sys.stdout.write(p.stdout[-4000:])
        raise ToolError("harness build failed")
    _built = True
    log(f"[build] harness ok ({time.time()-t0:.1f}s)")
    return VH


def run_vh(args, timeout=3600, check=True, env_extra=None):
    vh = build_harness()
    env = dict(os.environ)
    if env_extra:
        env.update(env_extra)
    p = subprocess.run([vh] + [str(a) for a in args], stdout=subprocess.PIPE, stderr=subprocess.PIPE,
                       text=True, timeout=timeout, env=env)
    if check and p.returncode != 0:
        sys.stdout.write(p.stdout[-2000:] + p.stderr[-4000:])
        raise ToolError(f"harness command failed: vh {' '.join(map(str, args))} (rc={p.returncode})")
    return p


# ----------------------------------------------------------------------------- TLC

def _tlc_cmd(workers, metadir, cfg, module, extra=None, simulate=None, depth=None):
    cmd = ["java", "-XX:+UseParallelGC", "-Xss1g"]
    cmd += extra or []
    cmd += ["-cp", TLA_CP, "tlc2.TLC", "-workers", str(workers), "-metadir", metadir, "-cleanup",
            "-noGenerateSpecTE", "-config", cfg]
    if simulate:
        cmd += ["-simulate", f"num={simulate}"]
        if depth:
            cmd += ["-depth", str(depth)]
    cmd += [module]
    return cmd


def parse_tlc_stats(out):
    st = {}
    m = re.search(r"(\d[\d,]*) states generated, (\d[\d,]*) distinct states found", out)
    if m:
        st["transitions"] = int(m.group(1).replace(",", ""))
        st["states"] = int(m.group(2).replace(",", ""))
    m = re.search(r"depth of the complete state graph search is (\d+)", out)
    if m:
        st["depth"] = int(m.group(1))
    return st


def parse_coverage(out):
    """per-action coverage lines of `-coverage 1`: <Action line ...>: distinct:total"""
    cov = {}
    for m in re.finditer(r"^<(\w+) line \d+, col \d+ to line \d+, col \d+ of module (\w+)>: (\d+):(\d+)", out, re.M):
        name = m.group(1)
        cov[name] = cov.get(name, 0) + int(m.group(4))
    return cov


def run_mc(module, cfg, workers=4, timeout=600, coverage=True, name=None, env_extra=None, expect_ok=True, simulate=None, depth=None, to_file=None):
    """Exhaustive TLC run of a bounded instance.  Returns dict(ok, states, transitions, coverage, out)."""
    name = name or module
    md = os.path.join(WORK, f"tlc_{name}_{os.getpid()}")      # unique per process: checks may run concurrently
    shutil.rmtree(md, ignore_errors=True)
    cmd = _tlc_cmd(workers, md, cfg, module, simulate=simulate, depth=depth)
    if coverage and not simulate:
        cmd.insert(cmd.index("-config"), "-coverage")
        cmd.insert(cmd.index("-config"), "1")
    env = dict(os.environ)
    if env_extra:
        env.update(env_extra)
    t0 = time.time()
    try:
        if to_file:
            # behaviour exports can be gigabytes: stream to a file, keep only the tail (statistics) in memory
            with open(to_file, "w") as fo:
                p = subprocess.run(cmd, cwd=SPEC, stdout=fo, stderr=subprocess.STDOUT, timeout=timeout, env=env)
            sz = os.path.getsize(to_file)
            with open(to_file, "rb") as fi:
                fi.seek(max(0, sz - 200000))
                out = fi.read().decode("utf-8", "replace")
        else:
            p = subprocess.run(cmd, cwd=SPEC, stdout=subprocess.PIPE, stderr=subprocess.STDOUT, text=True,
                               timeout=timeout, env=env)
            out = p.stdout
    except subprocess.TimeoutExpired:
        raise ToolError(f"TLC timed out on {module}/{cfg}")
    finally:
        shutil.rmtree(md, ignore_errors=True)
    res = parse_tlc_stats(out)
    res["out"] = out
    res["wall_s"] = time.time() - t0
    res["ok"] = "Model checking completed. No error has been found." in out
    if simulate:
        res["ok"] = ("Error:" not in out) and ("is violated" not in out)
        res.setdefault("states", 0)
        res.setdefault("transitions", 0)
    res["coverage"] = parse_coverage(out)
    res["violated"] = re.findall(r"Invariant (\w+) is violated|Temporal properties were violated", out)
    if expect_ok and not res["ok"]:
        sys.stdout.write(out[-3000:])
        raise ToolError(f"bounded model {module}/{cfg} did not check cleanly (specification error)")
    return res


def vacuity_guard(res, required_actions):
    missing = [a for a in required_actions if res["coverage"].get(a, 0) == 0]
    if missing:
        raise ToolError(f"vacuity guard: actions never taken in bounded model: {missing}")


def _trace_one(spec, cfg, trace, idx, env_extra, timeout):
    md = os.path.join(WORK, f"tlc_trace_{os.path.basename(trace)}_{idx}_{os.getpid()}")
    shutil.rmtree(md, ignore_errors=True)
    cmd = _tlc_cmd(1, md, cfg, spec, extra=["-Dtlc2.tool.queue.IStateQueue=StateDeque", "-Xmx3g"])
    env = dict(os.environ)
    env["TRACE"] = trace
    if env_extra:
        env.update(env_extra)
    try:
        p = subprocess.run(cmd, cwd=SPEC, stdout=subprocess.PIPE, stderr=subprocess.STDOUT, text=True,
                           timeout=timeout, env=env)
    except subprocess.TimeoutExpired:
        raise ToolError(f"TLC trace validation timed out on {trace}")
    finally:
        shutil.rmtree(md, ignore_errors=True)
    out = p.stdout
    res = parse_tlc_stats(out)
    res["ok"] = "Model checking completed. No error has been found." in out
    res["out"] = out
    m = re.search(r'"TRACE-REJECTED at event", (\d+), "of", (\d+)', out)
    res["rejected_at"] = int(m.group(1)) if m else None
    mb = re.search(r'BAD-EVENTS <<([\d, ]*)>>', out)
    res["bad_events"] = [int(x) for x in mb.group(1).split(",")] if mb and mb.group(1).strip() else []
    inv = re.search(r"Invariant (\w+) is violated", out)
    res["invariant"] = inv.group(1) if inv else None
    if not res["ok"] and res["rejected_at"] is None and res["invariant"] is None and not res["bad_events"]:
        # TLC could not even evaluate the specification on some event (e.g. an operation returned an encoding on which
        # the model's operators are undefined: row indices outside the matrix, a sequence shorter than its declared
        # length).  An event the specification cannot give a meaning to is a rejected event - unless the trace file
        # itself could not be read, which is a tool error.
        ls = re.findall(r"^/\\ l = (\d+)", out, re.M)
        unreadable = ("ndJsonDeserialize" in out) or ("Json" in out and "unsupported JSON" in out) or not ls
        if ("Error:" in out) and not unreadable:
            res["rejected_at"] = int(ls[-1])
            res["eval_error"] = True
            return res
        sys.stdout.write(out[-3000:])
        raise ToolError(f"TLC failed on trace {trace} without a verdict")
    return res


def split_trace(trace, nshards, boundary=lambda e: e.get("ev") in ("Begin",)):
    """Split an ndjson trace into shards at run boundaries.  Returns [(path, first_line_index)]."""
    with open(trace) as f:
        lines = f.readlines()
    if not lines:
        return []
    starts = [i for i, l in enumerate(lines) if boundary(json.loads(l))]
    if not starts or starts[0] != 0:
        starts = [0] + starts
    nshards = max(1, min(nshards, len(starts)))
    if len(starts) == len(lines) and nshards > 1:
        # every event stands alone: deal them out round-robin, so that a run of expensive events (e.g. the large
        # random graphs at the end of the chordal trace) is spread over all TLC processes
        out = []
        for k in range(nshards):
            pth = f"{trace}.shard{k}"
            with open(pth, "w") as f:
                f.writelines(lines[k::nshards])
            out.append((pth, 0))
        return out
    per = (len(lines) + nshards - 1) // nshards
    shards, cur = [], 0
    cuts = [0]
    for s in starts[1:]:
        if s - cuts[-1] >= per:
            cuts.append(s)
    cuts.append(len(lines))
    out = []
    for k in range(len(cuts) - 1):
        pth = f"{trace}.shard{k}"
        with open(pth, "w") as f:
            f.writelines(lines[cuts[k]:cuts[k + 1]])
        out.append((pth, cuts[k]))
    return out


def validate_trace(spec, cfg, trace, nshards=8, env_extra=None, timeout=1800, boundary=None):
    """Trace validation, sharded over single-worker TLC processes.
    Returns dict(ok, events, states, transitions, rejects=[{line, event, prev}])."""
    kw = {"boundary": boundary} if boundary else {}
    shards = split_trace(trace, nshards, **kw)
    total = {"ok": True, "events": 0, "states": 0, "transitions": 0, "rejects": [], "shards": len(shards)}
    if not shards:
        return total
    with ThreadPoolExecutor(max_workers=min(len(shards), 12)) as ex:
        futs = [ex.submit(_trace_one, spec, cfg, pth, k, env_extra, timeout) for k, (pth, _) in enumerate(shards)]
        results = [f.result() for f in futs]
    for (pth, first), r in zip(shards, results):
        with open(pth) as f:
            lines = f.readlines()
        total["events"] += len(lines)
        total["states"] += r.get("states", 0)
        total["transitions"] += r.get("transitions", 0)
        if not r["ok"] and r.get("bad_events"):
            total["ok"] = False
            for at in r["bad_events"]:
                ev = json.loads(lines[at - 1]) if 0 < at <= len(lines) else None
                total["rejects"].append({"line": first + at, "event": ev, "prev": None, "invariant": None,
                                         "shard": pth, "shard_line": at})
        elif not r["ok"]:
            total["ok"] = False
            at = r["rejected_at"]
            if at is None:
                # invariant violation: the offending state is the last one explored; take depth
                at = r.get("depth", 1)
            ev = json.loads(lines[at - 1]) if 0 < at <= len(lines) else None
            prev = json.loads(lines[at - 2]) if at >= 2 else None
            total["rejects"].append({"line": first + at, "event": ev, "prev": prev,
                                     "invariant": r["invariant"], "shard": pth, "shard_line": at})
        os.remove(pth)
    return total


# ----------------------------------------------------------------------------- findings / evidence

def load_known():
    kf = {"finding": [], "fixed": []}
    if os.path.exists(KNOWN):
        for ln in open(KNOWN):
            ln = ln.strip()
            if not ln or ln.startswith("#"):
                continue
            m = re.match(r"(finding|fixed): property=(\w+) (.*)", ln)
            if m:
                kf[m.group(1)].append({"property": m.group(2), "text": m.group(3)})
    return kf


def known_key(prop, key):
    """Is a violation with stable key `key` a listed (unfixed) finding for `prop`?"""
    for f in load_known()["finding"]:
        if f["property"] == prop and f"key={key} " in (f["text"] + " "):
            return f
    return None


def write_replay(prop, name, payload):
    os.makedirs(REPLAYS, exist_ok=True)
    pth = os.path.join(REPLAYS, f"{prop}-{name}.json")
    with open(pth, "w") as f:
        json.dump(payload, f)
    return pth


class Result:
    """Collects violations / known findings / evidence for one check run."""

    def __init__(self, prop, tier, seed, level):
        self.prop, self.tier, self.seed, self.level = prop, tier, seed, level
        self.t0 = time.time()
        self.violations = []   # (replay path, text)
        self.known = []
        self.coverage = {}
        self.assumptions = []

    def violation(self, name, payload, text="", key=None):
        if key is not None:
            f = known_key(self.prop, key)
            if f:
                if key not in [k for k, _ in self.known]:
                    self.known.append((key, f["text"]))
                return
        pth = write_replay(self.prop, name, payload)
        self.violations.append((pth, text))

    def finish(self):
        for key, text in self.known:
            log(f"KNOWN-FINDING: property={self.prop} {text}")
        cov = dict(self.coverage)
        ev = {"property_id": self.prop, "tier": self.tier, "seed": self.seed, "level": self.level,
              "coverage": cov, "assumptions": self.assumptions, "wall_s": round(time.time() - self.t0, 2),
              "violations": len(self.violations)}
        # checks beyond the listed properties (ids X..) keep their evidence out of evidence/
        evdir = os.path.join(WORK, "extras") if self.prop.startswith("X") else EVID
        os.makedirs(evdir, exist_ok=True)
        with open(os.path.join(evdir, f"{self.prop}.json"), "w") as f:
            json.dump(ev, f, indent=1, default=str)
        for pth, text in self.violations[:20]:
            log(f"VIOLATION property={self.prop} replay={pth}  {text}")
        if not self.violations and not os.environ.get("VERIF_KEEP_WORK"):
            cleanup_workdirs()
        return 1 if self.violations else 0


def fdec(f):
    """decode the ordered-float limb encoding <<nan, hi22, mid21, lo21>> of the traces back to a float"""
    import struct
    nan, hi, mid, lo = f
    if nan:
        return float("nan")
    v = (hi << 42) | (mid << 21) | lo
    bits = (v ^ (1 << 63)) if v & (1 << 63) else ((~v) & ((1 << 64) - 1))
    return struct.unpack("<d", struct.pack("<Q", bits))[0]


def read_ndjson(path):
    with open(path) as f:
        return [json.loads(l) for l in f if l.strip()]


def sample(xs, k=3):
    xs = list(xs)
    if len(xs) <= k:
        return xs
    step = max(1, len(xs) // k)
    return [xs[i] for i in range(0, len(xs), step)][:k]
