#!/bin/bash
# usage: lib/seedtest_wt.sh <patch.diff> <check ids...>
# Experiments only: applies a seeded change to a scratch worktree of /repo (/tmp/seedwt, created on demand), builds the
# harness against it (VERIF_REPO_OVERRIDE) and runs the checks; /repo itself is not touched, so this can run while
# other checks use /repo.  Evidence/replays of such runs go to work/evidence-alt, work/replays-alt.
set -u
patch=$(readlink -f "$1"); shift
WT=/tmp/seedwt
cd /verif
if [ ! -d $WT ]; then git -C /repo worktree add -q --detach $WT HEAD; fi
git -C $WT checkout -q --detach $(git -C /repo rev-parse HEAD); git -C $WT checkout -q -- .; git -C $WT clean -fdq -- src tests
if ! git -C $WT apply --check "$patch" 2>/dev/null; then
  if ! git -C $WT apply --3way "$patch" 2>/dev/null; then echo "PATCH-DOES-NOT-APPLY $patch"; git -C $WT checkout -q -- .; exit 9; fi
  git -C $WT reset -q
else
  git -C $WT apply "$patch"
fi
for id in "$@"; do
  out=$(VERIF_REPO_OVERRIDE=$WT ./check $id --tier quick 2>&1); rc=$?
  echo "== $id rc=$rc $(echo "$out" | grep -c '^VIOLATION') violations"
  echo "$out" | grep -E '^(VIOLATION|TOOL-ERROR|KNOWN)' | head -3
done
git -C $WT checkout -q -- .
