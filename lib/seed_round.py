#!/usr/bin/env python3
"""lib/seed_round.py prepare <round> <ids...>   -- write /tmp/seed/<id>.r<round>.prompt.txt and create the scratch worktree
   lib/seed_round.py test <round> <ids...>      -- run every patch of the round against its property's check (scratch worktree, /repo untouched)
Prompts are rebuilt from the property text and the notes of all seeds already stored under /verif/seeded."""
import os, subprocess, sys, re, json
SEED = "/tmp/seed"
TEMPLATE = open("/verif/lib/seed_prompt_template.txt").read()
SDP_NOTE = open("/verif/lib/seed_prompt_sdp_note.txt").read()
C14_NOTE = open("/verif/lib/seed_prompt_c14_note.txt").read()

def prop_text(pid):
    for l in open("/verif/properties.jsonl"):
        d = json.loads(l)
        if d["id"] == pid:
            return f"{pid}: {d['title']}\n\nStatement: {d['statement']}\n\nQuantifier: {d['quantifier']['text']}\n\nWhy tests can't settle it: {d['why_tests_cant']}\n"
    raise SystemExit("unknown property " + pid)

def prepare(rnd, ids):
    for pid in ids:
        tag = f"{pid}.r{rnd}"
        wt, out = f"{SEED}/{tag}", f"{SEED}/{tag}.out"
        lst = []
        last = 0
        for k in range(1, 40):
            if os.path.exists(f"/verif/seeded/{pid}-{k}/notes.md"):
                lst.append("  - " + " ".join(open(f"/verif/seeded/{pid}-{k}/notes.md").read().split())[:400])
                last = k
        k = last + 1
        body = TEMPLATE.replace("{WT}", wt).replace("{OUT}", out).replace("{PROP}", prop_text(pid))
        if pid in ("C17", "C18"):
            body += SDP_NOTE.replace("{WT}", wt)
        if pid == "C14":
            body += C14_NOTE.replace("{WT}", wt)
        body += ("\nThe following changes have ALREADY been produced by others; do NOT repeat them or trivial variants of them - find different sites and "
                 "different mechanisms (other files, other functions, other code paths, other input classes, other API entry points):\n" + "\n".join(lst) + "\n")
        os.makedirs(out, exist_ok=True)
        open(f"{SEED}/{tag}.prompt.txt", "w").write(body)
        if not os.path.isdir(wt):
            subprocess.run(["git", "-C", "/repo", "worktree", "add", "-q", "--detach", wt, "HEAD"], check=True)
        if pid in ("C17", "C18") and not os.path.isdir(wt + "/sdpdemo"):
            subprocess.run(["cp", "-r", "/verif/lib/sdpdemo_template", wt + "/sdpdemo"], check=True)
        print("prepared", tag, "next seed index", k)

def test(rnd, ids):
    for pid in ids:
        for k in (1, 2, 3):
            p = f"{SEED}/{pid}.r{rnd}.out/patch{k}.diff"
            if not os.path.exists(p):
                print(f"--- {pid}.r{rnd} patch{k}: missing"); continue
            r = subprocess.run(["/verif/lib/seedtest_wt.sh", p, pid], capture_output=True, text=True)
            lines = [l for l in r.stdout.splitlines() if l.startswith("==") or l.startswith("PATCH") or l.startswith("TOOL")]
            print(f"--- {pid}.r{rnd} patch{k}: " + " | ".join(lines), flush=True)

if __name__ == "__main__":
    cmd, rnd, ids = sys.argv[1], sys.argv[2], sys.argv[3:]
    {"prepare": prepare, "test": test}[cmd](rnd, ids)
