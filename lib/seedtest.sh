#!/bin/bash
# usage: lib/seedtest.sh <patch.diff> <check ids...>   -- applies a seeded change to /repo, runs the checks, reverts
set -u
patch=$1; shift
cd /verif
if ! patch=$(readlink -f "$patch"); git -C /repo apply --check "$patch" 2>/dev/null; then
  if ! git -C /repo apply --3way "$patch" 2>/dev/null; then echo "PATCH-DOES-NOT-APPLY $patch"; git -C /repo checkout -- . ; exit 9; fi
  git -C /repo reset -q
else
  git -C /repo apply "$patch"
fi
for id in "$@"; do
  out=$(./check $id --tier quick 2>&1); rc=$?
  echo "== $id rc=$rc $(echo "$out" | grep -c '^VIOLATION') violations"
  echo "$out" | grep -E '^(VIOLATION|TOOL-ERROR|KNOWN)' | head -3
done
git -C /repo checkout -- .
git -C /repo status --short | head -3
