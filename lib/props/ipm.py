"""C01, C02, C03, C04, C06, C07, C20: checks built on IPM.tla / Trace_IPM.tla."""
import json, os, time
from vlib import *

IPM_ACTIONS = ["SaveScalars", "Update", "PrintRow", "Check", "Rollback", "ProgResetStatus", "CkptProgress",
               "Scale", "SetStatusFail", "KKTUpdate", "Affine", "Centering", "Combined", "CkptNumerical",
               "StepLength", "CkptSmallStep", "SavePrev", "AddStep", "LoopExit", "PostInfo", "PostSolution",
               "Footer"]

_mc_cache = {}


def mc_ipm():
    if "r" not in _mc_cache:
        r = run_mc("MC_IPM.tla", "MC_IPM.cfg", workers=4, timeout=600, name="MC_IPM")
        vacuity_guard(r, IPM_ACTIONS)
        _mc_cache["r"] = r
    return _mc_cache["r"]


def record(wd, name, family, count, seed, nmax=8, extra=None):
    tr = os.path.join(wd, f"{name}.ndjson")
    cs = os.path.join(wd, f"{name}.cases.ndjson")
    mt = os.path.join(wd, f"{name}.meta.json")
    args = ["ipm", "--family", family, "--count", count, "--seed", seed, "--nmax", nmax,
            "--out", tr, "--cases", cs, "--meta", mt] + (extra or [])
    run_vh(args)
    return tr, cs, json.load(open(mt))


def run_of_line(lines, idx):
    """run id of the trace line idx (1-based) by scanning back to its Begin/Panic event"""
    for k in range(idx - 1, -1, -1):
        e = lines[k]
        if e.get("ev") in ("Begin", "Panic"):
            return e.get("run")
    return None


def validate_family(res, prop, tr, cs, name, nshards=8):
    v = validate_trace("Trace_IPM.tla", "Trace_IPM.cfg", tr, nshards=nshards, env_extra={"PROP": prop},
                       boundary=lambda e: e.get("ev") in ("Begin", "Panic"))
    if not v["ok"]:
        lines = read_ndjson(tr)
        cases = {c["run"]: c for c in read_ndjson(cs)}
        for rj in v["rejects"]:
            run = run_of_line(lines, rj["line"])
            case = cases.get(run)
            ev = rj["event"] or {}
            text = f"run={run} rejected at {ev.get('ev')} (trace line {rj['line']})"
            key = None
            if ev.get("ev") == "Panic":
                key = "panic:" + str(ev.get("msg", ""))[:60].replace(" ", "_")
                text += " panic: " + str(ev.get("msg"))[:200]
            res.violation(f"{name}-s{res.seed}-run{run}",
                          {"kind": "ipm", "prop": prop, "case": case, "event": ev, "prev": rj["prev"],
                           "invariant": rj["invariant"]}, text, key=key)
    return v


def ipm_generic(prop, tier, seed, plan, level_note_samples=True):
    """plan: list of (name, family, count_quick, count_thorough, nmax, extra)"""
    res = Result(prop, tier, seed, "model_checking")
    mc = mc_ipm()
    wd = workdir(prop)
    tot_events = tot_runs = 0
    hist = {}
    distinct = 0
    samples = []
    tstates = ttrans = 0
    for k, (name, family, cq, ct, nmax, extra) in enumerate(plan):
        cnt = cq if tier == "quick" else ct
        tr, cs, meta = record(wd, name, family, cnt, seed * 1000 + k, nmax, extra)
        v = validate_family(res, prop, tr, cs, name)
        tot_events += v["events"]
        tot_runs += meta["runs"]
        tstates += v["states"]
        ttrans += v["transitions"]
        distinct += meta["distinct_nontrivial"]
        for s, n in meta["status_hist"].items():
            hist[s] = hist.get(s, 0) + n
        lines = read_ndjson(tr)
        samples += [l for l in lines[:40] if l["ev"] in ("Begin", "Check", "Done")][:3]
    res.coverage = {
        "states": mc["states"] + tstates, "transitions": mc["transitions"] + ttrans,
        "mc_states": mc["states"], "mc_transitions": mc["transitions"],
        "traces_validated_against_impl": tot_runs, "trace_events": tot_events,
        "evaluations": tot_runs, "distinct_nontrivial": distinct,
        "rule": "one evaluation = one real solve recorded through the hooks and accepted/rejected by TLC against "
                "Trace_IPM; non-trivial = reached >= 2 iterations; distinct by digest of the returned (x,s,z)",
        "status_histogram": hist, "samples": samples,
        "mc_action_coverage": {a: mc["coverage"].get(a, 0) for a in IPM_ACTIONS},
        "checker_cmd": "tlc MC_IPM.tla (exhaustive, MaxK=3) ; tlc Trace_IPM.tla per recorded trace shard",
        "trusted_base": ["TLC", "harness observer (dense arithmetic)", "ordered-float encoder", "hooks in src/verif.rs"],
        "exhaustive": False,
    }
    res.assumptions = ["observer arithmetic (harness/src/observer.rs) is correct",
                       "hook events are emitted at the points listed in MANIFEST.hooks"]
    return res


def replay(prop, payload):
    res = Result(prop, "quick", 0, "model_checking")
    wd = workdir(prop + "_replay")
    cs = os.path.join(wd, "case.json")
    with open(cs, "w") as f:
        f.write(json.dumps(payload["case"]) + "\n")
    tr = os.path.join(wd, "replay.ndjson")
    run_vh(["ipm-replay", "--case", cs, "--out", tr])
    v = validate_family(res, prop, tr, cs, "replay", nshards=1)
    res.coverage = {"states": max(1, v["states"]), "transitions": max(1, v["transitions"]),
                    "traces_validated_against_impl": 1, "samples": [payload.get("event")]}
    return res


def c01(tier, seed):
    return ipm_generic("C01", tier, seed, [
        ("feas", "feasible", 250, 6000, 8, []),
        ("bad", "badscale", 150, 3000, 8, []),
        ("big", "feasible", 40, 1500, 30, []),
    ])


def c02(tier, seed):
    return ipm_generic("C02", tier, seed, [
        ("pinf", "pinf", 200, 5000, 8, []),
        ("dinf", "dinf", 200, 5000, 8, []),
        ("bad", "badscale", 150, 4000, 8, []),
    ])


def c03(tier, seed):
    return ipm_generic("C03", tier, seed, [
        ("mixed", "mixed", 350, 8000, 8, []),
        ("bad", "badscale", 150, 4000, 10, []),
    ])


def c07(tier, seed):
    return ipm_generic("C07", tier, seed, [
        ("mixed", "mixed", 300, 8000, 8, []),
        ("bad", "badscale", 100, 3000, 10, []),
    ])
