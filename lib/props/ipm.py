"""C01, C02, C03, C04, C06, C07, C20: checks built on IPM.tla / Trace_IPM.tla."""
import json, os, time
from vlib import *

IPM_ACTIONS = ["SaveScalars", "Update", "PrintRow", "Check", "Rollback", "ProgResetStatus", "CkptProgress",
               "Scale", "SetStatusFail", "KKTUpdate", "Affine", "Centering", "Combined", "CkptNumerical",
               "StepLength", "CkptSmallStep", "SavePrev", "AddStep", "LoopExit", "PostInfo", "PostSolution",
               "Footer"]

_mc_cache = {}


def mc_ipm():
    if "r" not in _mc_cache:
        r = run_mc("MC_IPM.tla", "MC_IPM.cfg", workers=4, timeout=600, name="MC_IPM")
        vacuity_guard(r, IPM_ACTIONS)
        _mc_cache["r"] = r
    return _mc_cache["r"]


def record(wd, name, family, count, seed, nmax=8, extra=None):
    tr = os.path.join(wd, f"{name}.ndjson")
    cs = os.path.join(wd, f"{name}.cases.ndjson")
    mt = os.path.join(wd, f"{name}.meta.json")
    args = ["ipm", "--family", family, "--count", count, "--seed", seed, "--nmax", nmax,
            "--out", tr, "--cases", cs, "--meta", mt] + (extra or [])
    run_vh(args)
    return tr, cs, json.load(open(mt))


def run_of_line(lines, idx):
    """run id of the trace line idx (1-based) by scanning back to its Begin/Panic event"""
    for k in range(idx - 1, -1, -1):
        e = lines[k]
        if e.get("ev") in ("Begin", "Panic"):
            return e.get("run")
    return None


def validate_family(res, prop, tr, cs, name, nshards=8):
    v = validate_trace("Trace_IPM.tla", "Trace_IPM.cfg", tr, nshards=nshards, env_extra={"PROP": prop},
                       boundary=lambda e: e.get("ev") in ("Begin", "Panic"))
    if not v["ok"]:
        lines = read_ndjson(tr)
        cases = {c["run"]: c for c in read_ndjson(cs)}
        for rj in v["rejects"]:
            run = run_of_line(lines, rj["line"])
            case = cases.get(run)
            ev = rj["event"] or {}
            text = f"run={run} rejected at {ev.get('ev')} (trace line {rj['line']})"
            key = None
            if ev.get("ev") == "Panic":
                key = "panic:" + str(ev.get("msg", ""))[:60].replace(" ", "_")
                text += " panic: " + str(ev.get("msg"))[:200]
            res.violation(f"{name}-s{res.seed}-run{run}",
                          {"kind": "ipm", "prop": prop, "case": case, "event": ev, "prev": rj["prev"],
                           "invariant": rj["invariant"]}, text, key=key)
    return v


def ipm_generic(prop, tier, seed, plan, level_note_samples=True):
    """plan: list of (name, family, count_quick, count_thorough, nmax, extra)"""
    res = Result(prop, tier, seed, "model_checking")
    mc = mc_ipm()
    wd = workdir(prop)
    tot_events = tot_runs = 0
    hist = {}
    distinct = 0
    samples = []
    tstates = ttrans = 0
    for k, (name, family, cq, ct, nmax, extra) in enumerate(plan):
        cnt = cq if tier == "quick" else ct
        tr, cs, meta = record(wd, name, family, cnt, seed * 1000 + k, nmax, extra)
        v = validate_family(res, prop, tr, cs, name)
        tot_events += v["events"]
        tot_runs += meta["runs"]
        tstates += v["states"]
        ttrans += v["transitions"]
        distinct += meta["distinct_nontrivial"]
        for s, n in meta["status_hist"].items():
            hist[s] = hist.get(s, 0) + n
        lines = read_ndjson(tr)
        samples += [l for l in lines[:40] if l["ev"] in ("Begin", "Check", "Done")][:3]
    res.coverage = {
        "states": mc["states"] + tstates, "transitions": mc["transitions"] + ttrans,
        "mc_states": mc["states"], "mc_transitions": mc["transitions"],
        "traces_validated_against_impl": tot_runs, "trace_events": tot_events,
        "evaluations": tot_runs, "distinct_nontrivial": distinct,
        "rule": "one evaluation = one real solve recorded through the hooks and accepted/rejected by TLC against "
                "Trace_IPM; non-trivial = reached >= 2 iterations; distinct by digest of the returned (x,s,z)",
        "status_histogram": hist, "samples": samples,
        "mc_action_coverage": {a: mc["coverage"].get(a, 0) for a in IPM_ACTIONS},
        "checker_cmd": "tlc MC_IPM.tla (exhaustive, MaxK=3) ; tlc Trace_IPM.tla per recorded trace shard",
        "trusted_base": ["TLC", "harness observer (dense arithmetic)", "ordered-float encoder", "hooks in src/verif.rs"],
        "exhaustive": False,
    }
    res.assumptions = ["observer arithmetic (harness/src/observer.rs) is correct",
                       "hook events are emitted at the points listed in MANIFEST.hooks"]
    return res


def replay(prop, payload):
    res = Result(prop, "quick", 0, "model_checking")
    wd = workdir(prop + "_replay")
    cs = os.path.join(wd, "case.json")
    with open(cs, "w") as f:
        f.write(json.dumps(payload.get("case")) + "\n")
    kind = payload.get("kind", "ipm")
    tr = os.path.join(wd, "replay.ndjson")
    if kind == "ipm":
        run_vh(["ipm-replay", "--case", cs, "--out", tr])
        v = validate_family(res, prop, tr, cs, "replay", nshards=1)
    elif kind == "budget":
        run_vh(["budget-replay", "--case", cs, "--out", tr])
        v = validate_simple(res, prop, "Budget.tla", "Budget.cfg", tr, cs, "replay", "budget", nshards=1,
                            boundary=lambda e: e.get("ev") in ("Long", "Panic"))
    elif kind == "centrality":
        run_vh(["centrality-replay", "--case", cs, "--out", tr])
        v = validate_simple(res, prop, "Trace_Centrality.tla", "Trace_Centrality.cfg", tr, cs, "replay", "centrality", nshards=1)
    elif kind == "direction":
        run_vh(["direction-replay", "--case", cs, "--out", tr])
        v = validate_simple(res, prop, "Trace_Direction.tla", "Trace_Direction.cfg", tr, cs, "replay", "direction", nshards=1)
    elif kind == "print":
        run_vh(["print-replay", "--case", cs, "--out", tr, "--dir", wd])
        v = validate_simple(res, prop, "Print.tla", "Print_trace.cfg", tr, cs, "replay", "print", nshards=1,
                            env={"STRICT_LAST_ROW": "1"})
    else:
        # aggregate verdicts (distribution, dimension table) are replayed by re-running the check
        r2 = {"C06": c06, "C04": c04}[prop](payload.get("tier", "quick"), payload.get("seed", 1))
        res.violations = r2.violations
        return res
    res.coverage = {"states": max(1, v["states"]), "transitions": max(1, v["transitions"]),
                    "traces_validated_against_impl": 1, "samples": [payload.get("event")]}
    return res


def c01(tier, seed):
    return ipm_generic("C01", tier, seed, [
        ("feas", "feasible", 250, 6000, 8, []),
        ("bad", "badscale", 150, 3000, 8, []),
        ("big", "feasible", 40, 1500, 30, []),
        ("infb", "infb", 150, 3000, 8, []),
        ("objscale", "objscale", 150, 3000, 8, []),
    ])


def c02(tier, seed):
    return ipm_generic("C02", tier, seed, [
        ("pinf", "pinf", 200, 5000, 8, []),
        ("dinf", "dinf", 200, 5000, 8, []),
        ("bad", "badscale", 150, 4000, 8, []),
        ("gate", "gate", 150, 4000, 8, []),
    ])


def c03(tier, seed):
    return ipm_generic("C03", tier, seed, [
        ("mixed", "mixed", 350, 8000, 8, []),
        ("bad", "badscale", 150, 4000, 10, []),
        ("infb", "infb", 100, 2000, 8, []),
        ("objscale", "objscale", 100, 2000, 8, []),
        ("inverted", "inverted", 150, 3000, 8, []),
    ])


def validate_simple(res, prop, spec, cfg, tr, cs, name, kind, boundary=None, env=None, nshards=8, keyfn=None):
    """generic sharded trace validation for independent-event traces; rejections become violations"""
    env = dict(env or {})
    env.setdefault("PROP", prop)
    v = validate_trace(spec, cfg, tr, nshards=nshards, env_extra=env,
                       boundary=boundary or (lambda e: True))
    if not v["ok"]:
        lines = read_ndjson(tr)
        cases = {c["run"]: c for c in read_ndjson(cs)} if cs and os.path.exists(cs) else {}
        for rj in v["rejects"]:
            ev = rj["event"] or {}
            run = ev.get("run")
            if run is None:
                run = run_of_line(lines, rj["line"])
            text = f"run={run} rejected at {ev.get('ev')} (trace line {rj['line']})"
            key = keyfn(ev) if keyfn else None
            if ev.get("ev") == "Panic":
                key = key or ("panic:" + str(ev.get("msg", ""))[:60].replace(" ", "_"))
                text += " panic: " + str(ev.get("msg"))[:200]
            res.violation(f"{name}-s{res.seed}-run{run}",
                          {"kind": kind, "prop": prop, "case": cases.get(run), "event": ev, "prev": rj["prev"]},
                          text, key=key)
    return v


def add_cov(res, v, runs, samples, label):
    c = res.coverage
    c["states"] = c.get("states", 0) + v["states"]
    c["transitions"] = c.get("transitions", 0) + v["transitions"]
    c["traces_validated_against_impl"] = c.get("traces_validated_against_impl", 0) + runs
    c["trace_events"] = c.get("trace_events", 0) + v["events"]
    c.setdefault("samples", [])
    c["samples"] += samples[:2]
    c.setdefault("parts", {})[label] = {"events": v["events"], "runs": runs}


def c07(tier, seed):
    res = ipm_generic("C07", tier, seed, [
        ("mixed", "mixed", 300, 8000, 8, ["--detail", "64"]),
        ("bad", "badscale", 100, 3000, 10, ["--detail", "64"]),
        ("extreme", "extreme", 150, 3000, 8, ["--detail", "64"]),
    ])
    # budget independence: two-run refinement (Budget.tla)
    wd = wd_of("C07")
    tr, cs, mt = [os.path.join(wd, "budget" + x) for x in (".ndjson", ".cases.ndjson", ".meta.json")]
    cnt = 96 if tier == "quick" else 1500
    run_vh(["budget", "--seed", seed, "--count", cnt, "--kmax", 12 if tier == "quick" else 40,
            "--out", tr, "--cases", cs, "--meta", mt])
    meta = json.load(open(mt))
    v = validate_simple(res, "C07", "Budget.tla", "Budget.cfg", tr, cs, "budget", "budget",
                        boundary=lambda e: e.get("ev") in ("Long", "Panic"))
    add_cov(res, v, meta["short_runs"], [l for l in read_ndjson(tr)[:3]], "budget")
    res.coverage["budget_short_runs"] = meta["short_runs"]
    return res


def binom_tail_threshold(n, p=0.005, alpha=1e-9):
    """smallest k with P(Binomial(n,p) >= k) <= alpha (pmf by recurrence, no big integers)"""
    pmf = (1 - p) ** n
    tail = 1.0
    k = 0
    while k <= n:
        if tail <= alpha:
            return k
        tail -= pmf
        pmf = pmf * (n - k) / (k + 1) * p / (1 - p)
        k += 1
    return n + 1


def c06(tier, seed):
    res = Result("C06", tier, seed, "exploration")
    mc = mc_ipm()
    wd = workdir("C06")
    total = 2000 if tier == "quick" else 20000
    # reference seeds are always included besides VERIF_SEED
    parts = [(101, total // 4), (202, total // 4), (seed * 7919 + 13, total - 2 * (total // 4))]
    summary_all = os.path.join(wd, "summary.ndjson")
    events = 0
    samples = []
    nruns = 0
    distinct = set()
    with open(summary_all, "w") as sf:
        for k, (sd, cnt) in enumerate(parts):
            tr, cs, sm = [os.path.join(wd, f"g{k}" + x) for x in (".ndjson", ".cases.ndjson", ".summary.ndjson")]
            run_vh(["dist", "--seed", sd, "--count", cnt, "--out", tr, "--cases", cs, "--summary", sm])
            v = validate_family(res, "C06", tr, cs, f"g{k}")
            events += v["events"]
            for e in read_ndjson(sm):
                e["run"] = nruns
                nruns += 1
                sf.write(json.dumps(e) + "\n")
                if e["iterations"] >= 2:
                    distinct.add((e["iterations"], e["status"], e["run"]))
            samples += read_ndjson(sm)[:2]
    kfail = binom_tail_threshold(nruns)
    env = {"KFAIL": str(kfail), "ENVELOPE_ALL": "24", "ENVELOPE_SYM": "16"}
    r = _dist_run(summary_all, env)
    res.coverage = {"evaluations": nruns, "distinct_nontrivial": len(distinct),
                    "rule": "family G (planted strictly feasible primal-dual pair, m >= 2n+2, n <= 60, magnitudes <= 1e3, "
                            "zero/NN/SOC/exp/power/genpower cones); every run validated against Trace_IPM (PROP=C06: sigma=(1-alpha)^3, "
                            "first-iteration damping) and counted by Dist.tla; non-trivial = at least 2 iterations",
                    "samples": samples, "trace_events": events, "kfail_threshold": kfail,
                    "dist": r.get("dist"), "mc_states": mc["states"], "envelopes": env}
    if not r["ok"]:
        res.violation(f"dist-s{seed}", {"kind": "dist", "dist": r.get("dist"), "env": env, "seed": seed, "tier": tier},
                      f"distributional clause failed: [n, nonSolved, overAll, overSym, nsym, maxit] = {r.get('dist')} (kfail={kfail})")
    res.coverage["direction"] = _direction(res, tier, seed, wd)
    res.coverage["centrality"] = _centrality(res, tier, seed, wd)
    return res


def _centrality(res, tier, seed, wd):
    """the barrier line search of the dual scaling strategy: protocol (Centrality.tla, every pass/fail oracle) and, on recorded
    runs, protocol + content of every probe (Trace_Centrality.tla)"""
    from vlib import fdec
    mc = run_mc("Centrality.tla", "MC_Centrality.cfg", workers=2, timeout=600, coverage=False, name="MC_Centrality")
    tr, cs = [os.path.join(wd, "centrality" + x) for x in (".ndjson", ".cases.ndjson")]
    cnt = 250 if tier == "quick" else 10000
    p = run_vh(["centrality", "--seed", seed, "--count", cnt, "--out", tr, "--cases", cs], timeout=4 * 3600)
    meta = json.loads(p.stdout.strip().splitlines()[-1])
    v = validate_trace("Trace_Centrality.tla", "Trace_Centrality.cfg", tr, nshards=10, boundary=lambda e: True)
    if not v["ok"]:
        cases = {c["run"]: c for c in read_ndjson(cs)}
        groups = {}
        for rj in v["rejects"]:
            e = rj["event"] or {}
            bad = lambda pr: not fdec(pr[0]) <= fdec(pr[1])
            content = any((not q.get("skip")) and (bad(q["mu"]) or bad(q["total"]) or any(bad(t) for t in q["sym_terms"])) for q in e.get("probes", []))
            cls = "probe_content" if content else "protocol"
            groups.setdefault(cls, []).append(e)
        for cls, evs in groups.items():
            e = evs[0]
            res.violation("centrality-" + cls, {"kind": "centrality", "prop": "C06", "case": cases.get(e.get("run")),
                                                 "event": {k: e[k] for k in e if k not in ("probes", "expected_alpha")}, "count": len(evs)},
                          f"{len(evs)} centrality line searches violate {cls} (first: run={e.get('run')} pass={e.get('pass')})", key="centrality:" + cls)
    if v["ok"] and not (meta["searches"] > 0 and meta["runs_with_soc"] > 0 and meta["runs_with_nonneg"] > 0):
        raise ToolError(f"centrality recorder did not exercise the search: {meta}")
    return {"mc_states": mc["states"], "events": v["events"], "meta": meta,
            "rule": "one event = one call of backtrack_step_to_barrier (combined step under dual scaling) on planted problems with a generalised power "
                    "cone among zero / nonnegative / second-order / PSD / exponential / power cones: geometric probe sequence bit for bit, first "
                    "passing probe returned (or the untested 51st value), mu(alpha), scalar part, barrier term of every symmetric cone and the total of every probe"}


def _direction(res, tier, seed, wd):
    """the search direction solves the block rows of the linearised embedding that do not depend on the sparse solve
    (Direction.tla at design level with two must-fail variants, Trace_Direction.tla on every KKT solve of recorded runs)"""
    from vlib import fdec
    mc = run_mc("Direction.tla", "MC_Direction.cfg", workers=4, timeout=900, coverage=False, name="MC_Direction")
    for neg in ("MC_Direction_neg.cfg", "MC_Direction_neg2.cfg"):
        nn = run_mc("Direction.tla", neg, workers=4, timeout=900, coverage=False, name=neg[:-4], expect_ok=False)
        if nn["ok"] or "TauRow" not in nn["violated"]:
            raise ToolError(f"vacuity guard: Direction.tla with a wrong dtau denominator ({neg}) no longer violates TauRow")
    tr, cs = [os.path.join(wd, "direction" + x) for x in (".ndjson", ".cases.ndjson")]
    cnt = 400 if tier == "quick" else 20000
    p = run_vh(["direction", "--seed", seed, "--count", cnt, "--out", tr, "--cases", cs], timeout=4 * 3600)
    meta = json.loads(p.stdout.strip().splitlines()[-1])
    v = validate_trace("Trace_Direction.tla", "Trace_Direction.cfg", tr, nshards=10, boundary=lambda e: True)
    if not v["ok"]:
        cases = {c["run"]: c for c in read_ndjson(cs)}
        groups = {}
        for rj in v["rejects"]:
            e = rj["event"] or {}
            failing = sorted(k for k, (er, tl) in (e.get("checks") or {}).items() if not fdec(er) <= fdec(tl))
            cls = f"{e.get('dir')}:{'+'.join(failing) or 'missing_check_or_affine'}"
            groups.setdefault(cls, []).append(e)
        for cls, evs in list(groups.items())[:10]:
            e = evs[0]
            res.violation("direction-" + cls.replace(":", "_").replace("+", "_")[:70],
                          {"kind": "direction", "prop": "C06", "case": cases.get(e.get("run")), "event": e, "count": len(evs)},
                          f"{len(evs)} search directions violate {cls} (first: run={e.get('run')} pass={e.get('pass')})", key="direction:" + cls)
    if v["ok"] and not (meta["combined"] > 0 and meta["runs_with_P"] > 0 and meta["runs_nonsymmetric"] > 0):
        raise ToolError(f"direction recorder did not exercise every family: {meta}")
    return {"mc_states": mc["states"], "events": v["events"], "meta": meta,
            "rule": "one event = one call of DefaultKKTSystem::solve (affine or combined direction) in a recorded solve of family G, "
                    "all-cone planted problems with random settings, large quadratic costs with equilibration off, infeasible, "
                    "extreme-magnitude, badly scaled and objective-scaled problems: tau row and kappa row of the linearised embedding, "
                    "composition from the two reduced solves and the four right-hand sides, each as <<|defect|, rounding bound>> decided by TLC"}


def _dist_run(summary, env):
    import subprocess, re, shutil
    md = os.path.join(WORK, f"tlc_dist_{os.getpid()}")
    shutil.rmtree(md, ignore_errors=True)
    cmd = ["java", "-Xss1g", "-cp", TLA_CP, "tlc2.TLC", "-workers", "1", "-metadir", md, "-cleanup",
           "-noGenerateSpecTE", "-config", "Dist.cfg", "Dist.tla"]
    e = dict(os.environ)
    e.update(env)
    e["TRACE"] = summary
    p = subprocess.run(cmd, cwd=SPEC, stdout=subprocess.PIPE, stderr=subprocess.STDOUT, text=True, env=e, timeout=1800)
    shutil.rmtree(md, ignore_errors=True)
    m = re.search(r'<<"DIST", (\d+), (\d+), (\d+), (\d+), (\d+), (\d+)>>', p.stdout)
    ok = "Model checking completed. No error has been found." in p.stdout
    if not m:
        sys.stdout.write(p.stdout[-2000:])
        raise ToolError("Dist.tla produced no verdict")
    return {"ok": ok, "dist": [int(x) for x in m.groups()]}


def _vh_watched(res, seed, args, tr, name):
    """run a recorder that carries a watchdog: exit code 3 = a solve that did not return (a violation of C04, with its input)"""
    p = run_vh(args, check=False, timeout=6 * 3600)
    if p.returncode == 3:
        hang = json.load(open(tr + ".hang.json"))
        res.violation(f"hang-{name}-s{seed}", {"kind": "ipm", "prop": "C04", "case": hang, "event": {"ev": "Hang"}},
                      f"solve did not return within the watchdog limit ({name})")
        return False
    if p.returncode != 0:
        sys.stdout.write(p.stdout[-2000:] + p.stderr[-3000:])
        raise ToolError(f"{name} recorder failed (rc={p.returncode})")
    return True


def c04(tier, seed):
    res = ipm_generic("C04", tier, seed, [])
    wd = wd_of("C04")
    tr, cs, dm, mt = [os.path.join(wd, "shapes" + x) for x in (".ndjson", ".cases.ndjson", ".dims.ndjson", ".meta.json")]
    sample = 1500 if tier == "quick" else 0
    p = run_vh(["shapes", "--seed", seed, "--sample", sample, "--out", tr, "--cases", cs, "--dims", dm, "--meta", mt,
                "--maxlen", 3, "--maxm", 5 if tier == "quick" else 6], check=False, timeout=6 * 3600)
    if p.returncode == 3:
        hang = json.load(open(tr + ".hang.json"))
        res.violation(f"hang-s{seed}", {"kind": "ipm", "prop": "C04", "case": hang, "event": {"ev": "Hang"}},
                      "solve did not return within the watchdog limit")
        return res
    if p.returncode != 0:
        sys.stdout.write(p.stderr[-2000:])
        raise ToolError("shapes recorder failed")
    meta = json.load(open(mt))
    v = validate_family(res, "C04", tr, cs, "shapes")
    add_cov(res, v, meta["runs"], [l for l in read_ndjson(tr)[:40] if l["ev"] in ("Begin", "Done")], "shapes")
    res.coverage["evaluations"] = meta["runs"]
    res.coverage["distinct_nontrivial"] = meta["distinct_nontrivial"]
    res.coverage["status_histogram"] = meta["status_hist"]
    res.coverage["exhaustive"] = (sample == 0)
    res.coverage["rule"] = ("degenerate shapes: every cone list of <= 3 cones over {Zero(0..2),NN(0..2),SOC(1..3),Exp,Pow,GenPow,PSD(1..2)} "
                            "with total size <= 5 (6 thorough), n in 1..2, eight data variants (all-zero, small ints, duplicate rows, "
                            "1e+-12 magnitudes, infeasible rhs, unbounded, and independent magnitude ladders 1e0..1e300 / 1e0..1e-300 for "
                            "A, b, q, P), every third run verbose (printing to a buffer), max_iter in {0,1,2,200}, time_limit in {inf,0,1e-9}; "
                            "quick samples 1500 of them by seed; distinct by (cones,n,variant,max_iter)")
    # construction guard
    v2 = validate_simple(res, "C04", "Construct.tla", "Construct.cfg", dm, None, "dims", "dims", nshards=1,
                         keyfn=lambda e: None)
    add_cov(res, v2, meta["dim_cases"], read_ndjson(dm)[:2], "dimension_guard")
    # time limit reached mid-run through an injected sleep
    tr3, cs3, mt3 = [os.path.join(wd, "tl" + x) for x in (".ndjson", ".cases.ndjson", ".meta.json")]
    if not _vh_watched(res, seed, ["timelimit", "--seed", seed, "--count", 30 if tier == "quick" else 300, "--out", tr3, "--cases", cs3, "--meta", mt3], tr3, "timelimit"):
        return res
    m3 = json.load(open(mt3))
    v3 = validate_family(res, "C04", tr3, cs3, "timelimit")
    add_cov(res, v3, m3["runs"], [], "timelimit")
    res.coverage["timelimit_status_histogram"] = m3["status_hist"]
    # scripted failures at the loop's decision points (scaling, refactorisation, affine/combined solves, step length)
    tr4, cs4, mt4 = [os.path.join(wd, "faults" + x) for x in (".ndjson", ".cases.ndjson", ".meta.json")]
    if not _vh_watched(res, seed, ["faults", "--seed", seed, "--count", 400 if tier == "quick" else 8000, "--out", tr4, "--cases", cs4, "--meta", mt4], tr4, "faults"):
        return res
    m4 = json.load(open(mt4))
    v4 = validate_family(res, "C04", tr4, cs4, "faults")
    add_cov(res, v4, m4["runs"], [], "faults")
    res.coverage["fault_points"] = m4["points"]
    res.coverage["fault_status_histogram"] = m4["status_hist"]
    # runs to the numerical limit (all tolerances zero, 500 iterations) on nonsymmetric-cone mixtures
    tr5, cs5, mt5 = [os.path.join(wd, "longrun" + x) for x in (".ndjson", ".cases.ndjson", ".meta.json")]
    if not _vh_watched(res, seed, ["longrun", "--seed", seed, "--count", 80 if tier == "quick" else 1500, "--out", tr5, "--cases", cs5, "--meta", mt5], tr5, "longrun"):
        return res
    m5 = json.load(open(mt5))
    v5 = validate_family(res, "C04", tr5, cs5, "longrun")
    add_cov(res, v5, m5["runs"], [], "longrun")
    res.coverage["longrun"] = m5
    # API interleavings on one solver object (Session.tla): the iteration budget edited between solves
    from props import structs as _st
    _st.session_replay(res, "C04", tier, seed, wd, "limit,panic")
    # the timers behind solve_time / time_limit: Timers.tla behaviours replayed on the real Timers with real sleeps
    from props import structs
    rt = structs.spec_to_impl(res, "C04", "Timers.tla", ["MC_Timers_5.cfg" if tier == "quick" else "MC_Timers.cfg"], "timers-replay", wd, "timers",
                              workers=8, extra_args=["--every", 8 if tier == "quick" else 3])
    res.coverage["timers"] = {"states": rt["states"], "behaviours_replayed": rt["behaviours"]}
    res.coverage["states"] = res.coverage.get("states", 0) + rt["states"]
    res.coverage["traces_validated_against_impl"] = res.coverage.get("traces_validated_against_impl", 0) + rt["behaviours"]
    if m3["status_hist"].get("MaxTime", 0) == 0 and not res.violations:
        if not res.violations: raise ToolError("vacuity guard: no MaxTime verdict produced by the sleep-injection corpus")   # (a violation already found is reported as such)
    return res


def c20(tier, seed):
    res = ipm_generic("C20", tier, seed, [
        ("mixedp", "mixed", 200, 4000, 8, ["--print", "1"]),
        ("badp", "badscale", 100, 2000, 8, ["--print", "1"]),
    ])
    mcp = run_mc("Print.tla", "MC_Print.cfg", workers=2, timeout=300, name="MC_Print", coverage=False)
    wd = wd_of("C20")
    # design level, spec -> impl: every sequence of 5 (quick) target selections / verbosity changes / solves on one real solver
    from props import structs
    rp = structs.spec_to_impl(res, "C20", "Print.tla", ["MC_Print_replay.cfg" if tier == "quick" else "MC_Print_replay6.cfg"], "printseq-replay", wd, "printseq",
                              workers=6, extra_args=["--dir", wd])
    res.coverage["print_sequences"] = {"states": rp["states"], "behaviours_replayed": rp["behaviours"]}
    structs.session_replay(res, "C20", tier, seed, wd, "buffer")
    for k, fam in enumerate(["mixed", "badscale"]):
        tr, cs = [os.path.join(wd, f"print{k}" + x) for x in (".ndjson", ".cases.ndjson")]
        cnt = (120 if tier == "quick" else 3000) // (k + 1)
        run_vh(["print", "--seed", seed * 10 + k, "--count", cnt, "--family", fam, "--out", tr, "--cases", cs, "--dir", wd])
        v = validate_simple(res, "C20", "Print.tla", "Print_trace.cfg", tr, cs, f"print{k}", "print",
                            env={"STRICT_LAST_ROW": "1"}, nshards=4)
        add_cov(res, v, cnt, [{k2: v2 for k2, v2 in read_ndjson(tr)[0].items() if k2 not in ("last",)}], f"print_{fam}")
    res.coverage["mc_print_states"] = mcp["states"]
    return res
