"""C12 (Qdldl), C16 (Csc), C17 (Chordal/DSU), ...: data-structure properties, spec -> impl and impl -> spec."""
import json, os, re, subprocess, shutil, sys, time
from vlib import *


def extract_replay(src, path, mode="w"):
    """REPLAY lines of a TLC output file -> ndjson (duplicates dropped; digests, not lines, are remembered)"""
    import hashlib
    n = 0
    seen = set()
    pre, post = '<<"REPLAY", "', '">>'
    with open(path, mode) as f, open(src, errors="replace") as fin:
        for raw in fin:
            raw = raw.rstrip("\n")
            if not (raw.startswith(pre) and raw.endswith(post)):
                continue
            line = raw[len(pre):-len(post)].replace('\\"', '"').replace('\\\\', '\\')
            h = hashlib.blake2b(line.encode(), digest_size=12).digest()
            if h in seen:
                continue
            seen.add(h)
            f.write(line + "\n")
            n += 1
    return n


def spec_to_impl(res, prop, module, cfgs, replay_cmd, wd, label, workers=8, timeout=3000, simulate=None, extra_args=None):
    """run bounded TLC instances that export behaviours, replay them into the real code"""
    beh = os.path.join(wd, f"{label}.behaviours.ndjson")
    open(beh, "w").close()
    states = trans = 0
    per_cfg = {}
    for cfg in cfgs:
        sim = None
        if isinstance(cfg, tuple):
            cfg, sim = cfg
        raw = os.path.join(wd, f"{label}.tlc.out")
        r = run_mc(module, cfg, workers=1 if sim else workers, timeout=timeout, coverage=False, name=f"{prop}_{cfg}",
                   simulate=sim[0] if sim else None, depth=sim[1] if sim else None, to_file=raw)
        n = extract_replay(raw, beh, "a")
        os.remove(raw)
        states += r.get("states", 0)
        trans += r.get("transitions", 0)
        per_cfg[cfg] = {"states": r.get("states", 0), "behaviours": n, "wall_s": round(r["wall_s"], 1)}
        if n == 0:
            raise ToolError(f"vacuity guard: {cfg} exported no behaviour")
    mis = os.path.join(wd, f"{label}.mismatch.ndjson")
    p = run_vh([replay_cmd, "--in", beh, "--out", mis] + (extra_args or []), timeout=timeout)
    summary = json.loads(p.stdout.strip().splitlines()[-1])
    bad = read_ndjson(mis)
    seen = {}
    for b in bad:
        cls = b.get("class", "mismatch")
        seen.setdefault(cls, []).append(b)
    for cls, items in seen.items():
        b = items[0]
        res.violation(f"{label}-{abs(hash(cls)) % 10**8}", {"kind": replay_cmd, "prop": prop, "behaviour": b["behaviour"],
                                                           "mismatch": b["mismatch"], "count": len(items)},
                      f"{len(items)} behaviours: {b['mismatch'][:200]}", key=cls)
    with open(beh) as f:
        first = [json.loads(next(f)) for _ in range(2)]
    return {"states": states, "transitions": trans, "behaviours": summary["behaviours"],
            "distinct_nontrivial": summary.get("distinct_nontrivial", 0), "per_cfg": per_cfg, "samples": first}


def replay_behaviour(prop, payload):
    res = Result(prop, "quick", 0, "model_checking")
    wd = workdir(prop + "_replay")
    beh = os.path.join(wd, "b.ndjson")
    with open(beh, "w") as f:
        f.write(json.dumps(payload["behaviour"]) + "\n")
    mis = os.path.join(wd, "m.ndjson")
    run_vh([payload["kind"], "--in", beh, "--out", mis])
    for b in read_ndjson(mis):
        res.violation("replay", payload, b["mismatch"], key=b.get("class"))
    res.coverage = {"states": 1, "transitions": 1, "traces_validated_against_impl": 1, "samples": [payload["behaviour"]]}
    return res


def c12(tier, seed):
    res = Result("C12", tier, seed, "model_checking")
    wd = workdir("C12")
    cfgs = ["MC_Qdldl_new2.cfg", "MC_Qdldl_edge2.cfg", "MC_Qdldl_perm3.cfg", "MC_Qdldl_new3q.cfg", "MC_Qdldl_hist3.cfg", "MC_Qdldl_hist3x.cfg"]
    if tier == "thorough":
        cfgs = ["MC_Qdldl_new2.cfg", "MC_Qdldl_edge2.cfg", "MC_Qdldl_edge3.cfg", "MC_Qdldl_perm3.cfg", "MC_Qdldl_new3.cfg", "MC_Qdldl_hist3.cfg", "MC_Qdldl_hist3x.cfg", "MC_Qdldl_new4.cfg"]
    r = spec_to_impl(res, "C12", "MC_Qdldl.tla", cfgs, "qdldl-replay", wd, "qdldl", workers=8 if tier == "quick" else 12)
    # raw encodings: dimensions, positions below the diagonal, unsorted columns
    rr = spec_to_impl(res, "C12", "QdldlRaw.tla", ["MC_QdldlRaw.cfg" if tier == "quick" else "MC_QdldlRaw4.cfg"], "qdldl-replay", wd, "qdldlraw", workers=4)
    r["states"] += rr["states"]; r["behaviours"] += rr["behaviours"]; r["per_cfg"].update(rr["per_cfg"])
    res.coverage = {"states": r["states"], "transitions": max(1, r["transitions"]),
                    "traces_validated_against_impl": r["behaviours"],
                    "evaluations": r["behaviours"], "distinct_nontrivial": r["distinct_nontrivial"],
                    "rule": "every behaviour of the bounded Qdldl instances (all matrices over the value sets incl. structurally missing "
                            "entries, all permutation vectors valid or not, D-sign vectors, regularisation on/off; histories of "
                            "update/scale/offset/refactor) is executed on the real engine; non-trivial = model outcome Ok (a numeric "
                            "factorisation is compared entry by entry with exact rationals) or a history; edge2/edge3: regularisation enabled with "
                            "eps <= 0 or delta = 0 (a zero pivot must still be reported); QdldlRaw: every raw encoding with dimensions <= 3 (4 thorough), any stored "
                            "positions incl. below the diagonal, columns stored ascending or descending -> structural error kind in the engine's order",
                    "per_cfg": r["per_cfg"], "samples": r["samples"], "exhaustive": True,
                    "checker_cmd": "tlc MC_Qdldl.tla (configs above) ; vh qdldl-replay",
                    "trusted_base": ["TLC", "Rational.tla", "harness replayer comparison (1e-11 relative float vs rational)"]}
    res.assumptions = ["float results are compared with exact rationals to 1e-11 relative; threshold ties are don't-care"]
    return res


def impl_to_spec(res, prop, spec, cfg, trace, name, nshards=10, env=None, keyfn=None, kind="events"):
    """independent-event trace validation; each rejected event becomes (part of) a violation"""
    v = validate_trace(spec, cfg, trace, nshards=nshards, env_extra=env, boundary=lambda e: True)
    if not v["ok"]:
        groups = {}
        for rj in v["rejects"]:
            ev = rj["event"] or {}
            cls = keyfn(ev) if keyfn else str(ev.get("name", ev.get("ev", "event")))
            groups.setdefault(cls, []).append(ev)
        for cls, evs in groups.items():
            res.violation(f"{name}-{cls}"[:80].replace("/", "_").replace(" ", "_"),
                          {"kind": kind, "prop": prop, "event": evs[0], "count": len(evs), "spec": spec, "cfg": cfg},
                          f"{len(evs)} rejected events of class {cls}: {json.dumps(evs[0])[:300]}", key=cls)
    return v


def replay_events(prop, payload):
    if payload.get("kind") not in (None, "events") and payload.get("case"):
        return replay_case(prop, payload)
    return _replay_events(prop, payload)


def _replay_events(prop, payload):
    """re-validate a single recorded event (the event carries its full input and the implementation's output;
    to re-execute the implementation run the check again)"""
    res = Result(prop, "quick", 0, "model_checking")
    wd = workdir(prop + "_replay")
    tr = os.path.join(wd, "event.ndjson")
    with open(tr, "w") as f:
        f.write(json.dumps(payload["event"]) + "\n")
    v = impl_to_spec(res, prop, payload["spec"], payload["cfg"], tr, "replay", nshards=1)
    res.coverage = {"states": 1, "transitions": 1, "traces_validated_against_impl": 1, "samples": [payload["event"]]}
    return res


def c16(tier, seed):
    res = Result("C16", tier, seed, "model_checking")
    wd = workdir("C16")
    mc = run_mc("MC_Csc.tla", "MC_Csc.cfg", workers=4, timeout=900, coverage=False, name="MC_Csc")
    tr = os.path.join(wd, "csc.ndjson")
    mt = os.path.join(wd, "csc.meta.json")
    run_vh(["csc", "--seed", seed, "--tier", tier, "--out", tr, "--meta", mt])
    meta = json.load(open(mt))
    v = impl_to_spec(res, "C16", "Trace_Csc.tla", "Trace_Csc.cfg", tr, "csc", nshards=12,
                     keyfn=lambda e: ("panic:" if "panic" in e else "") + str(e.get("name")))
    lines = read_ndjson(tr)
    names = {}
    distinct = set()
    for e in lines:
        names[e["name"]] = names.get(e["name"], 0) + 1
        distinct.add(json.dumps(e, sort_keys=True))
    res.coverage = {"states": mc["states"] + v["states"], "transitions": mc["transitions"] + v["transitions"],
                    "traces_validated_against_impl": v["events"], "evaluations": v["events"],
                    "distinct_nontrivial": len(distinct),
                    "rule": "one evaluation = one call of a CscMatrix operation on the real type with its full input/output encodings, "
                            "recomputed by TLC from Csc.tla; enumeration: all sparsity patterns of 11 shapes up to 3x3 and 4x3 under two "
                            "value schemes (distinct integers; +-1/0 with cancellation and explicit zeros), all row masks / positions, "
                            "gemv/symv for a,b in {-1,0,1,2}, all triplet sequences up to length 4-5 on 2x3 / 3x3 grids, all raw "
                            "(m,n,colptr,rowval) encodings with m,n<=2 for check_format, block pairs; quick samples by seed, thorough is exhaustive; "
                            "distinct = distinct event records",
                    "per_operation": names, "recorder_meta": meta, "samples": sample(lines, 3),
                    "mc_csc_states": mc["states"], "exhaustive": bool(meta.get("exhaustive"))}
    res.assumptions = ["small-integer values: f64 arithmetic is exact, so equality with the integer semantics is exact"]
    return res


def c09(tier, seed):
    res = Result("C09", tier, seed, "model_checking")
    wd = workdir("C09")
    cfgs = ["MC_Presolve_quick.cfg", "MC_Presolve_neg.cfg", "MC_Presolve_hist.cfg"] if tier == "quick" else ["MC_Presolve_quick.cfg", "MC_Presolve_neg.cfg", "MC_Presolve_hist.cfg", "MC_Presolve_full.cfg"]
    r = spec_to_impl(res, "C09", "MC_Presolve.tla", cfgs, "presolve-replay", wd, "presolve", workers=8 if tier == "quick" else 14,
                     timeout=4 * 3600, extra_args=["--seed", seed])
    res.coverage = {"states": r["states"], "transitions": max(1, r["transitions"]), "traces_validated_against_impl": r["behaviours"],
                    "evaluations": r["behaviours"], "distinct_nontrivial": r["distinct_nontrivial"],
                    "rule": "every behaviour of the bounded Presolve instances (every cone list over the menu incl. empty and 1-dimensional "
                            "SOC/PSD cones, every placement of finite/big/huge right-hand sides, presolve on/off, set_infinity before and "
                            "after construction) is instantiated with a planted feasible problem and replayed: keep map, reduced cone list, "
                            "captured bound, capped b, internal rows compared after construction; returned s,z at dropped rows, user-length "
                            "vectors and agreement with the hand-reduced problem after solve; non-trivial = at least one row dropped",
                    "per_cfg": r["per_cfg"], "samples": r["samples"], "exhaustive": True,
                    "trusted_base": ["TLC", "replayer comparison", "observer (hand-reduced optimality check)"]}
    return res


def events_with_cases(res, prop, spec, cfg, tr, cs, name, replay_cmd, nshards=10, env=None):
    """independent events that each belong to a generated case (run id): a rejected event is reported with its case"""
    v = validate_trace(spec, cfg, tr, nshards=nshards, env_extra=env, boundary=lambda e: True)
    if not v["ok"]:
        cases = {c["run"]: c for c in read_ndjson(cs)}
        for rj in v["rejects"][:25]:
            ev = rj["event"] or {}
            run = ev.get("run")
            key = None
            text = f"run={run} rejected at {ev.get('ev')}"
            if ev.get("ev") == "Panic":
                key = "panic:" + str(ev.get("msg", ""))[:60].replace(" ", "_")
                text += " panic: " + str(ev.get("msg"))[:200]
            res.violation(f"{name}-s{res.seed}-run{run}", {"kind": replay_cmd, "prop": prop, "case": cases.get(run), "spec": spec,
                                                            "cfg": cfg, "event": {k: ev[k] for k in list(ev)[:6]}}, text, key=key)
    return v


def replay_case(prop, payload):
    res = Result(prop, "quick", 0, "model_checking")
    wd = workdir(prop + "_replay")
    cs = os.path.join(wd, "case.json")
    with open(cs, "w") as f:
        f.write(json.dumps(payload["case"]) + "\n")
    tr = os.path.join(wd, "replay.ndjson")
    run_vh([payload["kind"], "--case", cs, "--out", tr])
    events_with_cases(res, prop, payload["spec"], payload["cfg"], tr, cs, "replay", payload["kind"], nshards=1)
    res.coverage = {"states": 1, "transitions": 1, "traces_validated_against_impl": 1, "samples": [payload.get("event")]}
    return res


def c10(tier, seed):
    res = Result("C10", tier, seed, "model_checking")
    wd = workdir("C10")
    tr, cs, mt = [os.path.join(wd, "equil" + x) for x in (".ndjson", ".cases.ndjson", ".meta.json")]
    cnt = 2000 if tier == "quick" else 50000
    run_vh(["equil", "--seed", seed, "--count", cnt, "--out", tr, "--cases", cs, "--meta", mt])
    meta = json.load(open(mt))
    v = events_with_cases(res, "C10", "Equil.tla", "Equil.cfg", tr, cs, "equil", "equil-replay", nshards=12)
    lines = read_ndjson(tr)
    smp = [{k: e.get(k) for k in ("run", "enable", "iters", "cones", "zero_row", "zero_col")} for e in lines[:3] if "cones" in e]
    res.coverage = {"states": max(1, v["states"]), "transitions": max(1, v["transitions"]),
                    "traces_validated_against_impl": v["events"], "evaluations": v["events"],
                    "distinct_nontrivial": meta["with_nonscalar_cone"],
                    "rule": "one evaluation = one solver constructed on random data with row/column scales spanning up to 30 orders of "
                            "magnitude, zero rows/columns, empty P, zero q, all cone mixtures and an equilibrate_* settings lattice; "
                            "Equil.tla is evaluated by TLC on the scalings and data read from the public solver.data; non-trivial = "
                            "equilibration on and at least one non-scalar cone present (counted by the recorder)",
                    "samples": smp, "exhaustive": False,
                    "trusted_base": ["TLC", "FloatOrd limb comparisons", "observer products c*d_i*v*d_j in f64"]}
    res.assumptions = ["settings domain equilibrate_min_scaling <= equilibrate_max_scaling (windows that do not contain 1 included)"]
    return res


def c08(tier, seed):
    res = Result("C08", tier, seed, "model_checking")
    wd = workdir("C08")
    cfgs = ["MC_DataUpdate_a.cfg", "MC_DataUpdate_b.cfg", "MC_DataUpdate_c.cfg"]
    r = spec_to_impl(res, "C08", "MC_DataUpdate.tla", cfgs, "update-replay", wd, "update", workers=8,
                     timeout=4 * 3600, extra_args=["--seed", seed, "--every", 50 if tier == "quick" else 1])
    sr = session_replay(res, "C08", tier, seed, wd, "solve,panic")
    res.coverage = {"session": res.coverage.get("session"), "states": r["states"] + sr["states"], "transitions": max(1, r["transitions"]), "traces_validated_against_impl": r["behaviours"] + sr["behaviours"],
                    "evaluations": r["behaviours"], "distinct_nontrivial": r["distinct_nontrivial"],
                    "rule": "every history of length 2 over all argument forms of update_P/q/A/b (full vector, matching/mismatching CSC matrix, "
                            "wrong length, empty, in-range and out-of-range index-value pairs in tuple and zip form) and update_data, followed by "
                            "solve, plus histories on presolved and chordally decomposed solvers, is replayed on the real solver for four seed "
                            "problems (NN QP with bad scaling, equality+NN QP, SOCP, exp cone) x equilibration on/off: result kind, internal "
                            "data vs model after every call, KKT copy synchronised, and after solve a fresh solver on the model's data must "
                            "agree (bit for bit with equilibration off); non-trivial = history ends with a compared solve",
                    "per_cfg": r["per_cfg"], "samples": r["samples"], "exhaustive": True,
                    "trusted_base": ["TLC", "replayer comparison", "observer residuals"]}
    res.assumptions = ["after a rejected partial update of a target nothing is asserted about that target's dependent copies until it is fully rewritten (the property leaves it open)"]
    return res


def c14(tier, seed):
    res = Result("C14", tier, seed, "exploration")
    wd = workdir("C14")
    # design level: the one-sided Newton iteration returns the root from every start once the start is guarded; without the
    # guard it must not (F18 - if TLC stops finding it the model has gone vacuous)
    nw = run_mc("NewtonOneSided.tla", "MC_Newton.cfg", workers=4, timeout=600, coverage=False, name="MC_Newton")
    nn = run_mc("NewtonOneSided.tla", "MC_Newton_neg.cfg", workers=4, timeout=600, coverage=False, name="MC_Newton_neg", expect_ok=False)
    if nn["ok"] or "Exact" not in nn["violated"]:
        raise ToolError("vacuity guard: NewtonOneSided without the guard no longer violates Exact")
    tr = os.path.join(wd, "conebarrier.ndjson")
    cnt = 6000 if tier == "quick" else 400000
    p = run_vh(["conebarrier", "--seed", seed, "--count", cnt, "--out", tr], timeout=4 * 3600)
    meta = json.loads(p.stdout.strip().splitlines()[-1])
    v = validate_trace("ConeBarrier.tla", "ConeBarrier.cfg", tr, nshards=10, boundary=lambda e: True)
    if not v["ok"]:
        from vlib import fdec
        groups = {}
        for rj in v["rejects"]:
            e = rj["event"] or {}
            ev = e.get("ev")
            if ev == "NonsymCone":
                ids = e.get("ids", {})
                failing = sorted(k for k, (er, tl) in ids.items() if not fdec(er) <= fdec(tl))
                cls = f"{e.get('cone')}:{'+'.join(failing[:3]) or ('not_interior_or_unscaled' if not (e.get('interior_accepted') and e.get('scaled_ok')) else 'missing_identity_or_mode_' + str(e.get('pd_mode')))}"
            elif ev == "Membership":
                cls = f"{e.get('cone')}:membership"
            elif ev == "ExactBoundary":
                cls = f"{e.get('cone')}:exact_boundary_{e.get('side')}"
            elif ev == "Lattice":
                cls = f"{e.get('cone')}:lattice_membership"
            else:
                cls = "panic:" + str(e.get("cone"))
            groups.setdefault(cls, []).append(e)
        for cls, evs in list(groups.items())[:15]:
            e = evs[0]
            case = {k: e.get(k) for k in ("s", "z", "ds", "dz", "v", "vi", "p", "q", "family", "side") if e.get(k) is not None}
            case["cone"] = e.get("cone_spec")
            case["run"] = 0
            payload = {"kind": "conebarrier-replay", "prop": "C14", "event": {k: e[k] for k in e if k not in ("s", "z", "ds", "dz")}, "count": len(evs),
                       "spec": "ConeBarrier.tla", "cfg": "ConeBarrier.cfg", "case": case}
            res.violation("conebarrier-" + cls.replace(":", "_").replace("+", "_")[:70], payload, f"{len(evs)} cone evaluations violate {cls}", key=cls)
    # vacuity: both branches of the primal-dual scaling and all three kinds of event must have been seen
    # (only meaningful on an accepted trace: rejected events are reported as they are)
    fam = meta.get("by_family", {})
    if v["ok"] and not (meta.get("pd_secant", 0) > 0 and meta.get("pd_fallback", 0) > 0 and fam.get("lattice_membership", 0) > 0
            and all(fam.get(f"{c}:{k}", 0) > 0 for c in ("Exp", "Pow", "GenPow") for k in ("calculus", "membership", "central", "near_boundary", "near_boundary_dual", "exact_boundary"))
            and fam.get("Pow:zero_tail", 0) > 0 and fam.get("GenPow:zero_tail", 0) > 0):
        raise ToolError(f"C14 recorder did not exercise every family: {meta}")
    res.coverage = {"states": nw["states"], "transitions": nw["transitions"], "evaluations": v["events"], "distinct_nontrivial": v["events"],
                    "rule": "one evaluation = (a) one nonsymmetric cone (exponential; power with alpha in [0.08, 0.93]; generalised power with 2-3 exponents and 1-3 tail entries) at a generated "
                            "interior pair (s, z), magnitudes 1e-6..1e6 on either side (plus points of the central path and points within 1e-2..1e-7 of the boundary of K or of K*), with random directions: 13-14 identities (dual gradient / Hessian / third-order term as central "
                            "differences of the cone's own lower-order quantity, logarithmic homogeneity, primal gradient as derivative of barrier_primal and as conjugate map, primal-dual "
                            "scaling symmetric positive definite with secant equations or the mu*H fallback, central starting point with mu = 1), each an <<error, tolerance>> pair decided "
                            "by TLC; (b) one arbitrary real point against the observer's cone definitions; (c) one integer lattice point of a power / generalised power cone with rational "
                            "exponents, membership in K and K* decided by TLC in exact integer arithmetic; (d) one point that lies on the boundary of K or K* exactly in floating point: the interior test must reject it. "
                            "Every evaluation meets dirty work buffers (the hook evaluates the primal barrier elsewhere first); a zero_tail family sets the last block of s to exactly 0",
                    "by_family": fam, "pd_secant": meta.get("pd_secant"), "pd_fallback": meta.get("pd_fallback"),
                    "samples": [{k: e.get(k) for k in ("ev", "cone", "pd_mode", "interior_accepted", "p", "q", "vi")} for e in sample(read_ndjson(tr), 3)], "exhaustive": False,
                    "trusted_base": ["TLC", "FloatOrd", "observer central differences, Cholesky and cone margins", "hook nonsym_cone_battery"]}
    res.assumptions = ["numerical identities are accepted up to the stated tolerances (1e-5 relative for finite-difference references, 1e-6 for conjugacy, 1e-9 for algebraic laws); "
                       "generated interior points keep a relative distance of at least ~1e-3 from the boundary, except the near-boundary family (s down to 1e-7, primal finite-difference reference dropped there); exponents within [0.08, 0.93]"]
    return res


def c19(tier, seed):
    res = Result("C19", tier, seed, "fault_enumeration")
    wd = workdir("C19")
    tr, cs = [os.path.join(wd, "json" + x) for x in (".ndjson", ".cases.ndjson")]
    p = run_vh(["json", "--seed", seed, "--count", 300 if tier == "quick" else 5000, "--tier", tier, "--out", tr, "--cases", cs, "--dir", wd])
    meta = json.loads(p.stdout.strip().splitlines()[-1])
    v = validate_trace("JsonIO.tla", "JsonIO.cfg", tr, nshards=10, boundary=lambda e: True)
    lines = read_ndjson(tr)
    if not v["ok"]:
        cases = {c["run"]: c for c in read_ndjson(cs)}
        groups = {}
        for rj in v["rejects"]:
            e = rj["event"] or {}
            if e.get("ev") == "Fault":
                cls = f"fault:{e.get('kind')}:{e.get('site') if e.get('kind') == 'semantic' else ''}:{e.get('outcome')}"
            else:
                cls = ("settings:" + str(e.get("field")) + ":" if e.get("ev") == "SettingsTrip" else "roundtrip:") + ("panic" if "panic" in e else "mismatch")
            groups.setdefault(cls, []).append(e)
        for cls, evs in groups.items():
            e = evs[0]
            payload = {"kind": "json-replay" if e.get("ev") in ("RoundTrip", "SettingsTrip") else "events", "prop": "C19", "event": {k: e[k] for k in e if k != "pairs"}, "count": len(evs),
                       "spec": "JsonIO.tla", "cfg": "JsonIO.cfg", "case": cases.get(e.get("run")) if e.get("ev") == "RoundTrip" else ({"sweep": True} if e.get("ev") == "SettingsTrip" else None)}
            res.violation(("json-" + cls).replace(" ", "_").replace("/", "_")[:90], payload,
                          f"{len(evs)} events: {cls} {str(e.get('msg', e.get('panic', '')))[:160]}", key=cls.replace(" ", "_"))
    session_replay(res, "C19", tier, seed, wd, "load")
    sess = res.coverage.get("session")
    kinds = {}
    for e in lines:
        k = e.get("kind", "roundtrip") if e["ev"] == "Fault" else ("settings_sweep" if e["ev"] == "SettingsTrip" else "roundtrip")
        kinds[k] = kinds.get(k, 0) + 1
    nontriv = len({(e.get("base"), e.get("kind"), e.get("site")) for e in lines if e["ev"] == "Fault" and e.get("json_ok")}) + meta["roundtrips"]
    res.coverage = {"evaluations": len(lines), "distinct_nontrivial": nontriv,
                    "rule": "round trips: save/load of random problems (all cone types, empty P, extreme finite values, settings lattice incl. "
                            "finite/infinite time_limit, presolve reductions) compared field by field and by solving; faults on 5 base files: "
                            "truncation at byte offsets, deletion of single bytes, 23 semantic single-site corruptions; each faulty file is "
                            "classified by JsonIO.tla (Canonical/dimension predicates on independently parsed fields) and the load outcome "
                            "must be Err for not-JSON/schema/structure/dimension faults, Ok for still-valid files, never a panic; "
                            "non-trivial = faults that leave the file parseable as JSON + all round trips; quick samples byte offsets by seed, thorough takes all",
                    "samples": [{k: e[k] for k in e if k not in ("pairs", "text", "P", "A")} for e in sample(lines, 3)],
                    "by_kind": kinds, "trace_events": v["events"], "exhaustive": tier == "thorough", "session": sess}
    return res


def c17(tier, seed):
    res = Result("C17", tier, seed, "model_checking")
    wd = workdir("C17")
    # union-find: implementation-level model, behaviours replayed on the real struct (arrays compared after every operation)
    q = tier == "quick"
    cfgs = ["MC_DSU.cfg", ("MC_DSU_tall.cfg", (150 if q else 3000, 12)), ("MC_DSU_sim.cfg", (800 if q else 20000, 16))]
    r = spec_to_impl(res, "C17", "DSU.tla", cfgs, "dsu-replay", wd, "dsu", workers=8)
    # clique trees: impl -> spec
    tr, mt = os.path.join(wd, "chordal.ndjson"), os.path.join(wd, "chordal.meta.json")
    p = run_vh(["chordal", "--seed", seed, "--tier", tier, "--out", tr, "--meta", mt], check=False, timeout=6 * 3600)
    if p.returncode == 3:
        hang = json.load(open(tr + ".hang.json"))
        res.violation(f"hang-s{seed}", {"kind": "chordal-event", "prop": "C17", "event": hang}, "chordal analysis did not return within the watchdog limit: " + json.dumps(hang)[:300],
                      key="hang")
        res.coverage = {"states": r["states"], "transitions": max(1, r["transitions"]), "traces_validated_against_impl": r["behaviours"], "samples": r["samples"]}
        return res
    if p.returncode != 0:
        sys.stdout.write(p.stderr[-2000:])
        raise ToolError("chordal recorder failed")
    meta = json.load(open(mt))
    v = impl_to_spec(res, "C17", "Chordal.tla", "Chordal.cfg", tr, "chordal", nshards=12,
                     keyfn=lambda e: ("panic:" + str(e.get("msg", ""))[:40].replace(" ", "_")) if e.get("ev") == "Panic" else "invalid_tree:" + str(e.get("merge")))
    lines = read_ndjson(tr)
    res.coverage = {"states": r["states"] + v["states"], "transitions": max(1, r["transitions"] + v["transitions"]),
                    "traces_validated_against_impl": r["behaviours"] + v["events"],
                    "evaluations": r["behaviours"] + v["events"], "distinct_nontrivial": meta["multi_clique"] + r["distinct_nontrivial"],
                    "rule": "union-find: every behaviour of DSU.tla (all ordered union histories of length 4 on 5 elements; adversarial equal-rank schedules "
                            "and random operation sequences on 8 elements by TLC simulation) replayed on the real struct with parent/rank arrays compared "
                            "after every operation; clique trees: every graph on <= 5 vertices (6-7 sampled / thorough exhaustive to 6) x 3 merge strategies "
                            "plus random banded/arrow/block/sparse/chordal graphs up to 60 (300 thorough) vertices analysed by the real code under a watchdog, "
                            "each returned tree checked by TLC against Chordal.tla; non-trivial = analysis yields more than one clique / history with >= 2 real unions",
                    "per_cfg": r["per_cfg"], "chordal_meta": meta, "samples": r["samples"][:1] + [lines[len(lines) // 2]], "exhaustive": False,
                    "trusted_base": ["TLC", "replayer array comparison"]}
    return res


def c05(tier, seed):
    res = Result("C05", tier, seed, "model_checking")
    wd = workdir("C05")
    mc = run_mc("Lifecycle.tla", "MC_Lifecycle.cfg", workers=4, timeout=600, coverage=False, name="MC_Lifecycle")
    tr, cs, mt = [os.path.join(wd, "consist" + x) for x in (".ndjson", ".cases.ndjson", ".meta.json")]
    run_vh(["consist", "--seed", seed, "--count", 150 if tier == "quick" else 4000, "--out", tr, "--cases", cs, "--meta", mt])
    meta = json.load(open(mt))
    v = events_with_cases(res, "C05", "Consistency.tla", "Consistency.cfg", tr, cs, "consist", "consist-replay", nshards=10)
    lines = read_ndjson(tr)
    kinds = {}
    for e in lines:
        kinds[e.get("kind")] = kinds.get(e.get("kind"), 0) + 1
    if meta["compared"] < 0.8 * max(1, meta["pairs"]):
        if not res.violations: raise ToolError("vacuity guard: too many pairs without a verdict on both sides")   # (a violation already found is reported as such)
    res.coverage = {"states": mc["states"] + v["states"], "transitions": mc["transitions"] + v["transitions"],
                    "traces_validated_against_impl": v["events"], "evaluations": v["events"], "distinct_nontrivial": meta["compared"],
                    "rule": "one evaluation = one pair (base run, equivalent run) of the real solver: identical call, rows permuted inside cones, cones "
                            "reordered, variables permuted, NN cones split / spelled as SOC(1)/PSD(1), P full vs triu, objective x 2^k, presolve / "
                            "equilibration / refinement toggled, qdldl vs auto backend, max_threads, same object solved twice, the same data reached through the update API (owned index/value form), a setup-time switch flipped on the live object (bit for bit), instances on 4 "
                            "concurrent threads; both runs mapped to the base formulation by the observer; TLC checks verdict class, weak duality "
                            "across runs in both directions and bit equality where reproducibility is demanded; non-trivial = both runs ended with a verdict",
                    "by_kind": kinds, "meta": meta, "samples": sample(lines, 3), "mc_lifecycle_states": mc["states"],
                    "trusted_base": ["TLC", "observer (mapping back, residual slack)"]}
    res.assumptions = ["the faer backend is not built in this sandbox configuration of the harness (qdldl/auto only)",
                       "pairs in which one run ends without a verdict (error / limit status) are not compared"]
    return res


def c11(tier, seed):
    res = Result("C11", tier, seed, "model_checking")
    wd = workdir("C11")
    tr, cs = os.path.join(wd, "kkt.ndjson"), os.path.join(wd, "kkt.cases.ndjson")
    p = run_vh(["kkt", "--seed", seed, "--tier", tier, "--count", 400 if tier == "quick" else 8000, "--out", tr, "--cases", cs], timeout=4 * 3600)
    meta = json.loads(p.stdout.strip().splitlines()[-1])
    v = validate_trace("KKT.tla", "KKT.cfg", tr, nshards=12, boundary=lambda e: True)
    lines = read_ndjson(tr)
    if not v["ok"]:
        cases = {c["run"]: c for c in read_ndjson(cs)}
        groups = {}
        for rj in v["rejects"]:
            e = rj["event"] or {}
            if e.get("ev") == "Panic":
                cls = "panic:" + str(e.get("msg", ""))[:50].replace(" ", "_")
            elif e.get("ev") == "Assembled":
                cls = "layout:" + ("triu" if e.get("triu") else "tril") + ":" + "+".join(c["kind"] for c in e.get("cones", []))
            else:
                cls = "state"
            groups.setdefault(cls, []).append(e)
        for cls, evs in list(groups.items())[:12]:
            e = evs[0]
            payload = {"kind": "kkt-replay" if e.get("ev") == "KKTState" else "events", "prop": "C11", "event": e, "count": len(evs),
                       "spec": "KKT.tla", "cfg": "KKT.cfg", "case": cases.get(e.get("id")) if e.get("ev") == "KKTState" else None}
            res.violation(("kkt-" + cls)[:80].replace("/", "_"), payload, f"{len(evs)} events of class {cls}", key=cls)
    # KKT solves with iterative refinement: Refine.tla (design) + Trace_Refine.tla (every real solve's steps)
    mcs = [run_mc("Refine.tla", c, workers=2, timeout=600, coverage=False, name=c[:-4]) for c in (["MC_Refine.cfg", "MC_Refine_r1.cfg"] if tier == "quick" else ["MC_Refine.cfg", "MC_Refine_r1.cfg", "MC_Refine_big.cfg"])]
    tr2, cs2 = os.path.join(wd, "kktsolve.ndjson"), os.path.join(wd, "kktsolve.cases.ndjson")
    p2 = run_vh(["kktsolve", "--seed", seed, "--count", 300 if tier == "quick" else 6000, "--out", tr2, "--cases", cs2], timeout=4 * 3600)
    meta2 = json.loads(p2.stdout.strip().splitlines()[-1])
    v2 = validate_trace("Trace_Refine.tla", "Trace_Refine.cfg", tr2, nshards=8, boundary=lambda e: True)
    if not v2["ok"]:
        cases2 = {c["run"]: c for c in read_ndjson(cs2)}
        groups = {}
        for rj in v2["rejects"]:
            e = rj["event"] or {}
            cls = "solve-panic" if e.get("ev") == "Panic" else "regularised-factors" if e.get("ev") == "KKTReg" else "solve:" + ("refined" if e.get("ir_enabled") else "plain") + (":failed" if not e.get("ok") else "")
            groups.setdefault(cls, []).append(e)
        for cls, evs in groups.items():
            e = evs[0]
            payload = {"kind": "kkt-replay", "prop": "C11", "event": e, "count": len(evs), "spec": "Trace_Refine.tla", "cfg": "Trace_Refine.cfg", "case": cases2.get(e.get("id"))}
            res.violation(("kkt-" + cls).replace(":", "_"), payload, f"{len(evs)} KKT solves rejected ({cls}): {json.dumps({k: e.get(k) for k in ('ok', 'end_ok', 'converged', 'maxiter', 'thr_ok')})}", key=cls)
    if not res.violations and (meta2["refinement_steps"] < 100 or meta2["converged"] == 0 or meta2["stalled"] == 0 or meta2["failed"] == 0 or meta2["with_aux"] == 0):
        if not res.violations: raise ToolError(f"vacuity guard: the KKT-solve corpus does not exercise every exit of the refinement loop: {meta2}")   # (a violation already found is reported as such)
    nstate = [e for e in lines if e.get("ev") == "KKTState"]
    res.coverage = {"refine": {"mc_states": sum(m["states"] for m in mcs), "solves": v2["events"], **meta2}, "states": max(1, v["states"]), "transitions": max(1, v["transitions"]), "traces_validated_against_impl": v["events"],
                    "evaluations": v["events"], "distinct_nontrivial": len({json.dumps([e.get("colptr"), e.get("rowval"), e.get("triu")]) for e in lines if "colptr" in e}),
                    "rule": "layouts: 14 cone lists (zero, NN, SOC below/above the sparse-expansion threshold, several expanded SOCs, exp, power, generalised power, "
                            "PSD, mixtures, empty) x all upper-triangular patterns of P for n<=3 (with/without diagonal entries) x patterns of A (exhaustive up to 6 cells "
                            "in thorough, sampled otherwise) x both triangles, assembled by the real code through a wrapper and checked by TLC against KKT.tla "
                            "(coordinates of every map entry, injectivity, disjointness, cover, complete diagonal, triangle); states: real solvers after k = 0..200 "
                            "iterations (value layer: copies bit-equal, no regularisation left, sign pattern, regulariser value, H_K z = s by Schur elimination); "
                            "solves: 4 direct solves per solver state (right-hand sides of magnitude 1, 1e10, 1e-10, 1e300, 0) over a refinement settings lattice "
                            "(max_iter 0..10, tolerances 1e-10..1e-30, stop ratio 1..5, static regulariser 1e-8..1e-2 or off), each loop decision re-derived by "
                            "Trace_Refine.tla and the final residual recomputed from the unregularised KKT view; "
                            "distinct = distinct (structure, triangle) pairs",
                    "meta": meta, "kkt_states": len(nstate), "samples": [{k: e.get(k) for k in ("ev", "triu", "n", "m", "p", "cones")} for e in sample(lines, 3) if "cones" in e],
                    "trusted_base": ["TLC", "Csc.tla Canonical", "observer Schur complement"]}
    return res


def c15(tier, seed):
    res = Result("C15", tier, seed, "model_checking")
    wd = workdir("C15")
    mc = run_mc("MC_ConeStep.tla", "MC_ConeStep.cfg", workers=8, timeout=900, coverage=False, name="MC_ConeStep")
    # the initial shift into the cones under a rounding adversary: the repaired algorithm ends strictly inside; the algorithm
    # without the re-read of the margins must NOT (F20 at design level - if TLC stops finding it the model has gone vacuous)
    si = run_mc("MC_ShiftInterior.tla", "MC_ShiftInterior_q.cfg" if tier == "quick" else "MC_ShiftInterior.cfg", workers=4, timeout=900, coverage=False, name="MC_ShiftInterior")
    sn = run_mc("MC_ShiftInterior.tla", "MC_ShiftInterior_q_neg.cfg" if tier == "quick" else "MC_ShiftInterior_neg.cfg", workers=4, timeout=900, coverage=False, name="MC_ShiftInterior_neg", expect_ok=False)
    if sn["ok"] or "Interior" not in sn["violated"]:
        raise ToolError("vacuity guard: ShiftInterior without the re-read no longer violates Interior")
    mc["states"] += si["states"]; mc["transitions"] += si["transitions"]
    tr, mt = os.path.join(wd, "conestep.ndjson"), os.path.join(wd, "conestep.meta.json")
    run_vh(["conestep", "--seed", seed, "--tier", tier, "--out", tr, "--meta", mt], timeout=4 * 3600)
    meta = json.load(open(mt))
    v = impl_to_spec(res, "C15", "ConeStep.tla", "ConeStep.cfg", tr, "conestep", nshards=12,
                     keyfn=lambda e: str(e.get("ev")) + ":" + str(e.get("kind", "")) + (":panic" if e.get("ev") == "Panic" else ""))
    lines = read_ndjson(tr)
    # branch coverage of the second-order cone case analysis over the exact events (vacuity guard)
    def branch(x, y):
        a = y[0] ** 2 - sum(t * t for t in y[1:])
        b = 2 * (x[0] * y[0] - sum(p * q for p, q in zip(x[1:], y[1:])))
        c = x[0] ** 2 - sum(t * t for t in x[1:])
        d = b * b - 4 * a * c
        if (a > 0 and b > 0) or d < 0:
            return "no_limit"
        if a == 0:
            return "single_root_b_neg" if b < 0 else "single_root_b_nonneg"
        return "on_boundary" if c == 0 else "two_roots"
    br = {}
    for e in lines:
        if e.get("ev") == "Step" and e.get("kind") == "Soc":
            for k in (branch(e["s"], e["ds"]), branch(e["z"], e["dz"])):
                br[k] = br.get(k, 0) + 1
    for need in ("no_limit", "single_root_b_neg", "single_root_b_nonneg", "two_roots"):
        if br.get(need, 0) == 0:
            if not res.violations: raise ToolError(f"vacuity guard: SOC branch {need} never exercised")   # (a violation already found is reported as such)
    res.coverage = {"states": mc["states"] + v["states"], "transitions": mc["transitions"] + v["transitions"],
                    "traces_validated_against_impl": v["events"], "evaluations": v["events"],
                    "distinct_nontrivial": len({json.dumps([e.get("s"), e.get("ds"), e.get("z"), e.get("dz"), e.get("amax")]) for e in lines if e.get("ev") == "Step"}) + meta["backtrack"] + meta["composite"],
                    "rule": "exact: every interior integer point and integer direction (entries -4..4) of NN(1..2), Zero(2), SOC(2..3) with alpha_max in {1,0.5,0.99} "
                            "(quick: 15% sample) -- safe/bounded/tight decided by TLC in integer arithmetic; protocol: random exp/power/genpower line searches with the "
                            "probe log checked against the backtracking protocol and observer membership; composite: random mixed cone lists incl. PSD; shift: symmetric "
                            "initialisation of random vectors up to 1e21 in magnitude; distinct = distinct exact (point, direction, alpha_max) tuples + protocol/composite events",
                    "soc_branch_coverage": br, "meta": meta, "samples": sample([e for e in lines if e.get("ev") == "Step"], 2) + [{k: e.get(k) for k in ("ev", "kind", "alpha_z", "alpha_s")} for e in lines if e.get("ev") == "Backtrack"][:1],
                    "mc_conestep_states": mc["states"], "exhaustive": bool(meta.get("exhaustive_exact")),
                    "trusted_base": ["TLC", "observer membership margins (nonsymmetric, PSD)"]}
    res.assumptions = ["PSD cones of dimension > 2 and tightness for exp/power cones beyond one backtracking factor are covered only through the composite-step events"]
    return res


def c18(tier, seed):
    res = Result("C18", tier, seed, "model_checking")
    wd = workdir("C18")
    tr, cs, mt = [os.path.join(wd, "decomp" + x) for x in (".ndjson", ".cases.ndjson", ".meta.json")]
    run_vh(["decomp", "--seed", seed, "--count", 400 if tier == "quick" else 12000, "--out", tr, "--cases", cs, "--meta", mt], timeout=4 * 3600)
    meta = json.load(open(mt))
    v = events_with_cases(res, "C18", "Decomp.tla", "Decomp.cfg", tr, cs, "decomp", "decomp-replay", nshards=12)
    lines = read_ndjson(tr)
    kinds = {}
    for e in lines:
        k = e["ev"] + (":compact" if e.get("compact") else ":standard" if "compact" in e else "")
        kinds[k] = kinds.get(k, 0) + 1
    if meta["decomposed_events"] < 50:
        if not res.violations: raise ToolError("vacuity guard: too few decomposed problems in the corpus")   # (a violation already found is reported as such)
    res.coverage = {"states": max(1, v["states"]), "transitions": max(1, v["transitions"]), "traces_validated_against_impl": v["events"],
                    "evaluations": v["events"], "distinct_nontrivial": meta["decomposed_events"],
                    "rule": "sparse SDPs (1-2 PSD cones of dimension 4..7 with banded/arrow/block/random/chordal aggregate patterns, entries present only through b, "
                            "NN cones before / after incl. infinite bounds dropped by presolve, SOC after) x compact/standard x 3 merge strategies x complete_dual: "
                            "Augmented events (integer data) are checked by TLC against the declarative layout of Decomp.tla; Reversed and DecompPair events come from "
                            "real solves of planted strictly feasible SDPs (row map, slack sums, dual block agreement / average, PSD completion, decomposition on vs off); "
                            "non-trivial = the problem was actually decomposed",
                    "by_event": kinds, "meta": meta, "samples": [{k: e[k] for k in e if k not in ("A2", "Aorig", "rowmap", "s_pairs", "z_pairs")} for e in sample(lines, 2)],
                    "trusted_base": ["TLC", "observer reading of the clique trees (sorted clique vertices, separators)", "observer eigenvalues"]}
    return res


# ---------------------------------------------------------------------------------------------------------------
# beyond the listed properties: parts of the system that the specification covers for their own sake (./check X01 ...)
def x01(tier, seed):
    """VecMath.tla: the dense vector kernels"""
    res = Result("X01", tier, seed, "model_checking")
    wd = workdir("X01")
    tr = os.path.join(wd, "vec.ndjson")
    p = run_vh(["vecmath", "--seed", seed, "--tier", tier, "--out", tr])
    v = validate_trace("VecMath.tla", "VecMath.cfg", tr, nshards=8, boundary=lambda e: True)
    if not v["ok"]:
        groups = {}
        for rj in v["rejects"]:
            e = rj["event"] or {}
            groups.setdefault(str(e.get("op")), []).append(e)
        for op, evs in groups.items():
            res.violation("vec-" + op, {"kind": "events", "prop": "X01", "event": evs[0], "count": len(evs), "spec": "VecMath.tla", "cfg": "VecMath.cfg"},
                          f"{len(evs)} calls of {op} rejected: {json.dumps(evs[0])[:300]}", key=op)
    res.coverage = {"states": max(1, v["states"]), "transitions": max(1, v["transitions"]), "traces_validated_against_impl": v["events"],
                    "rule": "every VectorMath kernel on all integer vectors of length <= 3 over {-2..2} (pairs over {-2,0,1}), restricted domains for recip/sqrt/rsqrt/norm/dist, "
                            "sampled 3- and 4-vector kernels, non-finite inputs; results logged in quarter units and compared exactly"}
    return res


def session_replay(res, prop, tier, seed, wd, kinds):
    """Session.tla (API interleavings on one solver object): every behaviour of 5 (quick) / 6 (thorough) steps is replayed;
    each listed property reports the mismatch kinds that are its own (solve -> C08, load -> C19, buffer -> C20, limit -> C04)"""
    cfg = "MC_Session5.cfg" if tier == "quick" else "MC_Session6.cfg"
    r = spec_to_impl(res, prop, "Session.tla", [cfg], "session-replay", wd, "session", workers=8,
                     extra_args=["--dir", wd, "--seed", seed, "--only", kinds])
    res.coverage["session"] = {"states": r["states"], "behaviours_replayed": r["behaviours"], "kinds_reported": kinds}
    return r


def c13(tier, seed):
    res = Result("C13", tier, seed, "exploration")
    wd = workdir("C13")
    tr = os.path.join(wd, "conealg.ndjson")
    cnt = 3000 if tier == "quick" else 100000
    p = run_vh(["conealg", "--seed", seed, "--count", cnt, "--out", tr], timeout=4 * 3600)
    meta = json.loads(p.stdout.strip().splitlines()[-1])
    v = validate_trace("ConeAlgebra.tla", "ConeAlgebra.cfg", tr, nshards=10, boundary=lambda e: True)
    if not v["ok"]:
        groups = {}
        for rj in v["rejects"]:
            e = rj["event"] or {}
            if e.get("ev") != "SymCone":
                cls = "panic:" + str(e.get("cone"))
            else:
                ids = e.get("ids", {})
                from vlib import fdec
                failing = sorted(k for k, (er, tl) in ids.items() if not fdec(er) <= fdec(tl))
                cls = f"{e.get('cone')}:{'+'.join(failing[:3]) or ('scaling_failed' if not e.get('scaled_ok') else 'missing_identity')}"
            groups.setdefault(cls, []).append(e)
        for cls, evs in list(groups.items())[:15]:
            e = evs[0]
            case = {k: e.get(k) for k in ("s", "z", "x", "y", "sigma_mu", "y_interior")}
            case["cone"] = e.get("cone_spec")
            case["run"] = 0
            payload = {"kind": "conealg-replay", "prop": "C13", "event": {k: e[k] for k in e if k not in ("s", "z", "x", "y")}, "count": len(evs),
                       "spec": "ConeAlgebra.tla", "cfg": "ConeAlgebra.cfg", "case": case}
            res.violation("conealg-" + cls.replace(":", "_").replace("+", "_")[:70], payload, f"{len(evs)} scaled cones violate {cls}", key=cls)
    res.coverage = {"evaluations": v["events"], "distinct_nontrivial": v["events"],
                    "rule": "one evaluation = one symmetric cone (nonnegative dim 1-6, second-order dim 2-9 on both sides of the sparse-expansion threshold, PSD n = 1-4) "
                            "scaled at a generated interior pair (s, z) - centred, magnitudes 1e-4..1e4 on either side, or within 1e-6..1e-2 relative distance of the "
                            "boundary - with random vectors x, y; 16 identities per evaluation (Nesterov-Todd point, W / W^-1 inverse and transpose consistency, KKT block = "
                            "mul_Hs = W'W, Jordan product by definition / commutative / division, affine and corrector terms, slack-recovery offset), each an "
                            "<<error, tolerance>> pair formed by the observer and decided by TLC; tolerance 1e-11 * kappa^2 / (relative boundary distance) * size of terms",
                    "by_family": meta.get("by_family"),
                    "samples": [{k: e.get(k) for k in ("cone", "dim", "family", "y_interior", "scaled_ok")} for e in sample(read_ndjson(tr), 3)], "exhaustive": False,
                    "trusted_base": ["TLC", "FloatOrd", "observer Jordan products and inner products", "hook sym_cone_battery"]}
    res.assumptions = ["numerical identities are accepted up to the stated conditioning-dependent tolerance; points closer than 1e-6 (relative) to the boundary are not generated"]
    return res
