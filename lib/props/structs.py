"""C12 (Qdldl), C16 (Csc), C17 (Chordal/DSU), ...: data-structure properties, spec -> impl and impl -> spec."""
import json, os, re, subprocess, shutil, sys, time
from vlib import *


def extract_replay(out, path, mode="w"):
    n = 0
    with open(path, mode) as f:
        for m in re.finditer(r'^<<"REPLAY", "(.*)">>$', out, re.M):
            f.write(m.group(1).replace('\\"', '"').replace('\\\\', '\\') + "\n")
            n += 1
    return n


def spec_to_impl(res, prop, module, cfgs, replay_cmd, wd, label, workers=8, timeout=3000, simulate=None):
    """run bounded TLC instances that export behaviours, replay them into the real code"""
    beh = os.path.join(wd, f"{label}.behaviours.ndjson")
    open(beh, "w").close()
    states = trans = 0
    per_cfg = {}
    for cfg in cfgs:
        r = run_mc(module, cfg, workers=workers, timeout=timeout, coverage=False, name=f"{prop}_{cfg}")
        n = extract_replay(r["out"], beh, "a")
        states += r.get("states", 0)
        trans += r.get("transitions", 0)
        per_cfg[cfg] = {"states": r.get("states", 0), "behaviours": n, "wall_s": round(r["wall_s"], 1)}
        if n == 0:
            raise ToolError(f"vacuity guard: {cfg} exported no behaviour")
    mis = os.path.join(wd, f"{label}.mismatch.ndjson")
    p = run_vh([replay_cmd, "--in", beh, "--out", mis], timeout=timeout)
    summary = json.loads(p.stdout.strip().splitlines()[-1])
    bad = read_ndjson(mis)
    seen = {}
    for b in bad:
        cls = b.get("class", "mismatch")
        seen.setdefault(cls, []).append(b)
    for cls, items in seen.items():
        b = items[0]
        res.violation(f"{label}-{abs(hash(cls)) % 10**8}", {"kind": replay_cmd, "prop": prop, "behaviour": b["behaviour"],
                                                           "mismatch": b["mismatch"], "count": len(items)},
                      f"{len(items)} behaviours: {b['mismatch'][:200]}", key=cls)
    with open(beh) as f:
        first = [json.loads(next(f)) for _ in range(2)]
    return {"states": states, "transitions": trans, "behaviours": summary["behaviours"],
            "distinct_nontrivial": summary.get("distinct_nontrivial", 0), "per_cfg": per_cfg, "samples": first}


def replay_behaviour(prop, payload):
    res = Result(prop, "quick", 0, "model_checking")
    wd = workdir(prop + "_replay")
    beh = os.path.join(wd, "b.ndjson")
    with open(beh, "w") as f:
        f.write(json.dumps(payload["behaviour"]) + "\n")
    mis = os.path.join(wd, "m.ndjson")
    run_vh([payload["kind"], "--in", beh, "--out", mis])
    for b in read_ndjson(mis):
        res.violation("replay", payload, b["mismatch"], key=b.get("class"))
    res.coverage = {"states": 1, "transitions": 1, "traces_validated_against_impl": 1, "samples": [payload["behaviour"]]}
    return res


def c12(tier, seed):
    res = Result("C12", tier, seed, "model_checking")
    wd = workdir("C12")
    cfgs = ["MC_Qdldl_new2.cfg", "MC_Qdldl_perm3.cfg", "MC_Qdldl_new3q.cfg", "MC_Qdldl_hist3.cfg", "MC_Qdldl_hist3x.cfg"]
    if tier == "thorough":
        cfgs = ["MC_Qdldl_new2.cfg", "MC_Qdldl_perm3.cfg", "MC_Qdldl_new3.cfg", "MC_Qdldl_hist3.cfg", "MC_Qdldl_hist3x.cfg", "MC_Qdldl_new4.cfg"]
    r = spec_to_impl(res, "C12", "MC_Qdldl.tla", cfgs, "qdldl-replay", wd, "qdldl", workers=8 if tier == "quick" else 12)
    res.coverage = {"states": r["states"], "transitions": max(1, r["transitions"]),
                    "traces_validated_against_impl": r["behaviours"],
                    "evaluations": r["behaviours"], "distinct_nontrivial": r["distinct_nontrivial"],
                    "rule": "every behaviour of the bounded Qdldl instances (all matrices over the value sets incl. structurally missing "
                            "entries, all permutation vectors valid or not, D-sign vectors, regularisation on/off; histories of "
                            "update/scale/offset/refactor) is executed on the real engine; non-trivial = model outcome Ok (a numeric "
                            "factorisation is compared entry by entry with exact rationals) or a history",
                    "per_cfg": r["per_cfg"], "samples": r["samples"], "exhaustive": True,
                    "checker_cmd": "tlc MC_Qdldl.tla (configs above) ; vh qdldl-replay",
                    "trusted_base": ["TLC", "Rational.tla", "harness replayer comparison (1e-11 relative float vs rational)"]}
    res.assumptions = ["float results are compared with exact rationals to 1e-11 relative; threshold ties are don't-care"]
    return res
