#!/bin/bash
# usage: lib/confirm_seed.sh <agent out dir> <k> <seed name> <property> [features]
# Confirms a sub-agent's seeded change in a scratch worktree: compiles + suite green with patch,
# demo fails with patch, demo passes without.  Stores it under /verif/seeded/<name>/.
set -u
out=$1; k=$2; name=$3; prop=$4; feats=${5:-}
WT=/tmp/confirm_wt
if [ ! -d $WT ]; then git -C /repo worktree add -q --detach $WT HEAD; fi
cd $WT && git checkout -q --detach $(git -C /repo rev-parse HEAD) && git checkout -q -- . && git clean -fdq -- tests src
export CARGO_TARGET_DIR=$WT/target
dest=/verif/seeded/$name; mkdir -p $dest
cp $out/patch$k.diff $dest/patch.diff; cp $out/demo$k.rs $dest/demo.rs; cp $out/notes$k.md $dest/notes.md 2>/dev/null
applies=yes
git apply --check $dest/patch.diff 2>/dev/null || { git apply --3way $dest/patch.diff 2>/dev/null && git reset -q && git diff > $dest/patch.diff || applies=no; }
if [ $applies = yes ]; then git checkout -q -- .; git apply $dest/patch.diff; fi
suite="n/a"; demo_with="n/a"; demo_without="n/a"
if [ $applies = yes ]; then
  if cargo test --offline $feats >/tmp/confirm_suite.log 2>&1; then suite=pass; else suite=fail; fi
  appendto=$(head -1 $dest/demo.rs | sed -n 's#^// APPEND-TO: *##p')
  if [ -n "$appendto" ]; then
    cat $dest/demo.rs >> $appendto
    if cargo test --offline $feats --lib seeded_demo >/tmp/confirm_demo1.log 2>&1; then demo_with=pass; else demo_with=fail; fi
    git checkout -q -- .
    cat $dest/demo.rs >> $appendto
    if cargo test --offline $feats --lib seeded_demo >/tmp/confirm_demo2.log 2>&1; then demo_without=pass; else demo_without=fail; fi
    git checkout -q -- .
  else
  cp $dest/demo.rs tests/zz_seed_demo.rs
  if cargo test --offline $feats --test zz_seed_demo >/tmp/confirm_demo1.log 2>&1; then demo_with=pass; else demo_with=fail; fi
  git checkout -q -- . 
  if cargo test --offline $feats --test zz_seed_demo >/tmp/confirm_demo2.log 2>&1; then demo_without=pass; else demo_without=fail; fi
  rm -f tests/zz_seed_demo.rs
  fi
fi
python3 - "$dest" "$prop" "$applies" "$suite" "$demo_with" "$demo_without" <<'PY'
import json,sys,os
dest,prop,applies,suite,dw,dwo=sys.argv[1:]
notes=open(os.path.join(dest,'notes.md')).read() if os.path.exists(os.path.join(dest,'notes.md')) else ''
meta={"property":prop,"patch_applies_to_repo_head":applies=="yes","suite_with_patch":suite,"demo_with_patch":dw,"demo_without_patch":dwo,
      "confirmed": applies=="yes" and suite=="pass" and dw=="fail" and dwo=="pass",
      "ran":["git apply patch.diff (scratch worktree of /repo HEAD)","cargo test --offline (whole suite)","cargo test --offline --test zz_seed_demo (with patch, then without)"],
      "needs": notes[:1500], "detected_by": []}
json.dump(meta,open(os.path.join(dest,'meta.json'),'w'),indent=1)
print(dest, meta["confirmed"], suite, dw, dwo)
PY
