fn main() {
    // BLAS/LAPACK for the sdp feature come from the scipy-openblas shared object that ships
    // in the tooling venv (LP64, symbols prefixed scipy_); src/blas_shim.rs forwards to it.
    let dir = "/opt/veriftools/pyvenv/lib/python3.11/site-packages/scipy.libs";
    println!("cargo:rustc-link-search=native={}", dir);
    println!("cargo:rustc-link-arg=-Wl,-rpath,{}", dir);
    println!("cargo:rustc-link-lib=dylib:+verbatim=libscipy_openblas-6cdc3b4a.so");
    println!("cargo:rerun-if-changed=build.rs");
}
