// Skeleton demo: exit code 0 = property holds, panic / non-zero = violated.
use clarabel::algebra::*;
use clarabel::solver::*;

fn main() {
    sdpdemo::ensure_linked();
    // a 3x3 PSD cone: minimise trace-like objective subject to X - I >= 0 in svec coordinates
    let n = 6;
    let P = CscMatrix::<f64>::zeros((n, n));
    let q = vec![1.0, 0.0, 1.0, 0.0, 0.0, 1.0];
    let mut A = CscMatrix::<f64>::identity(n);
    A.negate();
    let b = vec![-1.0, 0.0, -1.0, 0.0, 0.0, -1.0];
    let cones = [PSDTriangleConeT(3)];
    let settings = DefaultSettingsBuilder::default().verbose(false).build().unwrap();
    let mut solver = DefaultSolver::new(&P, &q, &A, &b, &cones, settings);
    solver.solve();
    assert_eq!(solver.solution.status, SolverStatus::Solved);
    assert!((solver.solution.obj_val - 3.0).abs() < 1e-6);
    println!("ok");
}
