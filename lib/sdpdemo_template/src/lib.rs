//! Scratch project for demonstrations that need clarabel's `sdp` feature: BLAS/LAPACK symbols are forwarded to the
//! scipy-openblas shared object of the tooling venv.
use std::arch::global_asm;
macro_rules! tramp {
    ($($n:literal),*) => { $( global_asm!(
        concat!(".globl ", $n, "_"), concat!(".type ", $n, "_,@function"),
        concat!($n, "_:"), concat!("jmp scipy_", $n, "_@PLT")); )* };
}
tramp!("dsyevr","ssyevr","dpotrf","spotrf","dpotrs","spotrs","dgesdd","sgesdd","dgesvd","sgesvd",
       "dgemm","sgemm","dgemv","sgemv","dsymv","ssymv","dsyrk","ssyrk","dsyr2k","ssyr2k","dgesv","sgesv");

/// call first in every demo so that this crate (and with it the trampolines) is linked in
pub fn ensure_linked() {}
