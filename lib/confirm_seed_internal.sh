#!/bin/bash
# usage: lib/confirm_seed_internal.sh <prop> <worktree> <outdir> <first index> <round>
# Confirms the three seeded changes of one agent in the agent's (finished) worktree; a demo that mentions src/demo_test.rs is a
# crate-internal unit test (copied there, enabled by '#[cfg(test)] mod demo_test;' in lib.rs), any other demo an integration test.
prop=$1; WT=$2; OUT=$3; first=$4; round=$5
export CARGO_TARGET_DIR=$WT/target
cd $WT && git checkout -q --detach $(git -C /repo rev-parse HEAD) && git checkout -q -- . && git clean -fdq -- tests src
for k in 1 2 3; do
  dest=/verif/seeded/$prop-$((first+k-1)); mkdir -p $dest
  cp $OUT/patch$k.diff $dest/patch.diff; cp $OUT/demo$k.rs $dest/demo.rs; cp $OUT/notes$k.md $dest/notes.md
  git checkout -q -- .; git clean -fdq -- tests src
  applies=yes; git apply --check $dest/patch.diff 2>/dev/null || applies=no
  suite=n/a; dw=n/a; dwo=n/a
  if [ $applies = yes ]; then
    git apply $dest/patch.diff
    if cargo test --offline >/tmp/confirm_int_suite.log 2>&1; then suite=pass; else suite=fail; fi
    install() { if grep -q "src/demo_test.rs" $dest/demo.rs; then cp $dest/demo.rs src/demo_test.rs; echo '#[cfg(test)] mod demo_test;' >> src/lib.rs; sel="--lib demo_test"; else cp $dest/demo.rs tests/zz_seed_demo.rs; sel="--test zz_seed_demo"; fi; }
    install
    if cargo test --offline $sel >/tmp/confirm_int_with.log 2>&1; then dw=pass; else dw=fail; fi
    git checkout -q -- .; git clean -fdq -- tests src
    install
    if cargo test --offline $sel >/tmp/confirm_int_without.log 2>&1; then dwo=pass; else dwo=fail; fi
    git checkout -q -- .; git clean -fdq -- tests src
  fi
  python3 - "$dest" "$prop" "$applies" "$suite" "$dw" "$dwo" "$round" <<'PY'
import json,sys,os
dest,prop,applies,suite,dw,dwo,rnd=sys.argv[1:]
notes=open(os.path.join(dest,'notes.md')).read()
meta={"property":prop,"patch_applies_to_repo_head":applies=="yes","suite_with_patch":suite,"demo_with_patch":dw,"demo_without_patch":dwo,
      "confirmed": applies=="yes" and suite=="pass" and dw=="fail" and dwo=="pass",
      "ran":["git apply patch.diff (scratch worktree of /repo HEAD)","cargo test --offline (whole suite)","demo installed as tests/zz_seed_demo.rs or as src/demo_test.rs + '#[cfg(test)] mod demo_test;' in lib.rs (crate-internal), with patch then without"],
      "needs": notes[:1500], "detected_by": [], "round": int(rnd)}
json.dump(meta,open(os.path.join(dest,'meta.json'),'w'),indent=1)
print(dest, meta["confirmed"], suite, dw, dwo)
PY
done
