#!/usr/bin/env python3
"""Writes MANIFEST.json from the table below (single source of truth for the registered checks)."""
import json, os
ROOT = os.path.dirname(os.path.dirname(os.path.abspath(__file__)))
MC = "model_checking"
IPM_NOTE = ("Trusted base: TLC; the harness observer (own dense arithmetic) and ordered-float encoder; hook events emitted "
            "from src/verif.rs call sites. Bounded model MC_IPM explores max_iter<=3 exhaustively; conformance is per recorded solve.")
CHECKS = {
 "C01": (MC, "IPM.tla control skeleton model-checked exhaustively (MaxK=3, all cone classes); every recorded real solve is validated by TLC "
             "against Trace_IPM: the termination decision table is re-derived from logged scalars on ordered-float limbs, and for every Solved "
             "verdict the observer's re-evaluation on the user's original data must meet the documented test (CertSolved).",
         "5/C01", IPM_NOTE, "TLA+ model checking (TLC) + trace validation of hooked solves against Trace_IPM"),
 "C02": (MC, "As C01, corpus of planted strongly infeasible/unbounded problems; TLC checks CertPinf/CertDinf (Farkas certificates on user data, "
             "kappa-normalised, documented relative tolerances), NaN objectives, and that infeasibility verdicts are never issued from stale residuals (MC invariant).",
         "5/C02", IPM_NOTE, "TLA+ model checking (TLC) + trace validation of hooked solves against Trace_IPM"),
 "C03": (MC, "Report/iterate identity invariants (ReportMatchesIterate, IterationsReported) proved on the bounded model; on traces TLC checks reported "
             "figures bit-equal to info of the returned iterate and within rounding of observer values, Almost* only under reduced tolerances, vector lengths.",
         "5/C03", IPM_NOTE, "TLA+ model checking (TLC) + trace validation of hooked solves against Trace_IPM"),
 "C07": (MC, "tau,kappa>0 and 0<alpha<=1 on every LoopTop/AddStep event of every trace; strict interiority via observer margins; budget independence "
             "as a two-run refinement on iterate digests.", "5/C07", IPM_NOTE,
         "TLA+ model checking (TLC) + trace validation of hooked solves against Trace_IPM"),
 "C04": (MC, "Liveness <>(pc=Done) under weak fairness and IterBound proved by TLC on MC_IPM for every cone class and max_iter<=3; degenerate shapes "
             "(empty/singleton cones, zero data, 1e+-12 magnitudes, max_iter 0..200, time_limit 0) enumerated under catch_unwind + watchdog and every trace validated "
             "(terminal status, iterations<=max_iter, MaxTime decided from the logged clock reading); constructor dimension guard validated by Construct.tla; "
             "MaxTime mid-run via injected sleeps; scripted failures at the loop's decision points (scaling, refactorisation, affine/combined solves, step length) whose control "
             "flow must stay inside IPM.tla's checkpoint actions; magnitude ladders up to 1e+-300; runs to the numerical limit (all tolerances 0); Timers.tla behaviours replayed on the real "
             "timers; Session.tla (API interleavings) for the iteration budget edited between solves.", "5/C04", IPM_NOTE,
         "TLA+ model checking incl. liveness (TLC) + trace validation of enumerated degenerate solves"),
 "C06": ("exploration", "Per-pass mechanism relations (sigma=(1-alpha_aff)^3, first-iteration damping) checked by TLC on every trace of family G; the distributional claim "
             "(>=99.5% Solved, p95 iteration envelope) is a POSTCONDITION of Dist.tla over counters with a binomial false-alarm bound of 1e-9. Direction.tla: the search direction as the code composes it satisfies the linearised "
             "embedding in exact rationals (two wrong dtau denominators must fail); Trace_Direction.tla: tau row, kappa row, composition and right-hand sides re-evaluated on every KKT solve of recorded runs. Centrality.tla / Trace_Centrality.tla: protocol and probe content of the dual-scaling centrality line search.",
         "5/C06", IPM_NOTE + " The iteration envelope (p95 <= 24, 16 for symmetric problems; the pinned tree gives 19-20 and 13) is empirical.", "trace validation against Trace_IPM + TLC postcondition over run counters (Dist.tla)"),
 "C20": (MC, "PrintShape and LastRowMatches proved on MC_IPM for all control paths; MC_Print checks target switching; on traces TLC checks the printed rows equal the "
             "model's emission sequence, footer = status, identical bytes on buffer/stream/file, silence when verbose is off, configuration header = internal problem facts, "
             "last row = returned solution to print precision; every sequence of 5 (6 thorough) target selections / verbosity changes / solves of Print.tla's design model is replayed on a real "
             "solver (logs per target, buffer availability); cone-dimension lists by the documented abbreviation rule; linear-algebra line and chordal block vs internal facts.", "5/C20", IPM_NOTE,
         "TLA+ model checking (TLC) + trace validation of captured output against Print.tla / Trace_IPM"),
 "C12": (MC, "Qdldl.tla computes, over exact rationals, the outcome of every factorisation (error kind, fill pattern of L, L, D, inertia, regularisation count, solution of Ax=b) "
             "and of every update/scale/offset/refactor history for all small matrices incl. structurally missing entries, all permutation vectors (valid or not), D-sign vectors and "
             "regularisation settings (incl. eps <= 0 / delta = 0); every behaviour is replayed into the real engine and compared; refactor is compared bit-for-bit with a fresh factorisation; "
             "QdldlRaw.tla decides the structural error of every raw encoding (any dimensions, entries below the diagonal, unsorted columns); the default (AMD) ordering is compared through solves.",
         "5/C12", "Trusted base: TLC, Rational.tla, the replayer's float-vs-rational comparison (1e-11 relative). Exhaustive for n<=3 (n=4 slices in thorough); threshold ties are don't-care.",
         "TLA+ model enumeration (TLC) with spec->impl replay of every behaviour"),
 "C16": (MC, "Csc.tla gives every public CSC operation a representation invariant (Canonical) and a meaning on the stored-entry map; TLC recomputes the expected result of every recorded call "
             "(all patterns up to 3x3/4x3, triplet sequences, raw encodings for check_format, block concatenations); MC_Csc checks algebraic laws of the specification itself.",
         "5/C16", "Trusted base: TLC; integer-valued data (exact f64). Quick samples the enumeration by seed; thorough is exhaustive.",
         "trace validation of enumerated operation calls against Csc.tla (TLC) + bounded model checking of spec laws"),
 "C08": (MC, "DataUpdate.tla models every argument form of update_P/q/A/b and update_data (accepted, rejected, refused, partially applied) over abstract data versions; "
             "all histories of length 2 (+solve) are replayed on the real solver: result kinds, internal data and KKT copy after each call, and the next solve against a freshly "
             "built solver on the model's data (bit-for-bit when equilibration is off, verdict class and objective otherwise) plus observer residuals; fixed histories outside the value lattice "
             "(wall-clock, infinite right-hand sides through update_b, a solve after an overflowed solve); Session.tla: every interleaving of 5 (6) solve / update / settings / buffer / save / load steps.",
         "5/C08", "Trusted base: TLC, replayer, observer. Histories longer than 2 updates are not enumerated; four seed problems.",
         "TLA+ model enumeration (TLC) with spec->impl replay of every history against the real solver and a fresh-solver oracle"),
 "C09": (MC, "Presolve.tla models cone-list collapsing, the module-level infinity bound (set before/after construction), the reduction map, reduced cone list, capping of b and "
             "reversal; every behaviour (all cone lists up to 3 cones / 4-6 rows, every placement of finite/big/huge right-hand sides, presolve on/off, bound histories) is replayed: "
             "construction-time facts through a read-only hook and the public data, solve-time facts through the public solution and a hand-reduced problem.",
         "5/C09", "Trusted base: TLC, replayer, observer. Exhaustive for the bounded menus.",
         "TLA+ model enumeration (TLC) with spec->impl replay"),
 "C10": (MC, "Equil.tla states the five clauses (disabled => untouched bit-for-bit; cumulative scalings within [min,max]; zero rows/columns of scalar cones unscaled; E constant on non-scalar cones; "
             "internal data = c*D*P*D, E*A*D, c*D*q, E*b to 64 ulps) on ordered-float limbs; TLC evaluates them on the public solver.data of thousands of constructed solvers "
             "with scales spanning 30 orders of magnitude.", "5/C10",
         "Trusted base: TLC, FloatOrd, observer products. No bounded design model beyond the trace spec: the property is a post-condition of one construction step.",
         "trace validation (TLC) of recorded equilibration states against Equil.tla"),
 "C19": ("fault_enumeration", "JsonIO.tla: Save -> one fault -> Load. Every truncation offset, single-byte deletion and 23 semantic single-site corruptions of saved files are classified by the "
             "specification (Canonical predicate of Csc.tla and the constructor's dimension predicates evaluated by TLC on independently parsed fields) and the real load outcome must be Err / Ok "
             "accordingly and never a panic; undamaged round trips must reproduce data (bit-exact with equilibration off, 16 ulps otherwise), cones, settings incl. infinite time_limit, overrides, "
             "and the solve verdict; histories that edit public settings or update the data before saving, a struct-level sweep of every settings field, overrides at load time, "
             "and Session.tla's save/load interleavings are included.",
         "5/C19", "Trusted base: TLC, independent JSON field parser in the harness (serde_json::Value), FloatOrd. Quick samples byte offsets; thorough enumerates all.",
         "fault enumeration validated against JsonIO.tla by TLC (trace validation)"),
 "C05": (MC, "Lifecycle.tla (three threads, set_infinity interleavings, the two reads of the bound in DefaultSolver::new) is model-checked: a built solver's outcome is frozen and "
             "depends only on its own reads; Consistency.tla relates pairs of real runs (13 transformations / configurations, same object solved twice, instances on concurrent threads) "
             "mapped back to the base formulation: verdict class, weak duality across runs with explicitly computed slack, agreement of reported objectives, bit equality where demanded; "
             "Lifecycle.tla's Frozen and shared-bound facts are bound to the code (set_infinity from another thread after / before the build).",
         "5/C05", "Trusted base: TLC, observer map-back and slack. faer backend not built; pairs without a full verdict on both sides are not compared (counted).",
         "TLA+ model checking (TLC) + trace validation of run pairs against Consistency.tla"),
 "C11": (MC, "KKT.tla defines the intended KKT matrix declaratively (origin of every stored entry and its coordinate, for both triangles, with sparse expansions of second-order and "
             "generalised power cones); TLC checks every layout assembled by the real code (14 cone lists x all P patterns n<=3 x A patterns x 2 triangles) and every KKT state read "
             "from real solvers after 0..200 iterations incl. re-solves (copies bit-equal, no regularisation left, sign pattern, regulariser value, identity at default start, H_K z = s, "
             "and entry by entry the Schur-eliminated block against the cones' own mul_Hs for every cone type); Refine.tla / RefineRules.tla model the iterative refinement of one KKT solve "
             "(design invariants by TLC) and Trace_Refine re-derives every decision of 1100 real solves and the regularised-factor identity b - K x0 = eps S x0.",
         "5/C11", "Trusted base: TLC, Csc.tla, observer Schur complement and residuals.",
         "trace validation (TLC) of assembled layouts and solver KKT states against KKT.tla"),
 "C13": ("exploration", "ConeAlgebra.tla lists the identities a scaled symmetric cone must satisfy (W z = W^-T s, W'W z = s, W / W^-1 mutually inverse and transpose-consistent, "
             "KKT block = mul_Hs = W'W, Jordan product by definition / commutative / division, affine term lambda o lambda, corrector W^-T ds o W dz - sigma mu e, slack-recovery offset); "
             "the real cone objects (nonnegative, second-order on both sides of the sparse-expansion threshold, PSD n <= 4) are scaled at thousands of generated points - centred, magnitudes "
             "1e-4..1e4, within 1e-6..1e-2 of the boundary - every operator is evaluated once through a hook, the observer turns each identity into an <<error, tolerance>> pair with its own "
             "Jordan products, and TLC decides the inequalities on ordered-float limbs.  This is numerical evidence at a stated, conditioning-dependent tolerance, not a proof: the identities "
             "are real-analytic (square roots in every scaling) and admit no exact lattice, which is why the level is exploration.",
         "I.9/C13", "Trusted base: TLC, FloatOrd, the observer's Jordan products and inner products, the hook sym_cone_battery. Points closer than 1e-6 (relative) to the boundary are not generated; "
         "a wrong operator shows as an O(1e-2..1) relative error against tolerances <= 1e-5.",
         "trace validation (TLC) of recorded operator evaluations against ConeAlgebra.tla; arithmetic by the observer"),
 "C14": ("exploration", "ConeBarrier.tla states (a) the power / generalised power cone and dual-cone definitions over integer lattice points with rational exponents, decided by TLC in exact integer "
             "arithmetic against the code's membership predicates, (b) membership of arbitrary real points of all three cones against the observer, and (c) the identities of the barrier calculus "
             "per cone kind: stored dual gradient / Hessian / third-order term = central differences of the cone's OWN lower-order quantity (barrier value, gradient, Hessian along dz), "
             "logarithmic homogeneity, primal gradient = derivative of barrier_primal and conjugate map g*(-g(s)) = -s, primal-dual scaling symmetric positive definite with both secant "
             "equations or exactly mu*H (required on the central path and for the generalised cone), central starting point with mu = 1.  Every identity reaches TLC as an <<error, tolerance>> "
             "pair on ordered-float limbs.  Numerical evidence at stated tolerances, not a proof (level exploration); it found two genuine defects (F18, F19: the power cones' primal gradient).",
         "I.10/C14", "Trusted base: TLC, FloatOrd, the observer's central differences / Cholesky / cone margins, the hook nonsym_cone_battery. Points closer than ~1e-3 (relative) to the boundary and "
         "exponents outside [0.08, 0.93] are not generated; a wrong formula shows as an O(1e-2..1) relative error against tolerances <= 1e-4.",
         "trace validation (TLC) of recorded cone evaluations against ConeBarrier.tla; exact integer membership by TLC; finite differences by the observer"),
 "C15": (MC, "ConeStep.tla decides safe/bounded/tight in integer arithmetic for every interior integer point and direction of NN/zero/SOC cones (enumerated; MC_ConeStep checks convexity/monotonicity "
             "of the predicates), validates the backtracking protocol of exp/power/genpower line searches probe by probe against observer membership, composite steps (incl. PSD) and "
             "the shift-to-interior post-condition.", "5/C15",
         "Trusted base: TLC, observer membership for nonsymmetric/PSD cones. PSD cones of dimension > 2 only through composite-step safety.",
         "trace validation (TLC) of enumerated cone calls against ConeStep.tla + bounded model check of the predicates"),
 "C17": (MC, "DSU.tla models the union-find at implementation level (arrays, path halving, union by rank) with a ghost partition; every behaviour (exhaustive small, adversarial equal-rank schedules, "
             "random) is replayed on the real struct and arrays compared after every operation; Chordal.tla states the clique-tree validity predicates (partition, tree, post-order, separators, "
             "running intersection, cover, block sizes, consecutive supernodes) and TLC evaluates them on every analysis of all graphs on <=5 (6,7 sampled/thorough) vertices x 3 merge strategies "
             "and random larger graphs, under a watchdog.", "5/C17",
         "Trusted base: TLC, replayer. Requires the sdp feature (BLAS through scipy-openblas trampolines).",
         "TLA+ model enumeration with spec->impl replay (DSU) + trace validation of recorded clique trees (Chordal.tla)"),
 "C18": (MC, "Decomp.tla defines the intended augmented problem declaratively from the original layout and the clique trees (copied cones, one PSD block per clique, "
             "block position <-> original row, overlaps tied by +1/-1 columns in the compact form, [A H; 0 -I] in the standard form); TLC checks the augmented problem "
             "found in the public solver.data of every constructed sparse SDP, and after real solves the reversal (row map, slack = sum of blocks, dual = block agreement / "
             "average, PSD completion) and decomposition on vs off.", "5/C18",
         "Trusted base: TLC, observer reading of the clique trees, observer eigenvalues. Requires the sdp feature. PSD cone dimensions 4..7.",
         "trace validation (TLC) of constructed / solved sparse SDPs against Decomp.tla"),
}
NOT_APPLICABLE = [
]
PENDING = {}

def main():
    props = [json.loads(l)["id"] for l in open(os.path.join(ROOT, "properties.jsonl"))]
    checks = []
    for pid in props:
        if pid not in CHECKS:
            continue
        lvl, text, ref, note, tech = CHECKS[pid]
        checks.append({"property_id": pid, "quick_cmd": f"./check {pid} --tier quick",
                       "thorough_cmd": f"./check {pid} --tier thorough",
                       "evidence_file": f"/verif/evidence/{pid}.json",
                       "replay_cmd_template": f"./check {pid} --replay {{path}}",
                       "engine": "tlc+harness",
                       "level_claimed": {"category": lvl, "text": text, "design_ref": f"DESIGN.md section {ref}"},
                       "level_note": note, "technique": tech})
    na = list(NOT_APPLICABLE)
    for pid in props:
        if pid not in CHECKS and pid not in [x["property_id"] for x in na]:
            na.append({"property_id": pid, "reason": PENDING.get(pid, "check not built yet in this round (planned in DESIGN.md section 5); not claimed until its machinery is committed")})
    hooks = [l.split()[0] for l in os.popen("git -C /repo log --format='%h %s' | grep 'verif hooks'").read().splitlines()]
    m = {"version": 1, "setup_cmd": "./check --setup",
         "hooks": {"guard": "clarabel_verif",
                   "enable": "harness/.cargo/config.toml: rustflags = [\"--cfg\", \"clarabel_verif\", \"--check-cfg\", \"cfg(clarabel_verif)\"]; the harness has a path dependency on /repo",
                   "baseline_off_cmd": "cd /repo && cargo test --workspace --no-fail-fast --offline",
                   "source_commits": hooks, "add_only": True},
         "engines": [{"name": "tlc+harness", "path": "/verif/check", "serves_properties": [c["property_id"] for c in checks],
                      "kind_free_text": "TLA+ specifications in /verif/spec checked by TLC (bounded model checking + trace validation); Rust conformance harness in /verif/harness records traces from / replays behaviours into the real code"}],
         "checks": checks, "not_applicable": na,
         "notes": "See DESIGN.md. known_findings.txt lists genuine defects (fixed or recorded)."}
    json.dump(m, open(os.path.join(ROOT, "MANIFEST.json"), "w"), indent=1)
    print("MANIFEST.json:", len(checks), "checks,", len(na), "not applicable")
main()
