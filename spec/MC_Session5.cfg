SPECIFICATION Spec
CONSTANTS
  MaxLen = 5
  QVers = {1, 2}
  BVers = {1}
  Budgets = {0, 200}
INVARIANTS FileIsSnapshot BufferOnlyWhenSelected Emit
CHECK_DEADLOCK FALSE
