------------------------------- MODULE Budget -------------------------------
(***************************************************************************)
(* C07, second half: the trajectory does not depend on the iteration        *)
(* budget.  A refinement between recorded runs of the real solver: the run  *)
(* with max_iter = k must visit, pass for pass, exactly the iterates (bit    *)
(* patterns of x,s,z,tau,kappa, compared as digests) of the unrestricted     *)
(* run, stop at iteration k, and return the unscaled k-th iterate.           *)
(***************************************************************************)
EXTENDS Integers, Sequences, Json, IOUtils, TLC

Rec == ndJsonDeserialize(IOEnv.TRACE)
VARIABLES l, long, nshort
bvars == <<l, long, nshort>>

Ev == Rec[l]
IsEv(name) == l <= Len(Rec) /\ Rec[l].ev = name /\ l' = l + 1

LimitLike == {"MaxIterations", "AlmostSolved", "AlmostPrimalInfeasible", "AlmostDualInfeasible"}

IsPrefix(s, t) == Len(s) <= Len(t) /\ \A i \in 1..Len(s) : s[i].iter = t[i].iter /\ s[i].digest = t[i].digest

LongRun == IsEv("Long") /\ long' = Ev /\ UNCHANGED nshort

\* the budget does not bind: identical run
Identical(sh) ==
  /\ sh.passes = long.passes /\ sh.iterations = long.iterations
  /\ sh.status = long.status /\ sh.ret = long.ret
\* the budget binds: a prefix of the long run, cut at the top of pass k
Cut(sh) ==
  /\ IsPrefix(sh.passes, long.passes)
  /\ Len(sh.passes) >= 1
  /\ sh.passes[Len(sh.passes)].iter = sh.k
  /\ sh.iterations = sh.k
  /\ sh.status \in LimitLike
  \* the returned vectors are the unscaled last iterate (tau-normalised unless a certificate)
  /\ long.same_dims =>
       LET last == long.passes[Len(sh.passes)] IN
       sh.ret = IF sh.status \in {"AlmostPrimalInfeasible", "AlmostDualInfeasible"}
                THEN last.ret_kappa ELSE last.ret_tau
\* A long run that ends INSIDE pass N (failed scaling / KKT solve / line search: after that pass's termination test) and a
\* run limited to N: the limit is noticed first, at the top of pass N (IPM.tla: Check precedes Scale) - unless the long
\* run's verdict was itself reached at the top of pass N (lack of progress), in which case the runs are identical.
\* (the Long event says where its run ended: `exit_in_pass` = a failing checkpoint after the top of its last pass)
\* N: the pass in which the long run ended (its last LoopTop; `iterations` may already count that pass when it ends inside it)
ShortOK(sh) ==
  LET N == long.passes[Len(long.passes)].iter IN
  IF long.exit_in_pass THEN (IF sh.k > N THEN Identical(sh) ELSE Cut(sh))
  ELSE IF sh.k >= N /\ long.status \notin {"MaxIterations"} THEN Identical(sh)
  ELSE Cut(sh)

\* the same solver object solved a second time: bit-for-bit the same trajectory and result
ResolveRun == IsEv("Resolve") /\ Ev.run = long.run
              /\ Ev.passes = long.passes /\ Ev.iterations = long.iterations
              /\ Ev.status = long.status /\ Ev.ret = long.ret
              /\ nshort' = nshort + 1 /\ UNCHANGED long

ShortRun == IsEv("Short") /\ Ev.run = long.run /\ ShortOK(Ev) /\ nshort' = nshort + 1 /\ UNCHANGED long

Init == l = 1 /\ long = [run |-> -1] /\ nshort = 0
Next == LongRun \/ ShortRun \/ ResolveRun
Spec == Init /\ [][Next]_bvars

TraceAccepted ==
  LET n == TLCGet("stats").diameter - 1 IN
  IF n = Len(Rec) THEN TRUE
  ELSE /\ PrintT(<<"TRACE-REJECTED at event", n + 1, "of", Len(Rec)>>)
       /\ FALSE
=============================================================================
