SPECIFICATION DSpec
CONSTANT MaxHist = 6
INVARIANT EmitReplay
CHECK_DEADLOCK FALSE
