----------------------------- MODULE Trace_IPM -----------------------------
(***************************************************************************)
(* Trace validation for IPM: every event the real solver emitted (hooks in  *)
(* solver.rs / info.rs / info_print.rs / solution.rs, one per action of IPM) *)
(* must be explained by the corresponding IPM action, with the action's      *)
(* numerical outcome parameters RECOMPUTED here, by TLC, from the logged     *)
(* scalars (ordered-float limbs, FloatOrd) -- so the termination decision    *)
(* table, the poor-progress test, the Almost* re-test, the previous-iterate  *)
(* bookkeeping, the print protocol and the certificates of C01/C02/C03 are   *)
(* all evaluated on every step of every recorded solve.                      *)
(***************************************************************************)
EXTENDS IPM, FloatOrd, Json, IOUtils, TLC, FiniteSets

Rec == ndJsonDeserialize(IOEnv.TRACE)

VARIABLES
  l,        \* next line of Rec to consume
  c,        \* per-run constants (tolerances as ordered floats, settings flags)
  info,     \* the scalars held in DefaultInfo / residuals (as of the last Update / Rollback)
  pinfo,    \* model's copy of what SavePrev stored (prev_* fields), hasPrev flag inside
  rowsOk,   \* every printed row so far agreed with info at the time it was printed
  nruns     \* statistics: completed runs

tvars == <<vars, l, c, info, pinfo, rowsOk, nruns>>

StatusName(k) ==
  CASE k = 0 -> "Unsolved" [] k = 1 -> "Solved" [] k = 2 -> "PrimalInfeasible"
    [] k = 3 -> "DualInfeasible" [] k = 4 -> "AlmostSolved"
    [] k = 5 -> "AlmostPrimalInfeasible" [] k = 6 -> "AlmostDualInfeasible"
    [] k = 7 -> "MaxIterations" [] k = 8 -> "MaxTime" [] k = 9 -> "NumericalError"
    [] k = 10 -> "InsufficientProgress"

\* which property's clauses are enforced in this run ("ALL" or one id); conformance of the
\* control skeleton and of the termination decision is always enforced
Prop == IOEnv.PROP
P(id) == Prop = "ALL" \/ Prop = id

Ev == Rec[l]
IsEv(name) == l <= Len(Rec) /\ Rec[l].ev = name /\ l' = l + 1

-----------------------------------------------------------------------------
(* The termination tests of info.rs, on ordered floats *)

\* t: a tolerance set [gap_abs, gap_rel, feas, neg_infeas_abs, kt_thresh]; thr_p/thr_d are
\* -tol_infeas_rel*dot_bz and -tol_infeas_rel*dot_qx for that set (products formed by the recorder
\* with the same single multiplication the code performs)
IsSolved(e, t) == /\ (FLt(e.gap_abs, t.gap_abs) \/ FLt(e.gap_rel, t.gap_rel))
                  /\ FLt(e.res_p, t.feas) /\ FLt(e.res_d, t.feas)
IsPinf(e, t, thr) == FLt(e.dot_bz, t.neg_infeas_abs) /\ FLt(e.res_pinf, thr)
IsDinf(e, t, thr) == FLt(e.dot_qx, t.neg_infeas_abs) /\ FLt(e.res_dinf, thr)

Conv(e, t, thrp, thrd) ==
  IF FLe(e.kt, FOne) /\ IsSolved(e, t) THEN "solved"
  ELSE IF FGt(e.kt, t.kt_thresh)
       THEN IF IsPinf(e, t, thrp) THEN "pinf"
            ELSE IF IsDinf(e, t, thrd) THEN "dinf" ELSE "none"
       ELSE "none"

\* the poor-progress disjunction of check_termination (the caller adds iter > 1 and Unsolved)
Poor(e) ==
  /\ (FGt(e.res_d, e.prev_res_d) \/ FGt(e.res_p, e.prev_res_p))
  /\ \/ (FLt(e.kt, c.eps100)
          /\ (FLt(e.prev_gap_abs, c.full.gap_abs) \/ FLt(e.prev_gap_rel, c.full.gap_rel)))
     \/ (FLt(e.kt, FOne)
          /\ \/ (FGt(e.res_d, c.tol_feas100) /\ FGt(e.res_d, e.prev_res_d100))
             \/ (FGt(e.res_p, c.tol_feas100) /\ FGt(e.res_p, e.prev_res_p100)))

-----------------------------------------------------------------------------
Begin ==
  /\ IsEv("Begin")
  /\ pc = "Idle"
  /\ c' = Ev.c
  /\ conf' = [maxiter |-> Ev.c.maxiter, sym |-> Ev.c.sym, pd |-> Ev.c.pd]
  /\ pc' = "Scalars" /\ iter' = 0 /\ infoIter' = 0 /\ status' = "Unsolved"
  /\ scaling' = IF Ev.c.pd THEN "PD" ELSE "Dual"
  /\ alphaZero' = TRUE /\ kktok' = TRUE /\ stepcls' = <<FALSE, FALSE>>
  /\ cur' = 1 /\ prev' = 0 /\ nextId' = 2 /\ infoOf' = 0 /\ prevInfoOf' = 0 /\ resOf' = 0
  /\ printed' = <<>> /\ sol' = NoSol
  /\ info' = [valid |-> FALSE]
  /\ pinfo' = [has |-> FALSE]
  /\ rowsOk' = TRUE
  /\ UNCHANGED nruns

PosOrUnderflow(x, field) ==
  \/ IsPos(x)
  \/ (FEq(x, FZero) /\ info.valid /\ FGe(info[field], FZero) /\ FLt(info[field], c.tiny))
\* the same for the smallest entry of a nonnegative-cone block (needs the previous pass's margins)
PosOrUnderflowM(x, field) ==
  \/ IsPos(x)
  \/ (FEq(x, FZero) /\ info.valid /\ info.has_margins /\ FGe(info[field], FZero) /\ FLt(info[field], c.tiny))

TSaveScalars ==
  /\ IsEv("SaveScalars") /\ SaveScalars
  /\ Ev.iter = iter
  /\ UNCHANGED <<c, info, pinfo, rowsOk, nruns>>

\* LoopTop is emitted at the end of info.update
TUpdate ==
  /\ IsEv("LoopTop") /\ Update
  /\ Ev.iter = infoIter
  /\ LET e == Ev.e IN
       /\ info' = [e EXCEPT !.valid = TRUE]
       \* the prev_* fields the code holds are exactly what the model saw at SavePrev
       /\ pinfo.has =>
            /\ FSame(e.prev_res_p, pinfo.res_p) /\ FSame(e.prev_res_d, pinfo.res_d)
            /\ FSame(e.prev_gap_abs, pinfo.gap_abs) /\ FSame(e.prev_gap_rel, pinfo.gap_rel)
            /\ FSame(e.prev_cost_p, pinfo.cost_p) /\ FSame(e.prev_cost_d, pinfo.cost_d)
       \* C07: homogenisation scalars positive at every iterate
       \* (positive up to rounding: a scalar that has decayed below 1e-300 may underflow to +0.0)
       /\ P("C07") => (PosOrUnderflow(e.tau, "tau") /\ PosOrUnderflow(e.kappa, "kappa"))
       \* C07: slack and dual iterates strictly inside K and K* (observer margins on the internal
       \* iterate; exact for nonnegative cones, up to rounding for the others)
       /\ (P("C07") /\ e.has_margins) =>
            /\ PosOrUnderflowM(e.smin_nn, "smin_nn") /\ PosOrUnderflowM(e.zmin_nn, "zmin_nn")
            /\ FGt(e.smin_o, e.interior_floor) /\ FGt(e.zmin_o, e.interior_floor)
       \* C06/C07: mu is the complementarity <s,z> + tau*kappa over (barrier degree of the cones + 1)
       /\ ((P("C06") \/ P("C07")) /\ IsFinite(e.mu_obs)) => (FSame(e.mu, e.mu_obs) \/ UlpWithin(e.mu, e.mu_obs, 4))
       \* the step length recorded for this pass is in [0,1]
       /\ P("C07") => (FGe(e.alpha, FZero) /\ FLe(e.alpha, FOne))
       /\ (e.alpha_zero <=> alphaZero)
       \* C04: the clock reading used by the time-limit test never goes backwards
       /\ (P("C04") /\ info.valid) => FGe(e.time, info.time)
  /\ UNCHANGED <<c, pinfo, rowsOk, nruns>>

TPrintRow ==
  /\ IsEv("PrintStatus") /\ PrintRow
  /\ Ev.iter = infoIter
  /\ UNCHANGED <<c, info, pinfo, rowsOk, nruns>>

TCheck ==
  /\ IsEv("Check")
  /\ Ev.iter = iter
  /\ LET e    == info
         conv == Conv(e, c.full, e.thr_p, e.thr_d)
         poor == Poor(e)
         tov  == FGt(e.time, c.time_limit)
     IN /\ Check(conv, poor, tov)
        /\ status' = StatusName(Ev.status)      \* the code reached the same verdict
  /\ UNCHANGED <<c, info, pinfo, rowsOk, nruns>>

TRollback ==
  /\ IsEv("Rollback") /\ Rollback
  /\ pinfo.has
  \* C07/C03: the iterate put back is the one saved at SavePrev - scalars bit for bit, vectors by digest
  /\ (P("C07") \/ P("C03")) =>
       /\ FSame(Ev.tau, pinfo.tau) /\ FSame(Ev.kappa, pinfo.kappa)
       /\ (Ev.digest # "" /\ pinfo.digest # "") => Ev.digest = pinfo.digest
  \* every scalar of info that describes the iterate is put back with it (whatever the property under test: the last
  \* printed row, the Almost* re-test and the returned figures all read these fields)
  /\ FSame(Ev.cost_p, pinfo.cost_p) /\ FSame(Ev.cost_d, pinfo.cost_d)
  /\ FSame(Ev.res_p, pinfo.res_p) /\ FSame(Ev.res_d, pinfo.res_d)
  /\ FSame(Ev.gap_abs, pinfo.gap_abs) /\ FSame(Ev.gap_rel, pinfo.gap_rel)
  /\ info' = [info EXCEPT !.cost_p = pinfo.cost_p, !.cost_d = pinfo.cost_d,
                          !.res_p = pinfo.res_p, !.res_d = pinfo.res_d,
                          !.gap_abs = pinfo.gap_abs, !.gap_rel = pinfo.gap_rel]
  /\ UNCHANGED <<c, pinfo, rowsOk, nruns>>

TSetStatus ==
  /\ IsEv("SetStatus")
  /\ \/ (Ev.status = 0 /\ ProgResetStatus)
     \/ (Ev.status # 0 /\ SetStatusFail /\ status' = StatusName(Ev.status))
  /\ UNCHANGED <<c, info, pinfo, rowsOk, nruns>>

TCkpt ==
  /\ IsEv("Ckpt")
  /\ \/ (Ev.kind = 0 /\ CkptProgress(Ev.out))
     \/ (Ev.kind = 1 /\ CkptNumerical(Ev.out))
     \/ (Ev.kind = 2 /\ CkptSmallStep(Ev.out))
  /\ UNCHANGED <<c, info, pinfo, rowsOk, nruns>>

TScale ==
  /\ IsEv("Scale") /\ Scale(Ev.ok)
  /\ (Ev.dual <=> scaling = "Dual")
  /\ UNCHANGED <<c, info, pinfo, rowsOk, nruns>>

TKKT ==
  /\ \/ (IsEv("KKTUpdate") /\ KKTUpdate(Ev.ok) /\ Ev.iter = iter)
     \/ (IsEv("Affine") /\ Affine(Ev.ok) /\ kktok' = Ev.ok)
     \/ (IsEv("Combined") /\ Combined(Ev.ok))
  /\ UNCHANGED <<c, info, pinfo, rowsOk, nruns>>

\* sigma = (1 - alpha_aff)^3, damping m = alpha_aff in the first iteration only;
\* the cube is checked by the recorder's exact-rational side channel (sigma_ok)
TCentering ==
  /\ IsEv("Centering") /\ Centering
  /\ Ev.iter = iter
  /\ P("C07") => (FGe(Ev.alpha, FZero) /\ FLe(Ev.alpha, FOne))
  /\ P("C06") =>
       /\ FGe(Ev.sigma, FZero) /\ FLe(Ev.sigma, FOne)
       /\ IF iter > 1 THEN FEq(Ev.m, FOne) ELSE FSame(Ev.m, Ev.alpha)
       /\ Ev.sigma_ok
  /\ UNCHANGED <<c, info, pinfo, rowsOk, nruns>>

TStepLength ==
  /\ IsEv("StepLength")
  /\ StepLength(FLt(Ev.alpha, c.min_switch), FLe(Ev.alpha, c.min_term0))
  /\ (Ev.dual <=> scaling = "Dual")
  /\ P("C07") => FLe(Ev.alpha, FOne)
  /\ UNCHANGED <<c, info, pinfo, rowsOk, nruns>>

TSavePrev ==
  /\ IsEv("SavePrev") /\ SavePrev
  /\ pinfo' = [has |-> TRUE, cost_p |-> info.cost_p, cost_d |-> info.cost_d,
               res_p |-> info.res_p, res_d |-> info.res_d,
               gap_abs |-> info.gap_abs, gap_rel |-> info.gap_rel,
               tau |-> info.tau, kappa |-> info.kappa, digest |-> info.digest]
  /\ UNCHANGED <<c, info, rowsOk, nruns>>

\* C07: every accepted step has length in (0, 1]
TAddStep ==
  /\ IsEv("AddStep") /\ AddStep
  /\ P("C07") => (IsPos(Ev.alpha) /\ FLe(Ev.alpha, FOne))
  /\ UNCHANGED <<c, info, pinfo, rowsOk, nruns>>

TLoopExit ==
  /\ IsEv("LoopExit") /\ LoopExit
  /\ Ev.iter = iter
  /\ (Ev.alpha_zero <=> alphaZero)
  /\ UNCHANGED <<c, info, pinfo, rowsOk, nruns>>

TPostInfo ==
  /\ IsEv("PostInfo")
  /\ status = StatusName(Ev.before)
  /\ LET e == info
         conv == Conv(e, c.reduced, e.rthr_p, e.rthr_d)
     IN PostInfo(conv)
  /\ status' = StatusName(Ev.after)
  /\ UNCHANGED <<c, info, pinfo, rowsOk, nruns>>

TPostSolution ==
  /\ IsEv("PostSolution") /\ PostSolution
  /\ StatusName(Ev.status) = status
  /\ Ev.iterations = infoIter
  /\ (Ev.infeasible <=> status \in InfeasStatuses)
  /\ UNCHANGED <<c, info, pinfo, rowsOk, nruns>>

TFooter ==
  /\ IsEv("PrintFooter") /\ Footer
  /\ StatusName(Ev.status) = status
  /\ UNCHANGED <<c, info, pinfo, rowsOk, nruns>>

-----------------------------------------------------------------------------
(* The returned solution (harness event `Done`, after solve() returned) *)

Full    == c.full
Reduced == c.reduced

\* C01: certified approximate optimum, on the observer's re-evaluation
CertSolved(d, o) ==
  /\ FLt(o.pres, o.thr_feas_p) /\ FLt(o.dres, o.thr_feas_d)
  /\ (FLt(o.gap_abs, o.thr_gap_abs) \/ FLt(o.gap_rel, o.thr_gap_rel))
  /\ FGe(o.smin, o.margin_floor) /\ FGe(o.zmin, o.margin_floor)
  /\ o.dropped_ok

\* C03: Almost* only when the reduced tolerances are met
CertAlmostSolved(d, o) ==
  /\ FLt(o.pres, o.rthr_feas_p) /\ FLt(o.dres, o.rthr_feas_d)
  /\ (FLt(o.gap_abs, o.rthr_gap_abs) \/ FLt(o.gap_rel, o.rthr_gap_rel))
  /\ FGe(o.smin, o.margin_floor) /\ FGe(o.zmin, o.margin_floor)

\* C02: Farkas-type certificates on the user's data.  The recorder supplies, for the full (f)
\* or reduced (r) tolerance set: bz_s = c*kappa*b'z, its bound -tol_abs(+rounding), the
\* normalised residual lhs_p and its bound -tol_rel*bz_s(+rounding); same for the dual side.
\* (b'z and q'x are "negative" up to the observer's rounding scale rho = 64 eps sum|terms|: when the
\* certificate is huge -- e.g. bounds capped at 1e20 with presolve off -- the sign of the recomputed inner
\* product is not decidable in double precision)
CertPinf(o, w) ==
  /\ FLt(o.bz, o.bz_rho) /\ FLt(o.bz_s, w.neg_abs_p) /\ FLt(o.lhs_p, w.thr_rel_p)
  /\ FGe(o.zmin, o.margin_floor)
CertDinf(o, w) ==
  /\ FLt(o.qx, o.qx_rho) /\ FLt(o.qx_s, w.neg_abs_d) /\ FLt(o.lhs_d, w.thr_rel_d)
  /\ FGe(o.smin, o.margin_floor)

Within(x, lo, hi) == FLe(lo, x) /\ FLe(x, hi)

DoneOK(d) ==
  LET o == d.obs
      st == StatusName(d.status)
      infeas == st \in InfeasStatuses
  IN
  \* --- conformance: the solution object carries what the model says PostSolution captured
  /\ st = sol.status /\ d.iterations = sol.iterations
  \* --- C04: a terminal status, within the iteration budget
  /\ P("C04") => (st \in TerminalStatuses /\ d.iterations <= conf.maxiter)
  \* --- C04: once the time limit has been exceeded (an injected sleep longer than the limit during
  \*     pass c.sleep_iter) the solve stops at the next iteration boundary at the latest
  /\ (P("C04") /\ c.sleep_iter >= 0) => d.iterations <= c.sleep_iter + 1
  \* --- C03 / C20: the solution object repeats the final figures of info (the footer prints info's): time and count
  /\ (P("C03") \/ P("C20")) => (d.time_same /\ d.iters_same)
  \* --- C03: vector lengths are the user's n and m
  /\ P("C03") => d.lens = <<d.n, d.m, d.m>>
  \* --- C02: objective values are NaN exactly for infeasibility verdicts
  /\ (P("C02") \/ P("C03")) => (infeas => (IsNaN(d.obj) /\ IsNaN(d.obj_d)))
  \* --- C03: the reported figures are those of info at the end (bit for bit) ...
  /\ P("C03") =>
       /\ ~infeas => (FSame(d.obj, info.cost_p) /\ FSame(d.obj_d, info.cost_d))
       /\ FSame(d.r_prim, info.res_p) /\ FSame(d.r_dual, info.res_d)
  \* --- ... and agree with the observer's figures for the returned point
       /\ (~infeas /\ o.compare_obj) =>
             (Within(d.obj, o.pobj_lo, o.pobj_hi) /\ Within(d.obj_d, o.dobj_lo, o.dobj_hi))
       /\ (~infeas /\ o.compare_res) =>
             (Within(d.r_prim, o.pres_lo, o.pres_hi) /\ Within(d.r_dual, o.dres_lo, o.dres_hi))
       /\ st = "AlmostSolved" => CertAlmostSolved(d, o)
       /\ st = "AlmostPrimalInfeasible" => CertPinf(o, o.r)
       /\ st = "AlmostDualInfeasible" => CertDinf(o, o.r)
  \* --- C01 / C02 certificates
  /\ P("C01") => (st = "Solved" => CertSolved(d, o))
  /\ P("C02") =>
       /\ st = "PrimalInfeasible" => CertPinf(o, o.f)
       /\ st = "DualInfeasible" => CertDinf(o, o.f)
  \* --- C07: a point handed back when the loop was cut short is the current iterate in the user's coordinates: the
  \*     change of variables preserves the cones, so it is interior (up to the observer's rounding floor) like the iterate
  /\ P("C07") => (st \in {"MaxIterations", "MaxTime", "InsufficientProgress"} =>
                    /\ (IsNaN(o.smin) \/ FGe(o.smin, o.margin_floor))
                    /\ (IsNaN(o.zmin) \/ FGe(o.zmin, o.margin_floor)))
  \* --- C20: the rows parsed back from the print buffer (when captured)
  /\ (P("C20") /\ d.print.captured) =>
        /\ d.print.rows = [i \in 1..Len(printed) |-> printed[i][1]]
        /\ d.print.footer = st
        /\ d.print.shape_ok

TDone ==
  /\ IsEv("Done")
  /\ pc = "Done"
  /\ DoneOK(Ev)
  /\ pc' = "Idle"
  /\ nruns' = nruns + 1
  /\ UNCHANGED <<conf, iter, infoIter, status, scaling, alphaZero, kktok, stepcls, cur, prev,
                 nextId, infoOf, prevInfoOf, resOf, printed, sol>>
  /\ UNCHANGED <<c, info, pinfo, rowsOk>>

-----------------------------------------------------------------------------
TraceInit ==
  /\ l = 1 /\ nruns = 0
  /\ c = [maxiter |-> 0] /\ info = [valid |-> FALSE] /\ pinfo = [has |-> FALSE] /\ rowsOk = TRUE
  /\ conf = [maxiter |-> 0, sym |-> TRUE, pd |-> TRUE]
  /\ pc = "Idle" /\ iter = 0 /\ infoIter = 0 /\ status = "Unsolved" /\ scaling = "PD"
  /\ alphaZero = TRUE /\ kktok = TRUE /\ stepcls = <<FALSE, FALSE>>
  /\ cur = 1 /\ prev = 0 /\ nextId = 2 /\ infoOf = 0 /\ prevInfoOf = 0 /\ resOf = 0
  /\ printed = <<>> /\ sol = NoSol

TraceNext ==
  \/ Begin \/ TSaveScalars \/ TUpdate \/ TPrintRow \/ TCheck \/ TRollback \/ TSetStatus
  \/ TCkpt \/ TScale \/ TKKT \/ TCentering \/ TStepLength \/ TSavePrev \/ TAddStep
  \/ TLoopExit \/ TPostInfo \/ TPostSolution \/ TFooter \/ TDone

TraceSpec == TraceInit /\ [][TraceNext]_tvars

\* every design invariant of IPM is evaluated in every state of every trace
TraceInv ==
  /\ IterBound /\ DoneTerminal /\ ReportMatchesIterate /\ IterationsReported
  /\ KappaIffInfeasible /\ NoStaleInfeasibleFull /\ RollbackHasPrev

\* acceptance: the whole file was consumed
TraceAccepted ==
  LET n == TLCGet("stats").diameter - 1 IN
  IF n = Len(Rec) THEN TRUE
  ELSE /\ PrintT(<<"TRACE-REJECTED at event", n + 1, "of", Len(Rec)>>)
       /\ (n + 1 <= Len(Rec) => PrintT(<<"UNMATCHED", Rec[n + 1].ev>>))
       /\ FALSE
=============================================================================
