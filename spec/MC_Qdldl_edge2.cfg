SPECIFICATION Spec
CONSTANTS
  N = 2
  DiagVals <- Diag_wide
  OffVals <- Off_wide
  PermSet <- Perms_valid
  SignSet <- Signs_all
  RegSet <- Reg_edge
  LogicalSet <- Logical_no
  MaxOps = 0
INVARIANTS FactorisationExact RegularisedPivots NoZeroPivot EmitNew
CHECK_DEADLOCK FALSE
