---------------------------- MODULE ShiftInterior ----------------------------
(***************************************************************************)
(* The shift of a vector into the interior of a product of cones at the     *)
(* start of a solve (_shift_to_cone_interior), in finite precision.         *)
(*                                                                         *)
(* Each cone c is abstracted to its head h[c] and the norm t[c] of its tail *)
(* (nonnegative cone: t = 0); its margin is h - t and a unit shift by a     *)
(* adds a to every head.  Arithmetic is integer arithmetic with a rounding  *)
(* adversary: an addition of magnitude x may be off by up to x \div R       *)
(* (R = 2^mantissa bits; tiny here so that TLC can enumerate).              *)
(*                                                                         *)
(* The code shifts by -min_margin and then by the target margin.  With      *)
(* Recheck = FALSE (the code as first read) TLC finds F20: when one cone    *)
(* needs a huge shift, the rounding error of that shift lands on the OTHER  *)
(* cones' heads and exceeds the target, so a cone ends on or outside its    *)
(* boundary (MC_ShiftInterior_neg.cfg must FAIL).  With Recheck = TRUE (the *)
(* repaired code: margins are re-read, the missing amount is added) every   *)
(* cone whose own entries are small enough for the target to be             *)
(* representable ends strictly inside (MC_ShiftInterior.cfg).               *)
(*                                                                         *)
(* Bound to the code by the Shift events of C15 (ConeStep.tla ShiftOK):     *)
(* real cones, heads down to -1e20 next to ordinary tails.                  *)
(***************************************************************************)
EXTENDS Integers, FiniteSets, TLC

CONSTANTS Cones, Heads, Tails, R, Target, Recheck
VARIABLES pc, h, t, mm

vars == <<pc, h, t, mm>>
Abs(x) == IF x < 0 THEN -x ELSE x
Max2(a, b) == IF a > b THEN a ELSE b
Min(S) == CHOOSE x \in S : \A y \in S : x <= y
\* all results an addition a + b may round to
Sums(a, b) == LET u == Max2(Max2(Abs(a), Abs(b)), Abs(a + b)) \div R IN (a + b - u)..(a + b + u)
Margin(c) == h[c] - t[c]
MinMargin == Min({Margin(c) : c \in Cones})

Init == /\ pc = "margins" /\ mm = 0
        /\ h \in [Cones -> Heads] /\ t \in [Cones -> Tails]

ReadMargins == /\ pc = "margins" /\ mm' = MinMargin
               /\ pc' = IF MinMargin <= 0 THEN "shift1" ELSE IF MinMargin < Target THEN "top_up" ELSE "done"
               /\ UNCHANGED <<h, t>>
\* every head receives the same shift; each addition rounds on its own
ShiftAll(a, next) == /\ h' \in {g \in [Cones -> UNION {Sums(h[c], a) : c \in Cones}] : \A c \in Cones : g[c] \in Sums(h[c], a)}
                     /\ pc' = next /\ UNCHANGED <<t, mm>>
Shift1 == pc = "shift1" /\ ShiftAll(-mm, "shift2")
Shift2 == pc = "shift2" /\ ShiftAll(Target, IF Recheck THEN "reread" ELSE "done")
TopUp  == pc = "top_up" /\ ShiftAll(Target - mm, "done")
ReRead == /\ pc = "reread" /\ mm' = MinMargin
          /\ pc' = IF 2 * MinMargin < Target THEN "shift3" ELSE "done"
          /\ UNCHANGED <<h, t>>
Shift3 == pc = "shift3" /\ ShiftAll(Target - mm, "done")
Next == ReadMargins \/ Shift1 \/ Shift2 \/ TopUp \/ ReRead \/ Shift3 \/ (pc = "done" /\ UNCHANGED vars)
Spec == Init /\ [][Next]_vars /\ WF_vars(Next)

\* the target margin is representable next to this cone's own entries
Resolvable(c) == 2 * ((Max2(Abs(t[c]), Abs(t[c]) + Target)) \div R) < Target
\* F20's clause: a cone whose own entries are small ends strictly inside, whatever the other cones needed
Interior == pc = "done" => \A c \in Cones : (\A d \in Cones : Resolvable(d)) => Margin(c) > 0
Terminates == <>(pc = "done")
=============================================================================
