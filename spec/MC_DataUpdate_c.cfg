SPECIFICATION Spec
CONSTANTS
  Len_ <- LenSmall
  Blocked = "chordal"
  Versions <- V1
  MaxOps = 1
INVARIANTS UntouchedOnError BlockedFrozen TaintSound Emit
CHECK_DEADLOCK FALSE
