SPECIFICATION SpecTall
CONSTANTS
  N = 8
  MaxOps = 10
  AsFound = FALSE
INVARIANTS Correct Forest RankBound Emit
CHECK_DEADLOCK FALSE
