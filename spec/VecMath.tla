------------------------------ MODULE VecMath ------------------------------
(***************************************************************************)
(* The dense vector kernels of src/algebra/vecmath.rs (trait VectorMath),   *)
(* on which residuals, norms, step lengths and every scaling are built.     *)
(* Meaning of each operation over integer vectors; the recorder calls the   *)
(* real kernels on an enumeration of small integer inputs (exact in f64)    *)
(* and logs every result in quarter units (4 * value), so that the dyadic   *)
(* results of recip / rsqrt / mean stay integral and equality is exact.     *)
(* Not one of the listed properties: part of the specification's growth     *)
(* (run by ./check --extras).                                                *)
(***************************************************************************)
EXTENDS Integers, Sequences, FiniteSets, TLC, Json, IOUtils

Q == 4
Abs(a) == IF a < 0 THEN -a ELSE a
Max2(a, b) == IF a >= b THEN a ELSE b
Min2(a, b) == IF a <= b THEN a ELSE b
RECURSIVE FoldI(_, _, _, _)
FoldI(op(_, _), acc, f(_), n) == IF n = 0 THEN acc ELSE op(FoldI(op, acc, f, n - 1), f(n))
Plus(a, b) == a + b
SumOf(f(_), n) == FoldI(Plus, 0, f, n)
MaxOf(f(_), n) == FoldI(Max2, 0, f, n)              \* for non-negative terms

\* e.res and e.out are in quarter units; INF / -INF / NAN are logged as strings
ScalarOK(e) ==
  LET x == e.x  n == Len(e.x) IN
  CASE e.op = "sum"       -> e.res = Q * SumOf(LAMBDA i : x[i], n)
    [] e.op = "sumsq"     -> e.res = Q * SumOf(LAMBDA i : x[i] * x[i], n)
    [] e.op = "norm_one"  -> e.res = Q * SumOf(LAMBDA i : Abs(x[i]), n)
    [] e.op = "norm_inf"  -> e.res = Q * MaxOf(LAMBDA i : Abs(x[i]), n)
    [] e.op = "minimum"   -> IF n = 0 THEN e.res = "inf" ELSE e.res = Q * (CHOOSE v \in {x[i] : i \in 1..n} : \A i \in 1..n : v <= x[i])
    [] e.op = "maximum"   -> IF n = 0 THEN e.res = "-inf" ELSE e.res = Q * (CHOOSE v \in {x[i] : i \in 1..n} : \A i \in 1..n : v >= x[i])
    [] e.op = "mean"      -> IF n = 0 THEN e.res = 0 ELSE e.res * n = Q * SumOf(LAMBDA i : x[i], n)
    [] e.op = "norm"      -> e.res >= 0 /\ e.res * e.res = Q * Q * SumOf(LAMBDA i : x[i] * x[i], n)
    [] e.op = "normalize" -> /\ e.res >= 0 /\ e.res * e.res = Q * Q * SumOf(LAMBDA i : x[i] * x[i], n)
                             /\ (e.res = 0 => e.out = [i \in 1..n |-> Q * x[i]])       \* a zero vector is left alone
    [] e.op = "is_finite" -> e.res = TRUE
    [] e.op = "dot"             -> e.res = Q * SumOf(LAMBDA i : x[i] * e.y[i], n)
    [] e.op = "dist"            -> e.res >= 0 /\ e.res * e.res = Q * Q * SumOf(LAMBDA i : (x[i] - e.y[i]) * (x[i] - e.y[i]), n)
    [] e.op = "norm_scaled"     -> e.res >= 0 /\ e.res * e.res = Q * Q * SumOf(LAMBDA i : x[i] * e.y[i] * x[i] * e.y[i], n)
    [] e.op = "norm_inf_scaled" -> e.res = Q * MaxOf(LAMBDA i : Abs(x[i] * e.y[i]), n)
    [] e.op = "norm_one_scaled" -> e.res = Q * SumOf(LAMBDA i : Abs(x[i] * e.y[i]), n)
    [] e.op = "norm_inf_diff"   -> e.res = Q * MaxOf(LAMBDA i : Abs(x[i] - e.y[i]), n)
    \* <s + a ds, z + a dz>
    [] e.op = "dot_shifted"     -> e.res = Q * SumOf(LAMBDA i : (e.s[i] + e.a * e.ds[i]) * (e.z[i] + e.a * e.dz[i]), Len(e.s))
    [] OTHER -> FALSE

Clip(v, lo, hi) == IF v < lo THEN lo ELSE IF v > hi THEN hi ELSE v
IsSqrtOf(r4, v) == r4 >= 0 /\ r4 * r4 = Q * Q * v                  \* r4/4 = sqrt(v)
VectorOK(e) ==
  LET x == e.x  n == Len(e.x)  o == e.out IN
  /\ Len(o) = (IF e.op = "select" THEN Cardinality({i \in 1..n : e.mask[i]}) ELSE n)
  /\ CASE e.op = "translate" -> \A i \in 1..n : o[i] = Q * (x[i] + e.c)
       [] e.op = "set"       -> \A i \in 1..n : o[i] = Q * e.c
       [] e.op = "scale"     -> \A i \in 1..n : o[i] = Q * (x[i] * e.c)
       [] e.op = "negate"    -> \A i \in 1..n : o[i] = Q * (-x[i])
       [] e.op = "clip"      -> \A i \in 1..n : o[i] = Q * Clip(x[i], e.lo, e.hi)
       [] e.op = "recip"     -> \A i \in 1..n : o[i] * x[i] = Q                 \* o/4 = 1/x
       [] e.op = "sqrt"      -> \A i \in 1..n : IsSqrtOf(o[i], x[i])
       [] e.op = "rsqrt"     -> \A i \in 1..n : o[i] > 0 /\ o[i] * o[i] * x[i] = Q * Q
       [] e.op = "scalarop"  -> \A i \in 1..n : o[i] = Q * (2 * x[i] + 1)
       [] e.op = "hadamard"  -> \A i \in 1..n : o[i] = Q * (x[i] * e.y[i])
       [] e.op = "axpby"     -> \A i \in 1..n : o[i] = Q * (e.a * e.y[i] + e.b * x[i])     \* self = a*y + b*self
       [] e.op = "waxpby"    -> \A i \in 1..n : o[i] = Q * (e.a * e.y[i] + e.b * e.w[i])
       [] e.op = "copy_from" -> \A i \in 1..n : o[i] = Q * e.y[i]
       [] e.op = "scalarop_from" -> \A i \in 1..n : o[i] = Q * (2 * e.y[i] + 1)
       [] e.op = "select"    -> LET idx == {i \in 1..n : e.mask[i]}
                                    rank(i) == Cardinality({j \in idx : j <= i})
                                IN \A i \in idx : o[rank(i)] = Q * x[i]
       [] OTHER -> FALSE

\* non-finite inputs: the answers the callers rely on
SpecialOK(e) ==
  CASE e.op = "norm_inf_nan"  -> e.res = "nan"           \* a NaN anywhere gives NaN (not silently skipped by max)
    [] e.op = "is_finite_bad" -> e.res = FALSE
    [] OTHER -> FALSE

EventOK(e) == IF "panic" \in DOMAIN e THEN FALSE
              ELSE IF e.kind = "scalar" THEN ScalarOK(e)
              ELSE IF e.kind = "vector" THEN VectorOK(e)
              ELSE SpecialOK(e)

Rec == ndJsonDeserialize(IOEnv.TRACE)
VARIABLES l, bad
Next == /\ l <= Len(Rec) /\ l' = l + 1
        /\ bad' = IF EventOK(Rec[l]) \/ Len(bad) >= 40 THEN bad ELSE Append(bad, l)
Spec == l = 1 /\ bad = <<>> /\ [][Next]_<<l, bad>>
Export == (l = Len(Rec) + 1) => (TLCSet(1, Len(bad)) /\ (bad # <<>> => PrintT("BAD-EVENTS " \o ToString(bad))))
TraceAccepted ==
  LET n == TLCGet("stats").diameter - 1 IN
  IF n = Len(Rec) /\ TLCGet(1) = 0 THEN TRUE
  ELSE PrintT(<<"TRACE-REJECTED at event", n + 1, "of", Len(Rec)>>) /\ FALSE
=============================================================================
