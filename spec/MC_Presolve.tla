----------------------------- MODULE MC_Presolve -----------------------------
EXTENDS Presolve
C(k, d) == [k |-> k, d |-> d]
Menu_quick == {C("Zero", 0), C("Zero", 1), C("NN", 0), C("NN", 1), C("NN", 2), C("SOC", 1), C("SOC", 2),
               C("Exp", 3), C("PSD", 1), C("PSD", 3)}
Menu_full  == Menu_quick \cup {C("Zero", 2), C("NN", 3), C("SOC", 3), C("Pow", 3), C("GenPow", 3)}
B_two   == {"fin", "huge"}
B_neg   == {"fin", "huge", "neg"}          \* "neg": at or below minus the bound - a genuine constraint, never dropped
B_three == {"fin", "big", "huge"}
Bnd_none == {}
Bnd_one == {"1e10"}
Bnd_two == {"1e10", "1e20"}
=============================================================================
