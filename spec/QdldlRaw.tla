------------------------------ MODULE QdldlRaw ------------------------------
(***************************************************************************)
(* Input validation of QDLDLFactorisation::new on the raw column-compressed *)
(* encoding (complements Qdldl.tla, whose matrices are upper triangular by   *)
(* construction): any dimensions, any set of stored positions including      *)
(* positions below the diagonal, columns stored with ascending or descending *)
(* row indices (the engine does not require sorted columns; its own permuted *)
(* copy is unsorted).  The model decides the structural error, in the order  *)
(* in which the engine checks; every input is replayed into the real engine. *)
(***************************************************************************)
EXTENDS Integers, Sequences, SequencesExt, FiniteSets, TLC, Json

CONSTANT MaxDim
VARIABLES rows, cols, ent, order
rvars == <<rows, cols, ent, order>>

Pos(r, c) == (1..r) \X (1..c)
Init == /\ rows \in 1..MaxDim /\ cols \in 1..MaxDim
        /\ ent \in SUBSET Pos(rows, cols)
        /\ order \in {"asc", "desc"}
Next == UNCHANGED rvars
Spec == Init /\ [][Next]_rvars

StructErr ==
  IF rows # cols THEN "IncompatibleDimension"
  ELSE IF \E e \in ent : e[1] > e[2] THEN "NotUpperTriangular"
  ELSE IF \E j \in 1..cols : ~\E e \in ent : e[2] = j THEN "EmptyColumn"
  ELSE "none"

ColRows(j) == LET asc == SetToSortSeq({e[1] : e \in {x \in ent : x[2] = j}}, LAMBDA a, b : a < b)
              IN IF order = "asc" THEN asc ELSE Reverse(asc)

\* sanity of the model itself: an accepted input is square, upper triangular and has no empty column
AcceptedIsWellFormed == StructErr = "none" => (rows = cols /\ \A e \in ent : e[1] <= e[2] /\ \A j \in 1..cols : ColRows(j) # <<>>)

Emit == PrintT(<<"REPLAY", ToJson([kind |-> "raw", n |-> cols, rows |-> rows, cols |-> cols, order |-> order,
                                   colrows |-> [j \in 1..cols |-> ColRows(j)], err |-> StructErr])>>)
=============================================================================
