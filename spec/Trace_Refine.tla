---------------------------- MODULE Trace_Refine ----------------------------
(* impl -> spec for Refine.tla: every real KKT solve is one KKTSolve event carrying the refinement steps logged by
   the hook.  Each decision of the loop is re-derived with the shared table of RefineRules.tla from the logged norms
   (FloatOrd comparisons); the residual of the vector handed back is bound to an independent one computed by the
   observer from the KKT view (the copy that C11 shows to carry no regularisation). *)
EXTENDS Integers, Sequences, FiniteSets, TLC, FloatOrd, Json, IOUtils, RefineRules

Rec == ndJsonDeserialize(IOEnv.TRACE)

RECURSIVE CurAt(_, _)
CurAt(e, i) == IF i = 0 THEN e.norme0
               ELSE IF e.steps[i].swapped THEN e.steps[i].norme ELSE CurAt(e, i - 1)

StepOK(e, i) ==
  LET s == e.steps[i]
      prev == CurAt(e, i - 1)
      last == i = Len(e.steps) IN
  /\ FSame(s.last, prev)                                  \* the loop compares against the vector it holds
  /\ LoopDecision(i <= e.maxiter, FLe(prev, e.thr)) = "refine"   \* budget left and not yet below the threshold
  /\ LET o == StepOutcome(IsFinite(s.norme), FLt(s.ratio, e.stopratio), FGt(s.ratio, FOne)) IN
     /\ s.swapped = Swaps(o)
     /\ s.brk = (Stops(o) /\ o # "fail")                  \* a non-finite candidate returns at once (logged with brk = FALSE)
     /\ Stops(o) => last
     /\ o = "fail" => ~e.end_ok
     /\ o # "fail" =>
          /\ FGt(s.ratio, FOne) => FGt(s.last, s.norme)   \* the ratio is last / norme
          /\ FGt(s.last, s.norme) => FGe(s.ratio, FOne)
          /\ FLe(CurAt(e, i), prev)                       \* the held vector never gets worse (stopratio >= 1)

RefinedOK(e) ==
  LET n == Len(e.steps)
      fin == CurAt(e, n) IN
  /\ e.has_start
  /\ IF ~IsFinite(e.norme0) THEN n = 0 /\ ~e.end_ok /\ ~e.ok
     ELSE /\ \A i \in 1..n : StepOK(e, i)
          /\ e.ok = e.end_ok
          /\ e.converged => (FLe(fin, e.thr) /\ n < e.maxiter /\ (n > 0 => ~e.steps[n].brk))
          /\ (e.end_ok /\ ~e.converged /\ (n = 0 \/ ~e.steps[n].brk)) => n = e.maxiter
          \* the residual of the vector handed back, recomputed from the KKT view by the observer
          /\ e.end_ok => (FLe(e.obs_lo, fin) /\ FLe(fin, e.obs_hi))
          /\ e.end_ok => e.x_finite

PlainOK(e) == /\ ~e.has_start /\ Len(e.steps) = 0
              /\ e.ok <=> e.x_finite                      \* refinement disabled: success = finite result

SolveOK(e) == /\ e.thr_ok                                  \* threshold = abstol + reltol * ||b||, as logged
              /\ IF e.ir_enabled THEN RefinedOK(e) ELSE PlainOK(e)

\* the factors are those of K + eps * diag(recorded signs): without refinement, b - K x0 = eps * S x0 row by row
RegOK(e) == \A i \in 1..Len(e.rows) : FLe(e.rows[i][2], e.rows[i][1]) /\ FLe(e.rows[i][1], e.rows[i][3])

EventOK(e) == IF e.ev = "KKTSolve" THEN SolveOK(e) ELSE IF e.ev = "KKTReg" THEN RegOK(e) ELSE FALSE

VARIABLES l, bad
TNext == /\ l <= Len(Rec) /\ l' = l + 1
         /\ bad' = IF EventOK(Rec[l]) \/ Len(bad) >= 40 THEN bad ELSE Append(bad, l)
TSpec == l = 1 /\ bad = <<>> /\ [][TNext]_<<l, bad>>
Export == (l = Len(Rec) + 1) => (TLCSet(1, Len(bad)) /\ (bad # <<>> => PrintT("BAD-EVENTS " \o ToString(bad))))
TraceAccepted ==
  LET n == TLCGet("stats").diameter - 1 IN
  IF n = Len(Rec) /\ TLCGet(1) = 0 THEN TRUE
  ELSE PrintT(<<"TRACE-REJECTED at event", n + 1, "of", Len(Rec)>>) /\ FALSE
=============================================================================
