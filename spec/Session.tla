------------------------------ MODULE Session ------------------------------
(***************************************************************************)
(* One solver object through its public life: solve, in-place data updates, *)
(* edits of the public settings, print-buffer selection, save to a file and  *)
(* load into a second object - in every order.  The listed properties treat  *)
(* these one API at a time (C08 updates, C19 files, C20 output, C04 limits,  *)
(* C05 repeated solves); this model is about their interleavings, which is   *)
(* where the defects F16 and F17 were found.                                 *)
(*                                                                         *)
(* Abstract state: the data versions in force (q, b), the iteration budget,  *)
(* verbosity, whether the buffer target is selected and how many complete    *)
(* logs it holds, what the last solve saw, and what a saved file contains.   *)
(* Every behaviour of MaxLen steps is exported and replayed on real solver   *)
(* objects; after each step the replayer compares what the model says the    *)
(* API must show (spec -> impl).                                             *)
(***************************************************************************)
EXTENDS Integers, Sequences, FiniteSets, TLC, Json

CONSTANTS MaxLen, QVers, BVers, Budgets      \* e.g. {1,2}, {1}, {0, 200}
VARIABLES qv, bv, budget, verbose, buffering, buflogs, last, file, hist
vars == <<qv, bv, budget, verbose, buffering, buflogs, last, file, hist>>

None == [kind |-> "none"]
Init == /\ qv = 0 /\ bv = 0 /\ budget = 200 /\ verbose = FALSE /\ buffering = FALSE /\ buflogs = 0
        /\ last = None /\ file = None /\ hist = <<>>

Open == Len(hist) < MaxLen
\* what a solve of the current object must report
Outcome == [kind |-> "solved", qv |-> qv, bv |-> bv, limited |-> budget = 0, budget |-> budget]

Solve == /\ Open
         /\ last' = Outcome
         /\ buflogs' = IF buffering /\ verbose THEN buflogs + 1 ELSE buflogs
         /\ hist' = Append(hist, [op |-> "solve", expect |-> Outcome, buflogs |-> buflogs'])
         /\ UNCHANGED <<qv, bv, budget, verbose, buffering, file>>
UpdQ(v) == /\ Open /\ qv' = v /\ hist' = Append(hist, [op |-> "update_q", v |-> v])
           /\ UNCHANGED <<bv, budget, verbose, buffering, buflogs, last, file>>
UpdB(v) == /\ Open /\ bv' = v /\ hist' = Append(hist, [op |-> "update_b", v |-> v])
           /\ UNCHANGED <<qv, budget, verbose, buffering, buflogs, last, file>>
SetBudget(k) == /\ Open /\ budget' = k /\ hist' = Append(hist, [op |-> "max_iter", k |-> k])
                /\ UNCHANGED <<qv, bv, verbose, buffering, buflogs, last, file>>
SetVerbose(v) == /\ Open /\ verbose' = v /\ hist' = Append(hist, [op |-> "verbose", v |-> v])
                 /\ UNCHANGED <<qv, bv, budget, buffering, buflogs, last, file>>
\* print_to_buffer: selects the buffer and starts an empty one
SelectBuffer == /\ Open /\ buffering' = TRUE /\ buflogs' = 0
                /\ hist' = Append(hist, [op |-> "print_to_buffer", buflogs |-> 0])
                /\ UNCHANGED <<qv, bv, budget, verbose, last, file>>
\* save_to_file: the file holds the data and the settings now in force (not those of the last solve)
Save == /\ Open /\ file' = [kind |-> "file", qv |-> qv, bv |-> bv, budget |-> budget, verbose |-> verbose]
        /\ hist' = Append(hist, [op |-> "save"])
        /\ UNCHANGED <<qv, bv, budget, verbose, buffering, buflogs, last>>
\* load_from_file into a second object and solve it: it behaves as a fresh solver on the saved data and settings;
\* the first object is not affected
LoadSolve == /\ Open /\ file.kind = "file"
             /\ hist' = Append(hist, [op |-> "load_solve",
                                      expect |-> [kind |-> "solved", qv |-> file.qv, bv |-> file.bv, limited |-> file.budget = 0, budget |-> file.budget],
                                      verbose |-> file.verbose])
             /\ UNCHANGED <<qv, bv, budget, verbose, buffering, buflogs, last, file>>

Next == Solve \/ (\E v \in QVers : UpdQ(v)) \/ (\E v \in BVers : UpdB(v)) \/ (\E k \in Budgets : SetBudget(k))
        \/ (\E v \in BOOLEAN : SetVerbose(v)) \/ SelectBuffer \/ Save \/ LoadSolve
Spec == Init /\ [][Next]_vars

\* properties of the model itself
\* what the last solve reported is about data that were in force when it ran: it goes stale only through later updates
FileIsSnapshot == file.kind = "file" => (file.qv \in QVers \cup {0} /\ file.bv \in BVers \cup {0})
BufferOnlyWhenSelected == ~buffering => buflogs = 0

Emit == (Len(hist) = MaxLen) => PrintT(<<"REPLAY", ToJson([hist |-> hist])>>)
=============================================================================
