SPECIFICATION Spec
CONSTANTS
  N = 4
  DiagVals <- Diag_pm
  OffVals <- Off_x
  PermSet <- Perms_two
  SignSet <- Signs_quasi
  RegSet <- Reg_both
  LogicalSet <- Logical_no
  MaxOps = 0
INVARIANTS FactorisationExact RegularisedPivots NoZeroPivot EmitNew
CHECK_DEADLOCK FALSE
