------------------------------- MODULE Chordal -------------------------------
(***************************************************************************)
(* C17: the chordal analysis of a PSD sparsity pattern yields a valid       *)
(* clique tree.  Validity predicates on the tree returned by the real       *)
(* analysis (SparsityPattern::new through a read-only wrapper), evaluated   *)
(* by TLC on every recorded `Analysed` event:                               *)
(*   Partition  the supernodes partition the vertices                        *)
(*   Tree       exactly one root; parents are active cliques; the post-order *)
(*              lists every active clique once, children before parents      *)
(*   Sep        a clique's separator is its intersection with its parent     *)
(*   RIP        running intersection: the cliques containing a vertex form   *)
(*              a connected subtree                                          *)
(*   Cover      every structural nonzero (edge) lies inside some clique      *)
(*   Blk        block sizes are the clique cardinalities in post-order       *)
(*   Consecutive the vertices of each supernode are consecutive integers     *)
(* A panic or a hang is an event with no explanation in this specification.  *)
(***************************************************************************)
EXTENDS Integers, Sequences, FiniteSets, Json, IOUtils, TLC

Rec == ndJsonDeserialize(IOEnv.TRACE)
SeqSet(s) == {s[i] : i \in 1..Len(s)}

Valid(e) ==
  LET Act == SeqSet(e.post)                         \* active cliques (0-based ids)
      Sn(c) == SeqSet(e.snode[c + 1])
      Sp(c) == SeqSet(e.sep[c + 1])
      Cl(c) == Sn(c) \cup Sp(c)
      Par(c) == e.parent[c + 1]
      V == 0..(e.n - 1)
      Pos(c) == CHOOSE i \in 1..Len(e.post) : e.post[i] = c
      \* ordering[k] = original vertex placed at position k
      Inv(v) == (CHOOSE k \in 1..Len(e.ordering) : e.ordering[k] = v) - 1
      Holders(v) == {c \in Act : v \in Cl(c)}
  IN
  /\ e.ncliques >= 1
  /\ Len(e.post) = e.ncliques /\ Cardinality(Act) = e.ncliques
  /\ SeqSet(e.ordering) = V /\ Len(e.ordering) = e.n                              \* ordering is a permutation
  /\ \A c \in Act : c \in 0..(Len(e.snode) - 1) /\ Sn(c) # {}
  /\ \A v \in V : Cardinality({c \in Act : v \in Sn(c)}) = 1                       \* Partition
  /\ \A c \in 0..(Len(e.snode) - 1) : c \notin Act => Par(c) = -2                  \* merged-away cliques are marked
  /\ Cardinality({c \in Act : Par(c) = -1}) = 1                                    \* one root
  /\ \A c \in Act : Par(c) # -1 => (Par(c) \in Act /\ Pos(c) < Pos(Par(c)))        \* Tree, post-order
  /\ \A c \in Act : Sp(c) = (IF Par(c) = -1 THEN {} ELSE Cl(c) \cap Cl(Par(c)))    \* Sep
  /\ \A c \in Act : Sn(c) \cap Sp(c) = {}
  /\ \A i \in 1..Len(e.post) : e.nblk[i] = Cardinality(Cl(e.post[i]))              \* Blk
  /\ Len(e.nblk) = e.ncliques
  /\ \A k \in 1..Len(e.edges) :                                                    \* Cover
        \E c \in Act : {Inv(e.edges[k][1]), Inv(e.edges[k][2])} \subseteq Cl(c)
  /\ \A v \in V :                                                                  \* RIP
        Cardinality({c \in Holders(v) : Par(c) = -1 \/ Par(c) \notin Holders(v)}) = 1
  /\ \A c \in Act : \A a, b \in Sn(c) : a < b => \A x \in a..b : x \in Sn(c)       \* Consecutive

\* a pattern that merges into one clique is left undecomposed (the caller discards the tree): only
\* the clique itself is constrained then
Single(e) == /\ Len(e.post) = 1
             /\ SeqSet(e.snode[e.post[1] + 1]) = 0..(e.n - 1)
             /\ SeqSet(e.ordering) = 0..(e.n - 1) /\ Len(e.ordering) = e.n

\* The analysis as held by a constructed solver with one or several decomposed cones: the augmented problem has one PSD
\* block per clique of every tree.  Compact transformation: its rows are the other cones' rows plus the blocks' triangles.
\* Standard transformation: the original rows as an equality block, then the same.
Tri(k) == (k * (k + 1)) \div 2
RECURSIVE SumTri(_, _)
SumTri(b, i) == IF i > Len(b) THEN 0 ELSE Tri(b[i]) + SumTri(b, i + 1)
RECURSIVE SumAll(_, _)
SumAll(bs, t) == IF t > Len(bs) THEN 0 ELSE SumTri(bs[t], 1) + SumAll(bs, t + 1)
RECURSIVE CountAll(_, _)
CountAll(bs, t) == IF t > Len(bs) THEN 0 ELSE Len(bs[t]) + CountAll(bs, t + 1)
BuiltOK(e) ==
  /\ Len(e.nblk) >= 1
  /\ \A t \in 1..Len(e.nblk) : Len(e.nblk[t]) >= 2                              \* a tree is kept only if it really splits its cone
  /\ IF e.compact THEN /\ e.m2 = e.other_rows + SumAll(e.nblk, 1)
                        /\ e.ncones2 = e.other_cones + CountAll(e.nblk, 1)
     ELSE /\ e.m2 = e.m + e.other_rows + SumAll(e.nblk, 1)
          /\ e.ncones2 = 1 + e.other_cones + CountAll(e.nblk, 1)

\* Without merging, exactly the PSD cones (dimension > 3) whose own pattern splits into several cliques are decomposed -
\* whatever other cones stand next to them (`expected` comes from the analysis of each cone's pattern on its own).
DecomposedOK(e) == e.trees = e.expected

EventOK(e) == IF e.ev = "Built" THEN BuiltOK(e)
              ELSE IF e.ev = "Decomposed" THEN DecomposedOK(e)
              ELSE e.ev = "Analysed" /\ (IF e.ncliques = 1 THEN Single(e) ELSE Valid(e))

VARIABLES l, bad
Next == /\ l <= Len(Rec) /\ l' = l + 1
        /\ bad' = IF EventOK(Rec[l]) \/ Len(bad) >= 40 THEN bad ELSE Append(bad, l)
Spec == l = 1 /\ bad = <<>> /\ [][Next]_<<l, bad>>
Export == (l = Len(Rec) + 1) => (TLCSet(1, Len(bad)) /\ (bad # <<>> => PrintT("BAD-EVENTS " \o ToString(bad))))
TraceAccepted ==
  LET n == TLCGet("stats").diameter - 1 IN
  IF n = Len(Rec) /\ TLCGet(1) = 0 THEN TRUE
  ELSE PrintT(<<"TRACE-REJECTED at event", n + 1, "of", Len(Rec)>>) /\ FALSE
=============================================================================
