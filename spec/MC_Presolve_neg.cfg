SPECIFICATION Spec
CONSTANTS
  ConeMenu <- Menu_quick
  MaxCones = 2
  MaxM = 3
  BClasses <- B_neg
  Bounds <- Bnd_none
INVARIANTS DropRule ReducedConsistent CollapsePreservesRows Emit
PROPERTY BoundFrozen
CHECK_DEADLOCK FALSE
