SPECIFICATION Spec
CONSTANTS
  N = 64
  Guard = FALSE
INVARIANTS Exact FewSteps
PROPERTIES Monotone Terminates
