----------------------------- MODULE Trace_Csc -----------------------------
(* impl -> spec: every recorded call of a CscMatrix operation, with its full (tiny) input and
   output encodings, must satisfy the operation's specification in Csc.tla.  Calls are
   independent, so a failing call is recorded (up to 40 per shard) and validation continues. *)
EXTENDS Csc, Json, IOUtils

Rec == ndJsonDeserialize(IOEnv.TRACE)
VARIABLES l, bad
Next == /\ l <= Len(Rec) /\ l' = l + 1
        /\ bad' = IF CheckOp(Rec[l]) \/ Len(bad) >= 40 THEN bad ELSE Append(bad, l)
Spec == l = 1 /\ bad = <<>> /\ [][Next]_<<l, bad>>
Export == (l = Len(Rec) + 1) => (TLCSet(1, Len(bad)) /\ (bad # <<>> => PrintT("BAD-EVENTS " \o ToString(bad))))
TraceAccepted ==
  LET n == TLCGet("stats").diameter - 1 IN
  IF n = Len(Rec) /\ TLCGet(1) = 0 THEN TRUE
  ELSE PrintT(<<"TRACE-REJECTED at event", n + 1, "of", Len(Rec)>>) /\ FALSE
=============================================================================
