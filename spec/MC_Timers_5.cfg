SPECIFICATION Spec
CONSTANTS
  Keys = {"a", "b"}
  MaxDepth = 2
  MaxOps = 5
INVARIANTS StackWellFormed Emit
PROPERTIES Monotone OnlyStopSuspendCommit
CHECK_DEADLOCK FALSE
