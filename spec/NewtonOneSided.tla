--------------------------- MODULE NewtonOneSided ---------------------------
(***************************************************************************)
(* The one-sided Newton-Raphson iteration behind the primal gradient of the *)
(* power cones (newton_raphson_onesided), at the level of ORDER only.       *)
(*                                                                         *)
(* f is decreasing and convex on x > 0 with a single root Root (f = +inf at *)
(* 0).  On the grid 1..N the sign of f at x is the sign of Root - x.  A     *)
(* Newton step from the left of the root of a convex decreasing function    *)
(* never passes the root and closes at least half of the gap (tangent below *)
(* the graph; second-order convergence is not needed for the argument); a   *)
(* Newton step from the right is negative, and the iteration "halts as soon *)
(* as a negative step is met", returning its current point.                 *)
(*                                                                         *)
(* Guard = FALSE is the code as first read: the closed-form start X0 may    *)
(* lie on either side.  TLC shows what F18 was: whenever X0 > Root the      *)
(* starting guess itself is returned (MC_Newton_neg.cfg must FAIL Exact).   *)
(* Guard = TRUE is the repaired code: the start is halved until f > 0, and  *)
(* the root is returned from every start (MC_Newton.cfg).                   *)
(*                                                                         *)
(* Bound to the code by C14's conjugate_map / primal_grad_is_derivative     *)
(* identities (ConeBarrier.tla): the returned point is the root exactly     *)
(* when the conjugate map closes.                                           *)
(***************************************************************************)
EXTENDS Integers, TLC
CONSTANTS N, Guard
VARIABLES pc, x, root, iters
vars == <<pc, x, root, iters>>

FPos(y) == y < root            \* f(y) > 0
Init == /\ pc = (IF Guard THEN "guard" ELSE "newton") /\ iters = 0
        /\ root \in 1..N /\ x \in 1..N
\* the repair: pull the start towards zero until it is on the left of the root (f(0+) = +inf: terminates)
Halve == /\ pc = "guard"
         /\ IF FPos(x) \/ x = root THEN pc' = "newton" /\ UNCHANGED x
            ELSE x' = (IF x = 1 THEN 1 ELSE x \div 2) /\ pc' = (IF x = 1 THEN "newton" ELSE "guard")
         /\ UNCHANGED <<root, iters>>
\* one Newton step
Step == /\ pc = "newton"
        /\ IF x = root THEN pc' = "done" /\ UNCHANGED <<x, iters>>                         \* step below the tolerance
           ELSE IF ~FPos(x) THEN pc' = "done" /\ UNCHANGED <<x, iters>>                    \* negative step: halt where we are
           ELSE /\ \E y \in (x + 1)..root : 2 * (root - y) <= root - x /\ x' = y            \* stays left, halves the gap at least
                /\ iters' = iters + 1 /\ UNCHANGED pc
        /\ UNCHANGED root
Next == Halve \/ Step \/ (pc = "done" /\ UNCHANGED vars)
Spec == Init /\ [][Next]_vars /\ WF_vars(Next)

Exact     == pc = "done" => x = root               \* the value handed back is the root
Monotone  == [][pc = "newton" /\ pc' = "newton" => x' >= x]_vars
FewSteps  == iters <= 8                             \* log2(N) + 1 with N <= 128
Terminates == <>(pc = "done")
=============================================================================
