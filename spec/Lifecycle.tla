------------------------------ MODULE Lifecycle ------------------------------
(* C05, design level: solver objects on concurrent threads share exactly one piece of mutable state,
   the module-level infinity bound, which DefaultSolver::new reads at two separate steps. *)
EXTENDS Integers, Sequences, FiniteSets, TLC
-----------------------------------------------------------------------------
(* design level *)
CONSTANTS Threads, InfVals

VARIABLES inf, pc, readP, readC, sets
lvars == <<inf, pc, readP, readC, sets>>

LInit == /\ inf = "d" /\ pc = [t \in Threads |-> "idle"]
         /\ readP = [t \in Threads |-> "none"] /\ readC = [t \in Threads |-> "none"] /\ sets = 0

SetInf(t, v) == /\ sets < 2 /\ inf' = v /\ sets' = sets + 1 /\ UNCHANGED <<pc, readP, readC>>
\* DefaultSolver::new: Presolver::new reads the bound ...
NewReadPresolve(t) == /\ pc[t] = "idle" /\ readP' = [readP EXCEPT ![t] = inf]
                      /\ pc' = [pc EXCEPT ![t] = "mid"] /\ UNCHANGED <<inf, readC, sets>>
\* ... and DefaultProblemData::new reads it again when capping b
NewReadCap(t) == /\ pc[t] = "mid" /\ readC' = [readC EXCEPT ![t] = inf]
                 /\ pc' = [pc EXCEPT ![t] = "built"] /\ UNCHANGED <<inf, readP, sets>>
Solve(t) == /\ pc[t] = "built" /\ pc' = [pc EXCEPT ![t] = "done"] /\ UNCHANGED <<inf, readP, readC, sets>>

LNext == \E t \in Threads : NewReadPresolve(t) \/ NewReadCap(t) \/ Solve(t) \/ \E v \in InfVals : SetInf(t, v)
LSpec == LInit /\ [][LNext]_lvars

\* a solver's result is Result(data, settings, readP, readC): once built, nothing any thread does changes it
Frozen == [][\A t \in Threads : pc[t] \in {"built", "done"} => (readP'[t] = readP[t] /\ readC'[t] = readC[t])]_lvars
\* without an intervening set_infinity the two reads agree (the API gives no atomicity otherwise)
NoRaceNoSplit == \A t \in Threads : (pc[t] \in {"built", "done"} /\ sets = 0) => readP[t] = readC[t]
\* if nobody ever calls set_infinity all solvers see the default, whatever the interleaving
DefaultSeen == sets = 0 => \A t \in Threads : readP[t] \in {"none", "d"} /\ readC[t] \in {"none", "d"}

=============================================================================
