---------------------------- MODULE FloatOrd ----------------------------
(***************************************************************************)
(* IEEE-754 binary64 values as they appear in traces: a 4-tuple            *)
(*    <<nan, hi, mid, lo>>                                                 *)
(* where nan = 1 for NaN and otherwise <<hi,mid,lo>> are the 22/21/21-bit   *)
(* limbs of the bit pattern mapped monotonically to an unsigned integer     *)
(* (sign bit flipped for non-negative values, all bits flipped for          *)
(* negative ones; -0.0 is canonicalised to +0.0 by the encoder).  Every     *)
(* comparison the solver makes on floats is then an exact integer           *)
(* comparison that TLC evaluates; no floating-point arithmetic is needed.   *)
(***************************************************************************)
EXTENDS Naturals, Integers

IsNaN(a)  == a[1] = 1

LexLt(a, b) == \/ a[2] < b[2]
               \/ (a[2] = b[2] /\ a[3] < b[3])
               \/ (a[2] = b[2] /\ a[3] = b[3] /\ a[4] < b[4])
LexEq(a, b) == a[2] = b[2] /\ a[3] = b[3] /\ a[4] = b[4]

\* IEEE semantics: every ordered comparison involving a NaN is false
FLt(a, b) == ~IsNaN(a) /\ ~IsNaN(b) /\ LexLt(a, b)
FGt(a, b) == FLt(b, a)
FLe(a, b) == ~IsNaN(a) /\ ~IsNaN(b) /\ ~LexLt(b, a)
FGe(a, b) == FLe(b, a)
FEq(a, b) == ~IsNaN(a) /\ ~IsNaN(b) /\ LexEq(a, b)
\* same bit pattern up to the NaN payload and the sign of zero
FSame(a, b) == (IsNaN(a) /\ IsNaN(b)) \/ FEq(a, b)

\* encodings of a few constants (computed once: +0.0 -> 0x8000000000000000)
FZero == <<0, 2097152, 0, 0>>
FOne  == <<0, 3144704, 0, 0>>      \* 0x3FF0000000000000 ^ 0x8000000000000000 = 0xBFF0...
FPosInf == <<0, 4193280, 0, 0>>   \* 0x7FF0... ^ 0x8000... = 0xFFF0...
FNegInf == <<0, 1023, 2097151, 2097151>>

IsPos(a)     == FGt(a, FZero)
IsNeg(a)     == FLt(a, FZero)
IsFinite(a)  == ~IsNaN(a) /\ LexLt(a, FPosInf) /\ LexLt(FNegInf, a)

FMax(a, b) == IF FGt(a, b) THEN a ELSE b   \* as Rust's f64::max for non-NaN arguments
FMin(a, b) == IF FLt(a, b) THEN a ELSE b

\* "a and b are at most k units in the last place apart" for k < 2^20, written so
\* that no intermediate exceeds TLC's 32-bit integers
AbsLe(x, y, k) == (x - y <= k) /\ (y - x <= k)
UlpUp(a, b, k) ==   \* a >= b, crossing at most one limb boundary
    \/ (a[2] = b[2] /\ a[3] = b[3] /\ a[4] >= b[4] /\ a[4] - b[4] <= k)
    \/ (a[2] = b[2] /\ a[3] = b[3] + 1 /\ (a[4] + 2097152) - b[4] <= k)
    \/ (a[2] = b[2] + 1 /\ a[3] = 0 /\ b[3] = 2097151 /\ (a[4] + 2097152) - b[4] <= k)
UlpWithin(a, b, k) == ~IsNaN(a) /\ ~IsNaN(b) /\ (UlpUp(a, b, k) \/ UlpUp(b, a, k))
=============================================================================
