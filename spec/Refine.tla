------------------------------- MODULE Refine -------------------------------
(***************************************************************************)
(* One solve of the KKT system by DirectLDLKKTSolver: a direct solve with   *)
(* the (regularised) factors followed by iterative refinement against the   *)
(* solver's own, unregularised copy of K.                                   *)
(*                                                                         *)
(* Design level (MC_Refine.cfg): residual norms are abstract naturals, the  *)
(* candidate produced by a refinement step is arbitrary (the factors are    *)
(* only approximate), and the model keeps the set of norms of all vectors   *)
(* that were ever held.  Checked: the vector handed back is the best one    *)
(* seen, its residual never grows, at most MaxIter refinements are made,    *)
(* "converged" means below the threshold, a non-finite norm is a failure,   *)
(* and every run ends.                                                      *)
(*                                                                         *)
(* Trace level (Trace_Refine.tla): every real solve is one KKTSolve event   *)
(* carrying the steps logged by the hook; SolveOK re-derives each decision  *)
(* of the loop from the logged norms (FloatOrd comparisons) and binds the   *)
(* final residual to an independent one computed by the observer from the   *)
(* KKT view, i.e. from the copy that C11 shows to be free of regularisation.*)
(***************************************************************************)
EXTENDS Integers, Sequences, FiniteSets, TLC, RefineRules

-----------------------------------------------------------------------------
(* design level *)
CONSTANTS MaxIter, NMax, Tol, StopRatio      \* norms 0..NMax, Inf == NMax + 1; StopRatio >= 1
Inf == NMax + 1
VARIABLES pc, cur, k, seen, result, how
rvars == <<pc, cur, k, seen, result, how>>

Min(S) == CHOOSE x \in S : \A y \in S : x <= y

RInit == pc = "start" /\ cur = 0 /\ k = 0 /\ seen = {} /\ result = "none" /\ how = "none"

\* the direct solve leaves a vector with residual n0
Start(n0) == /\ pc = "start"
             /\ cur' = n0 /\ seen' = {n0}
             /\ IF n0 = Inf THEN pc' = "done" /\ result' = "fail" /\ how' = "nonfinite"
                ELSE pc' = "loop" /\ UNCHANGED <<result, how>>
             /\ UNCHANGED k
Converged == /\ pc = "loop" /\ LoopDecision(k < MaxIter, cur <= Tol) = "converged"
             /\ pc' = "done" /\ result' = "ok" /\ how' = "converged" /\ UNCHANGED <<cur, k, seen>>
Exhausted == /\ pc = "loop" /\ LoopDecision(k < MaxIter, cur <= Tol) = "exhausted"
             /\ pc' = "done" /\ result' = "ok" /\ how' = "exhausted" /\ UNCHANGED <<cur, k, seen>>
\* one refinement: candidate x + dx with residual n1
Step(n1) == /\ pc = "loop" /\ LoopDecision(k < MaxIter, cur <= Tol) = "refine"
            /\ seen' = seen \cup {n1}
            /\ LET o == StepOutcome(n1 # Inf, cur < StopRatio * n1, cur > n1) IN   \* ratio cur/n1 vs StopRatio and 1
               /\ cur' = IF Swaps(o) THEN n1 ELSE cur
               /\ IF o = "fail" THEN pc' = "done" /\ result' = "fail" /\ how' = "nonfinite" /\ UNCHANGED k
                  ELSE IF Stops(o) THEN pc' = "done" /\ result' = "ok" /\ how' = "stalled" /\ UNCHANGED k
                  ELSE k' = k + 1 /\ UNCHANGED <<pc, result, how>>
RNext == (\E n \in 0..Inf : Start(n) \/ Step(n)) \/ Converged \/ Exhausted
RSpec == RInit /\ [][RNext]_rvars /\ WF_rvars(RNext)

BestSeen     == result = "ok" => cur = Min(seen)
Bounded      == k <= MaxIter
ConvergedLow == how = "converged" => cur <= Tol
FailIffInf   == (result = "fail") <=> (pc = "done" /\ Inf \in seen)
NonIncreasing == [][pc = "loop" => cur' <= cur]_rvars
Terminates   == <>(pc = "done")

=============================================================================
