SPECIFICATION DSpec
CONSTANTS N = 6
INVARIANTS FirstPassing NoLonger GaveUpUntested Bounded
PROPERTIES Terminates
CHECK_DEADLOCK FALSE
