SPECIFICATION Spec
CONSTANTS
  Len_ <- LenSmall
  Blocked = "none"
  Versions <- V12
  MaxOps = 2
INVARIANTS UntouchedOnError BlockedFrozen TaintSound Emit
CHECK_DEADLOCK FALSE
