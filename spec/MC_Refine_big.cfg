SPECIFICATION RSpec
CONSTANTS
  MaxIter = 5
  NMax = 9
  Tol = 2
  StopRatio = 3
INVARIANTS BestSeen Bounded ConvergedLow FailIffInf
PROPERTIES NonIncreasing Terminates
CHECK_DEADLOCK FALSE
