SPECIFICATION Spec
CONSTANTS
  R = 3
  Dim = 3
INVARIANTS Convex Monotone
CHECK_DEADLOCK FALSE
