SPECIFICATION RSpec
CONSTANTS
  MaxIter = 3
  NMax = 6
  Tol = 1
  StopRatio = 2
INVARIANTS BestSeen Bounded ConvergedLow FailIffInf
PROPERTIES NonIncreasing Terminates
CHECK_DEADLOCK FALSE
