------------------------------- MODULE Dist -------------------------------
(***************************************************************************)
(* C06, distributional clause over the generator family G: the trace spec   *)
(* accumulates counters over the per-run summary events; the POSTCONDITION   *)
(* demands (i) fewer than K non-Solved runs, where K (from the driver, env   *)
(* KFAIL) is the smallest k with P(Binomial(N, 0.005) >= k) <= 1e-9, so that *)
(* a tree meeting the 99.5 % requirement practically never alarms, and       *)
(* (ii) at most 5 % of the runs above the iteration envelopes.               *)
(***************************************************************************)
EXTENDS Integers, Sequences, Json, IOUtils, TLC

Rec == ndJsonDeserialize(IOEnv.TRACE)
KFail == atoi(IOEnv.KFAIL)
EnvAll == atoi(IOEnv.ENVELOPE_ALL)      \* 95th percentile envelope, all problems
EnvSym == atoi(IOEnv.ENVELOPE_SYM)      \* symmetric-cone problems

VARIABLES l, n, nsym, fails, over, oversym, maxit
dvars == <<l, n, nsym, fails, over, oversym, maxit>>

Run ==
  /\ l <= Len(Rec) /\ Rec[l].ev = "Run" /\ l' = l + 1
  /\ LET e == Rec[l] IN
       /\ n' = n + 1
       /\ nsym' = nsym + (IF e.sym THEN 1 ELSE 0)
       /\ fails' = fails + (IF e.status = "Solved" THEN 0 ELSE 1)
       /\ over' = over + (IF e.iterations > EnvAll THEN 1 ELSE 0)
       /\ oversym' = oversym + (IF e.sym /\ e.iterations > EnvSym THEN 1 ELSE 0)
       /\ maxit' = IF e.iterations > maxit THEN e.iterations ELSE maxit

Init == l = 1 /\ n = 0 /\ nsym = 0 /\ fails = 0 /\ over = 0 /\ oversym = 0 /\ maxit = 0
Spec == Init /\ [][Run]_dvars

\* evaluated in the final state: TLCGet("stats") cannot read variables, so the counters are
\* exported through an invariant into TLC registers
Export == TLCSet(1, n) /\ TLCSet(2, fails) /\ TLCSet(3, over) /\ TLCSet(4, oversym) /\ TLCSet(5, nsym) /\ TLCSet(6, maxit)

Distribution ==
  /\ TLCGet("stats").diameter - 1 = Len(Rec)
  /\ PrintT(<<"DIST", TLCGet(1), TLCGet(2), TLCGet(3), TLCGet(4), TLCGet(5), TLCGet(6)>>)
  /\ TLCGet(1) = Len(Rec)
  /\ TLCGet(2) < KFail
  /\ TLCGet(3) * 20 <= TLCGet(1)
  /\ TLCGet(4) * 20 <= TLCGet(5) + 19
=============================================================================
