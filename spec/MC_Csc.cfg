SPECIFICATION Spec
CONSTANTS
  MaxM = 2
  MaxN = 3
  Vals = {0, 1, 2}
INVARIANTS EncodeCanonical TransposeInvol TriuIdempotent DenseAgrees TransposeSpecOK
CHECK_DEADLOCK FALSE
