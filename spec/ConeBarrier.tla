---------------------------- MODULE ConeBarrier ----------------------------
(***************************************************************************)
(* C14: barrier calculus of the nonsymmetric cones (exponential, power,     *)
(* generalised power).                                                      *)
(*                                                                         *)
(* Three kinds of events are recorded from the real cone objects through    *)
(* one hook (nonsym_cone_battery):                                          *)
(*                                                                         *)
(*  Lattice     power / generalised power cones with rational exponents     *)
(*              p_i / q at integer points.  Membership in K and K* is then  *)
(*              a statement about integers,                                 *)
(*                  K  : u_i >= 0,  prod u_i^p_i       >= |w|^q              *)
(*                  K* : u_i >= 0,  prod (q u_i)^p_i   >= |w|^q prod p_i^p_i  *)
(*              (both sides squared when w has more than one entry),        *)
(*              and TLC decides it exactly (InK, InKDual below); the code's *)
(*              predicates must say "interior" exactly when the inequality  *)
(*              is strict (a point on the boundary may go either way).      *)
(*  Membership  arbitrary real points of all three cones against the        *)
(*              observer's definition, when the observer's margin is clear. *)
(*  ExactBoundary points that lie on the boundary of K or K* exactly in      *)
(*              floating point ((0, a, a) and (-a, -a, a) for the exponential *)
(*              cone, all-ones / exponent points with a unit last block for  *)
(*              the power cones: every intermediate of the predicate is      *)
(*              exact there): the interior tests must reject them.           *)
(*  NonsymCone  one interior pair (s, z) with directions (ds, dz): every    *)
(*              identity of Required(cone) below must hold.  Each identity  *)
(*              reaches TLC as a pair <<error, tolerance>>; the reference   *)
(*              side of each is NOT a second implementation of the formula  *)
(*              but a derivative of the cone's own lower-order quantity     *)
(*              (central differences of barrier_dual for the gradient, of   *)
(*              the gradient for the Hessian, of the Hessian along dz for   *)
(*              the third-order term, of barrier_primal for the primal      *)
(*              gradient) or an algebraic law (conjugacy, logarithmic       *)
(*              homogeneity, secant equations).                             *)
(*                                                                         *)
(* The identities are real-analytic; TLC decides inequalities over ordered  *)
(* float limbs, the arithmetic is the observer's: level "exploration".      *)
(***************************************************************************)
EXTENDS Integers, Sequences, FiniteSets, TLC, FloatOrd, Json, IOUtils

Rec == ndJsonDeserialize(IOEnv.TRACE)

-----------------------------------------------------------------------------
(* exact membership on the integer lattice *)
RECURSIVE Pow(_, _)
Pow(b, k) == IF k = 0 THEN 1 ELSE b * Pow(b, k - 1)
RECURSIVE ProdPow(_, _, _, _)
\* prod_i base(i)^(k p_i)
ProdPow(u, p, k, i) == IF i > Len(p) THEN 1 ELSE Pow(u[i], k * p[i]) * ProdPow(u, p, k, i + 1)
RECURSIVE SumSq(_, _)
SumSq(w, i) == IF i > Len(w) THEN 0 ELSE w[i] * w[i] + SumSq(w, i + 1)
Scaled(u, q) == [i \in 1..Len(u) |-> q * u[i]]
Abs(x) == IF x < 0 THEN -x ELSE x
\* a one-dimensional w needs no squaring: compare prod u_i^p_i with |w|^q; otherwise both sides are squared
K(e)     == IF Len(e.w) = 1 THEN 1 ELSE 2
NormW(e) == IF Len(e.w) = 1 THEN Abs(e.w[1]) ELSE SumSq(e.w, 1)

AllPos(u)    == \A i \in 1..Len(u) : u[i] > 0
AllNonneg(u) == \A i \in 1..Len(u) : u[i] >= 0
\* sign of (lhs - rhs) of the defining inequality:  1 strictly inside, 0 on the boundary, -1 outside
Side(lhs, rhs) == IF lhs > rhs THEN 1 ELSE IF lhs = rhs THEN 0 ELSE -1
PrimalSide(e) == IF ~AllNonneg(e.u) THEN -1
                 ELSE LET sd == Side(ProdPow(e.u, e.p, K(e), 1), Pow(NormW(e), e.q)) IN
                      IF sd = 1 /\ ~AllPos(e.u) THEN 0 ELSE sd
DualSide(e)   == IF ~AllNonneg(e.u) THEN -1
                 ELSE LET sd == Side(ProdPow(Scaled(e.u, e.q), e.p, K(e), 1), Pow(NormW(e), e.q) * ProdPow(e.p, e.p, K(e), 1)) IN
                      IF sd = 1 /\ ~AllPos(e.u) THEN 0 ELSE sd
Agrees(code, side) == (side = 1 => code) /\ (side = -1 => ~code)
LatticeOK(e) == Agrees(e.primal_code, PrimalSide(e)) /\ Agrees(e.dual_code, DualSide(e))

MembershipOK(e) == /\ e.primal_clear => (e.primal_code <=> e.primal_obs)
                   /\ e.dual_clear   => (e.dual_code <=> e.dual_obs)

-----------------------------------------------------------------------------
(* the calculus *)
Common == {"grad_is_derivative",          \* stored gradient = d/dz of the dual barrier
           "hessian_is_derivative",       \* stored Hessian  = d/dz of the gradient
           "hessian_symmetric",
           "grad_dot_z",                  \* <g(z), z> = -nu          (logarithmic homogeneity)
           "hess_z_is_minus_grad",        \* H(z) z = -g(z)
           "primal_grad_is_derivative",   \* gradient_primal = d/ds of the primal barrier
           "conjugate_map",               \* g*(-g(s)) = -s
           "primal_barrier_is_conjugate", \* f(s) + f*(-g(s)) + nu = 0  (the reported value of the primal barrier)
           "scaling_symmetric", "scaling_positive_definite",
           "scaling_secant_or_fallback",  \* Hs z = s and Hs z~ = s~, or Hs = mu H
           "start_is_central",            \* unit_initialization: s = -g*(z)
           "start_mu_is_one",             \* ... and <s, z> / nu = 1 with the nu the cone reports
           "degree_is_barrier_parameter"} \* nu = 3 (exponential, power), number of exponents + 1 (generalised power)
Required(cone) == IF cone = "GenPow" THEN Common \cup {"no_third_order", "genpow_uses_dual_scaling"}
                  ELSE Common \cup {"third_order"}   \* eta = 1/2 D^3 f*(z)[dz, H^-1 ds]

Holds(e, name) == name \in DOMAIN e.ids /\ FLe(e.ids[name][1], e.ids[name][2])

NonsymOK(e) ==
  /\ e.interior_accepted                 \* generated interior points are recognised as interior
  /\ e.scaled_ok                         \* ... and can be scaled
  \* (next to the boundary of K the finite-difference reference for the primal gradient is not meaningful; the
  \*  conjugate map, which needs no reference, still has to close there)
  /\ \A name \in Required(e.cone) \ (IF e.family = "near_boundary" THEN {"primal_grad_is_derivative"}
                                      ELSE IF e.family = "near_boundary_dual" THEN {"grad_is_derivative", "hessian_is_derivative", "third_order"}
                                      ELSE {}) : Holds(e, name)
  /\ e.pd_mode \in {"secant", "fallback"}
  /\ (e.cone = "GenPow") => e.pd_mode = "fallback"

EventOK(e) == CASE e.ev = "NonsymCone" -> NonsymOK(e)
                [] e.ev = "Membership" -> MembershipOK(e)
                [] e.ev = "Lattice"    -> LatticeOK(e)
                [] e.ev = "ExactBoundary" -> ~e.code_says_interior   \* a point exactly on the boundary is not interior
                [] OTHER -> FALSE        \* (a panic inside the battery)

VARIABLES l, bad
Next == /\ l <= Len(Rec) /\ l' = l + 1
        /\ bad' = IF EventOK(Rec[l]) \/ Len(bad) >= 40 THEN bad ELSE Append(bad, l)
Spec == l = 1 /\ bad = <<>> /\ [][Next]_<<l, bad>>
Export == (l = Len(Rec) + 1) => (TLCSet(1, Len(bad)) /\ (bad # <<>> => PrintT("BAD-EVENTS " \o ToString(bad))))
TraceAccepted ==
  LET n == TLCGet("stats").diameter - 1 IN
  IF n = Len(Rec) /\ TLCGet(1) = 0 THEN TRUE
  ELSE PrintT(<<"TRACE-REJECTED at event", n + 1, "of", Len(Rec)>>) /\ FALSE
=============================================================================
