SPECIFICATION Spec
CONSTANTS
  N = 64
  Guard = TRUE
INVARIANTS Exact FewSteps
PROPERTIES Monotone Terminates
