-------------------------------- MODULE Csc --------------------------------
(***************************************************************************)
(* Compressed-sparse-column matrices (src/algebra/csc) against their dense *)
(* meaning.  An encoding is a record [m, n, colptr, rowval, nzval] with     *)
(* 0-based indices held in 1-based TLA+ sequences and small integer values  *)
(* (for which f64 arithmetic is exact).  Every public operation has         *)
(*   (i)  a representation invariant on its result:  Canonical(out), and    *)
(*   (ii) an abstract meaning stated on the stored-entry map  SMap(M)       *)
(*        (position -> value, structural zeros included) or on Dense(M).    *)
(* CheckOp(e) recomputes the expected result of one recorded call.          *)
(***************************************************************************)
EXTENDS Integers, Sequences, FiniteSets, FiniteSetsExt, TLC

Abs(x) == IF x < 0 THEN -x ELSE x
Max2(a, b) == IF a > b THEN a ELSE b
SeqSum(s) == LET RECURSIVE F(_) F(k) == IF k = 0 THEN 0 ELSE F(k - 1) + s[k] IN F(Len(s))

-----------------------------------------------------------------------------
(* representation *)

DimsOK(M) == /\ Len(M.rowval) = Len(M.nzval)
             /\ Len(M.colptr) = M.n + 1
             /\ M.colptr[M.n + 1] = Len(M.rowval)

ColptrMonotone(M) == \A j \in 1..M.n : M.colptr[j] <= M.colptr[j + 1]

\* positions (1-based indices into rowval/nzval) of column j (1-based)
ColPos(M, j) == (M.colptr[j] + 1)..M.colptr[j + 1]

Canonical(M) ==
  /\ DimsOK(M)
  /\ M.colptr[1] = 0
  /\ ColptrMonotone(M)
  /\ \A k \in 1..Len(M.rowval) : M.rowval[k] >= 0 /\ M.rowval[k] < M.m
  /\ \A j \in 1..M.n : \A k \in ColPos(M, j) : (k + 1) \in ColPos(M, j) => M.rowval[k] < M.rowval[k + 1]

\* a weaker form: dimensions and column pointers fine, rows in range, but possibly unsorted
\* and duplicated within columns (what canonicalize accepts)
ColumnGrouped(M) ==
  /\ DimsOK(M) /\ M.colptr[1] = 0 /\ ColptrMonotone(M)
  /\ \A k \in 1..Len(M.rowval) : M.rowval[k] >= 0 /\ M.rowval[k] < M.m

\* stored positions <<row, col>> (0-based) and the value held there (duplicates summed)
Stored(M) == UNION { { <<M.rowval[k], j - 1>> : k \in ColPos(M, j) } : j \in 1..M.n }
Val(M, i, j) == LET S == {k \in ColPos(M, j + 1) : M.rowval[k] = i}
                IN FoldSet(LAMBDA k, acc : acc + M.nzval[k], 0, S)
SMap(M) == [p \in Stored(M) |-> Val(M, p[1], p[2])]
Dense(M) == [p \in (0..(M.m - 1)) \X (0..(M.n - 1)) |-> Val(M, p[1], p[2])]
At(M, i, j) == IF <<i, j>> \in Stored(M) THEN Val(M, i, j) ELSE 0
\* symmetric reading of an upper-triangular encoding
SymAt(M, i, j) == IF i <= j THEN At(M, i, j) ELSE At(M, j, i)

Rows(M) == 0..(M.m - 1)
Cols(M) == 0..(M.n - 1)
SumOver(S, f(_)) == FoldSet(LAMBDA x, acc : acc + f(x), 0, S)
MaxOver(S, f(_)) == FoldSet(LAMBDA x, acc : Max2(acc, f(x)), 0, S)

-----------------------------------------------------------------------------
(* expected results, one operator per public operation *)

ExpFromDense(e) ==
  LET o == e.out IN
  /\ Canonical(o) /\ o.m = e.m /\ o.n = e.n
  /\ SMap(o) = [p \in {q \in (0..(e.m - 1)) \X (0..(e.n - 1)) : e.rows[q[1] + 1][q[2] + 1] # 0}
                  |-> e.rows[p[1] + 1][p[2] + 1]]

ExpTriplets(e) ==
  LET o == e.out
      K == 1..Len(e.I)
      P == { <<e.I[k], e.J[k]>> : k \in K }
  IN /\ Canonical(o) /\ o.m = e.m /\ o.n = e.n
     /\ SMap(o) = [p \in P |-> SumOver({k \in K : e.I[k] = p[1] /\ e.J[k] = p[2]}, LAMBDA k : e.V[k])]

ExpCanonicalize(e) ==
  IF ColumnGrouped(e.inp)
  THEN e.ok /\ Canonical(e.out) /\ e.out.m = e.inp.m /\ e.out.n = e.inp.n /\ SMap(e.out) = SMap(e.inp)
  ELSE TRUE   \* outside the documented domain of canonicalize (generator never produces it)

ExpCheckFormat(e) == e.ok <=> Canonical(e.inp)

ExpTranspose(e) ==
  LET o == e.out i == e.inp IN
  /\ Canonical(o) /\ o.m = i.n /\ o.n = i.m
  /\ SMap(o) = [p \in { <<q[2], q[1]>> : q \in Stored(i) } |-> Val(i, p[2], p[1])]

ExpToTriu(e) ==
  LET o == e.out i == e.inp IN
  /\ Canonical(o) /\ o.m = i.m /\ o.n = i.n
  /\ SMap(o) = [p \in {q \in Stored(i) : q[1] <= q[2]} |-> Val(i, p[1], p[2])]

ExpIsTriu(e) == e.res <=> (\A p \in Stored(e.inp) : p[1] <= p[2])

ExpSelectRows(e) ==
  LET o == e.out i == e.inp
      kept == {r \in Rows(i) : e.mask[r + 1]}
      newrow(r) == Cardinality({q \in kept : q < r})
  IN /\ Canonical(o) /\ o.n = i.n /\ o.m = Cardinality(kept)
     /\ SMap(o) = [p \in { <<newrow(q[1]), q[2]>> : q \in {s \in Stored(i) : s[1] \in kept} }
                     |-> Val(i, CHOOSE r \in kept : newrow(r) = p[1], p[2])]

ExpGetEntry(e) ==
  IF <<e.i, e.j>> \in Stored(e.inp) THEN e.some /\ e.val = Val(e.inp, e.i, e.j) ELSE ~e.some

ExpSetEntry(e) ==
  LET o == e.out i == e.inp p == <<e.i, e.j>> IN
  /\ Canonical(o) /\ o.m = i.m /\ o.n = i.n
  /\ IF p \notin Stored(i) /\ e.v = 0
     THEN SMap(o) = SMap(i)          \* no space is allocated for a new zero
     ELSE SMap(o) = [q \in Stored(i) \cup {p} |-> IF q = p THEN e.v ELSE Val(i, q[1], q[2])]

ExpDropZeros(e) ==
  LET o == e.out i == e.inp IN
  /\ Canonical(o) /\ o.m = i.m /\ o.n = i.n
  /\ SMap(o) = [p \in {q \in Stored(i) : Val(i, q[1], q[2]) # 0} |-> Val(i, p[1], p[2])]

ExpIndexToCoord(e) ==
  LET i == e.inp k == e.idx + 1 IN
  /\ e.row = i.rowval[k]
  /\ k \in ColPos(i, e.col + 1)

ExpVector(e) ==
  LET i == e.inp IN
  CASE e.name = "col_sums"  -> e.out = [j \in 1..i.n |-> SumOver(Rows(i), LAMBDA r : At(i, r, j - 1))]
    [] e.name = "row_sums"  -> e.out = [r \in 1..i.m |-> SumOver(Cols(i), LAMBDA j : At(i, r - 1, j))]
    [] e.name = "col_norms" -> e.out = [j \in 1..i.n |-> MaxOver(Rows(i), LAMBDA r : Abs(At(i, r, j - 1)))]
    [] e.name = "row_norms" -> e.out = [r \in 1..i.m |-> MaxOver(Cols(i), LAMBDA j : Abs(At(i, r - 1, j)))]
    [] e.name = "col_norms_sym" ->
          e.out = [j \in 1..i.n |-> MaxOver(Rows(i), LAMBDA r : Abs(SymAt(i, r, j - 1)))]

ExpScaling(e) ==
  LET o == e.out i == e.inp
      f(p) == CASE e.name = "scale"   -> e.c * Val(i, p[1], p[2])
                [] e.name = "negate"  -> -Val(i, p[1], p[2])
                [] e.name = "lscale"  -> e.l[p[1] + 1] * Val(i, p[1], p[2])
                [] e.name = "rscale"  -> Val(i, p[1], p[2]) * e.r[p[2] + 1]
                [] e.name = "lrscale" -> e.l[p[1] + 1] * Val(i, p[1], p[2]) * e.r[p[2] + 1]
  IN /\ o.m = i.m /\ o.n = i.n /\ o.colptr = i.colptr /\ o.rowval = i.rowval   \* structure untouched
     /\ SMap(o) = [p \in Stored(i) |-> f(p)]

ExpGemv(e) ==
  LET i == e.inp IN
  IF e.trans
  THEN e.y = [j \in 1..i.n |-> e.a * SumOver(Rows(i), LAMBDA r : At(i, r, j - 1) * e.x[r + 1]) + e.b * e.y0[j]]
  ELSE e.y = [r \in 1..i.m |-> e.a * SumOver(Cols(i), LAMBDA j : At(i, r - 1, j) * e.x[j + 1]) + e.b * e.y0[r]]

ExpSymv(e) ==
  LET i == e.inp IN
  e.y = [r \in 1..i.m |-> e.a * SumOver(Cols(i), LAMBDA j : SymAt(i, r - 1, j) * e.x[j + 1]) + e.b * e.y0[r]]

ExpQuadForm(e) ==
  LET i == e.inp IN
  e.res = SumOver(Rows(i), LAMBDA r : e.y[r + 1] * SumOver(Cols(i), LAMBDA j : SymAt(i, r, j) * e.x[j + 1]))

\* block concatenations: expected entry map given blocks placed at (row offset, col offset)
Shift(M, ro, co) == { <<p[1] + ro, p[2] + co>> : p \in Stored(M) }
ExpHcat(e) ==
  IF e.A.m # e.B.m THEN ~e.ok
  ELSE /\ e.ok /\ Canonical(e.out) /\ e.out.m = e.A.m /\ e.out.n = e.A.n + e.B.n
       /\ SMap(e.out) = [p \in Stored(e.A) \cup Shift(e.B, 0, e.A.n) |->
                           IF p[2] < e.A.n THEN Val(e.A, p[1], p[2]) ELSE Val(e.B, p[1], p[2] - e.A.n)]
ExpVcat(e) ==
  IF e.A.n # e.B.n THEN ~e.ok
  ELSE /\ e.ok /\ Canonical(e.out) /\ e.out.n = e.A.n /\ e.out.m = e.A.m + e.B.m
       /\ SMap(e.out) = [p \in Stored(e.A) \cup Shift(e.B, e.A.m, 0) |->
                           IF p[1] < e.A.m THEN Val(e.A, p[1], p[2]) ELSE Val(e.B, p[1] - e.A.m, p[2])]
ExpBlockDiag(e) ==
  /\ e.ok /\ Canonical(e.out) /\ e.out.m = e.A.m + e.B.m /\ e.out.n = e.A.n + e.B.n
  /\ SMap(e.out) = [p \in Stored(e.A) \cup Shift(e.B, e.A.m, e.A.n) |->
                      IF p[1] < e.A.m /\ p[2] < e.A.n THEN Val(e.A, p[1], p[2])
                      ELSE Val(e.B, p[1] - e.A.m, p[2] - e.A.n)]
\* hvcat of a 2 x 2 block array [A B; C D]
ExpHvcat(e) ==
  IF ~(e.A.m = e.B.m /\ e.C.m = e.D.m /\ e.A.n = e.C.n /\ e.B.n = e.D.n) THEN ~e.ok
  ELSE /\ e.ok /\ Canonical(e.out) /\ e.out.m = e.A.m + e.C.m /\ e.out.n = e.A.n + e.B.n
       /\ SMap(e.out) =
            [p \in Stored(e.A) \cup Shift(e.B, 0, e.A.n) \cup Shift(e.C, e.A.m, 0) \cup Shift(e.D, e.A.m, e.A.n) |->
               IF p[1] < e.A.m
               THEN (IF p[2] < e.A.n THEN Val(e.A, p[1], p[2]) ELSE Val(e.B, p[1], p[2] - e.A.n))
               ELSE (IF p[2] < e.A.n THEN Val(e.C, p[1] - e.A.m, p[2]) ELSE Val(e.D, p[1] - e.A.m, p[2] - e.A.n))]

\* hvcat of a general block grid: the blocks of a block row share their height, those of a block column their width
ExpHvcatG(e) ==
  LET B == e.blocks
      nr == Len(B)
      nc == Len(B[1])
      consistent == /\ \A i \in 1..nr : Len(B[i]) = nc
                    /\ \A i \in 1..nr, j \in 1..nc : B[i][j].m = B[i][1].m /\ B[i][j].n = B[1][j].n
      RECURSIVE RowOff(_), ColOff(_)
      RowOff(i) == IF i = 1 THEN 0 ELSE RowOff(i - 1) + B[i - 1][1].m
      ColOff(j) == IF j = 1 THEN 0 ELSE ColOff(j - 1) + B[1][j - 1].n
      All == UNION { Shift(B[i][j], RowOff(i), ColOff(j)) : i \in 1..nr, j \in 1..nc }
      Owner(p) == CHOOSE ij \in (1..nr) \X (1..nc) : p \in Shift(B[ij[1]][ij[2]], RowOff(ij[1]), ColOff(ij[2]))
  IN IF ~consistent THEN ~e.ok
     ELSE /\ e.ok /\ Canonical(e.out)
          /\ e.out.m = RowOff(nr) + B[nr][1].m /\ e.out.n = ColOff(nc) + B[1][nc].n
          /\ SMap(e.out) = [p \in All |-> LET ij == Owner(p) IN Val(B[ij[1]][ij[2]], p[1] - RowOff(ij[1]), p[2] - ColOff(ij[2]))]

ExpEqualSparsity(e) ==
  e.res <=> (e.A.m = e.B.m /\ e.A.n = e.B.n /\ e.A.colptr = e.B.colptr /\ e.A.rowval = e.B.rowval)

ExpNnz(e) == e.res = Len(e.inp.rowval)

CheckOp(e) ==
  CASE e.name = "from_dense"   -> ExpFromDense(e)
    [] e.name = "triplets"     -> ExpTriplets(e)
    [] e.name = "canonicalize" -> ExpCanonicalize(e)
    [] e.name = "check_format" -> ExpCheckFormat(e)
    [] e.name = "transpose"    -> ExpTranspose(e)
    [] e.name = "to_triu"      -> ExpToTriu(e)
    [] e.name = "is_triu"      -> ExpIsTriu(e)
    [] e.name = "select_rows"  -> ExpSelectRows(e)
    [] e.name = "get_entry"    -> ExpGetEntry(e)
    [] e.name = "set_entry"    -> ExpSetEntry(e)
    [] e.name = "dropzeros"    -> ExpDropZeros(e)
    [] e.name = "index_to_coord" -> ExpIndexToCoord(e)
    [] e.name \in {"col_sums", "row_sums", "col_norms", "row_norms", "col_norms_sym"} -> ExpVector(e)
    [] e.name \in {"scale", "negate", "lscale", "rscale", "lrscale"} -> ExpScaling(e)
    [] e.name = "gemv"         -> ExpGemv(e)
    [] e.name = "symv"         -> ExpSymv(e)
    [] e.name = "quad_form"    -> ExpQuadForm(e)
    [] e.name = "hcat"         -> ExpHcat(e)
    [] e.name = "vcat"         -> ExpVcat(e)
    [] e.name = "blockdiag"    -> ExpBlockDiag(e)
    [] e.name = "hvcat"        -> ExpHvcat(e)
    [] e.name = "hvcatg"       -> ExpHvcatG(e)
    [] e.name = "is_equal_sparsity" -> ExpEqualSparsity(e)
    [] e.name = "nnz"          -> ExpNnz(e)
=============================================================================
