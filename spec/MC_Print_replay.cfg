SPECIFICATION DSpec
CONSTANT MaxHist = 5
INVARIANT EmitReplay
CHECK_DEADLOCK FALSE
