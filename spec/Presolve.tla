------------------------------ MODULE Presolve ------------------------------
(***************************************************************************)
(* C09: infinite bounds are removed and restored transparently.             *)
(* Fully combinatorial model of                                             *)
(*   SupportedConeT::new_collapsed  (cone list clean-up),                   *)
(*   the module-level infinity bound (set_infinity / default_infinity),     *)
(*   Presolver::new / make_reduction_map / reduce_cones,                    *)
(*   the capping of b in DefaultProblemData::new, and                       *)
(*   Presolver::reverse_presolve.                                           *)
(* Right-hand-side entries are abstracted to classes relative to the two    *)
(* bounds that occur in a history: "fin" (finite, small), "big" (>= the     *)
(* small bound 1e10 but < 1e20) and "huge" (>= 1e20).                        *)
(***************************************************************************)
EXTENDS Integers, Sequences, FiniteSets, TLC, Json

CONSTANTS ConeMenu,      \* candidate cones: records [k |-> kind, d |-> number of rows]
          MaxCones, MaxM,
          BClasses,      \* subset of {"fin", "big", "huge", "neg"}  ("neg": <= -1e20, hugely negative)
          Bounds         \* bounds that can be in force: subset of {"1e20", "1e10"}

Kinds == {"Zero", "NN", "SOC", "Exp", "Pow", "GenPow", "PSD"}
Collapsible(c) == c.k = "NN" \/ (c.k \in {"SOC", "PSD"} /\ c.d = 1)

\* --- cone list clean-up: drop empty cones, merge runs of collapsible cones into one NN cone
RECURSIVE CollapseFrom(_, _, _)
\* acc: output so far; run: dimension of the pending NN run (-1: none)
CollapseFrom(cones, acc, run) ==
  IF cones = <<>> THEN (IF run >= 0 THEN Append(acc, [k |-> "NN", d |-> run]) ELSE acc)
  ELSE LET c == Head(cones) rest == Tail(cones) IN
       IF c.d = 0 THEN CollapseFrom(rest, acc, run)                       \* empty cones vanish
       ELSE IF Collapsible(c) THEN CollapseFrom(rest, acc, IF run >= 0 THEN run + c.d ELSE c.d)
       ELSE CollapseFrom(rest, Append(IF run >= 0 THEN Append(acc, [k |-> "NN", d |-> run]) ELSE acc, c), -1)
Collapse(cones) == CollapseFrom(cones, <<>>, -1)

SumD(cones) == LET RECURSIVE S(_) S(i) == IF i = 0 THEN 0 ELSE S(i - 1) + cones[i].d IN S(Len(cones))
\* index of the cone that row r (1-based) belongs to
ConeOfRow(cones, r) == CHOOSE i \in 1..Len(cones) : SumD(SubSeq(cones, 1, i - 1)) < r /\ r <= SumD(SubSeq(cones, 1, i))

AtOrAbove(cls, bound) == IF bound = "1e20" THEN cls = "huge" ELSE cls \in {"big", "huge"}

\* --- reduction map on the collapsed list
Keep(ccones, bcls, presolve, bound) ==
  [r \in 1..Len(bcls) |-> ~(presolve /\ ccones[ConeOfRow(ccones, r)].k = "NN" /\ AtOrAbove(bcls[r], bound))]

ReduceCones(ccones, keep) ==
  LET RECURSIVE R(_, _)
      R(i, acc) == IF i > Len(ccones) THEN acc
                   ELSE LET c == ccones[i]
                            lo == SumD(SubSeq(ccones, 1, i - 1))
                            nk == Cardinality({r \in (lo + 1)..(lo + c.d) : keep[r]})
                        IN IF c.k = "NN"
                           THEN R(i + 1, IF nk > 0 THEN Append(acc, [k |-> "NN", d |-> nk]) ELSE acc)
                           ELSE R(i + 1, Append(acc, c))
  IN R(1, <<>>)

-----------------------------------------------------------------------------
VARIABLES cones, bcls, presolve, inf, pc, built, hist

pvars == <<cones, bcls, presolve, inf, pc, built, hist>>

ConeLists == UNION { [1..n -> ConeMenu] : n \in 0..MaxCones }

Init == /\ cones \in {cl \in ConeLists : SumD(cl) <= MaxM}
        /\ bcls \in [1..SumD(cones) -> BClasses]
        /\ presolve \in BOOLEAN
        /\ inf = "1e20" /\ pc = "fresh" /\ built = [ok |-> FALSE] /\ hist = <<>>

\* set_infinity / default_infinity: allowed at any time, before and after construction
SetInfinity(v) == /\ pc \in {"fresh", "built"} /\ inf' = v
                  \* (bounded: at most one change before and one after construction)
                  /\ (IF hist = <<>> THEN TRUE ELSE hist[Len(hist)].op = "new")
                  /\ hist' = Append(hist, [op |-> "setinf", v |-> v])
                  /\ UNCHANGED <<cones, bcls, presolve, pc, built>>

\* DefaultSolver::new: the bound in force NOW is captured (by the presolver and by the capping of b)
New == /\ pc = "fresh"
       /\ LET cc == Collapse(cones)
              keep == Keep(cc, bcls, presolve, inf)
              reduced == \E r \in 1..Len(bcls) : ~keep[r]
          IN built' = [ok |-> TRUE, bound |-> inf, collapsed |-> cc, keep |-> keep, reduced |-> reduced,
                       mreduced |-> Cardinality({r \in 1..Len(bcls) : keep[r]}),
                       rcones |-> IF reduced THEN ReduceCones(cc, keep) ELSE cc,
                       \* b is capped at the bound for every kept row
                       capped |-> [r \in 1..Len(bcls) |-> AtOrAbove(bcls[r], inf)]]
       /\ pc' = "built" /\ hist' = Append(hist, [op |-> "new"])
       /\ UNCHANGED <<cones, bcls, presolve, inf>>

\* solve + reverse_presolve: user-length vectors, z = 0 and s = bound-at-build at dropped rows
Solve == /\ pc = "built" /\ pc' = "solved" /\ hist' = Append(hist, [op |-> "solve"])
         /\ UNCHANGED <<cones, bcls, presolve, inf, built>>

Next == (\E v \in Bounds : SetInfinity(v)) \/ New \/ Solve
Spec == Init /\ [][Next]_pvars

-----------------------------------------------------------------------------
(* properties of the design *)

\* exactly the nonnegative-orthant rows at or above the bound in force at build time are dropped
DropRule == built.ok =>
  \A r \in 1..Len(bcls) :
     (~built.keep[r]) <=> (presolve /\ Collapse(cones)[ConeOfRow(Collapse(cones), r)].k = "NN" /\ AtOrAbove(bcls[r], built.bound))
\* the bound used later is the one captured at build time, whatever happens to the global afterwards
BoundFrozen == [][built.ok => built'.bound = built.bound]_pvars
\* the reduced cone list accounts for exactly the kept rows, keeps every non-NN cone, and has no empty cone
ReducedConsistent == built.ok =>
  /\ SumD(built.rcones) = built.mreduced
  /\ \A i \in 1..Len(built.rcones) : built.rcones[i].d > 0
  /\ SelectSeq(built.rcones, LAMBDA c : c.k # "NN") = SelectSeq(built.collapsed, LAMBDA c : c.k # "NN")
CollapsePreservesRows == SumD(Collapse(cones)) = SumD(cones)

-----------------------------------------------------------------------------
ConeJ(c) == <<c.k, c.d>>
Emit == (pc = "solved") =>
  PrintT(<<"REPLAY", ToJson([cones |-> [i \in 1..Len(cones) |-> ConeJ(cones[i])], bcls |-> bcls, presolve |-> presolve,
                             hist |-> hist,
                             expect |-> [bound |-> built.bound,
                                         collapsed |-> [i \in 1..Len(built.collapsed) |-> ConeJ(built.collapsed[i])],
                                         keep |-> built.keep, reduced |-> built.reduced, mreduced |-> built.mreduced,
                                         rcones |-> [i \in 1..Len(built.rcones) |-> ConeJ(built.rcones[i])],
                                         capped |-> built.capped]])>>)
=============================================================================
