SPECIFICATION Spec
CONSTANTS
  Cones = {1, 2}
  Heads <- MCHeadsQ
  Tails <- MCTailsQ
  R = 8
  Target = 2
  Recheck = FALSE
INVARIANT Interior
PROPERTY Terminates
