------------------------------- MODULE Equil -------------------------------
(***************************************************************************)
(* C10: equilibration is an exact, bounded, cone-preserving change of       *)
(* variables.  Trace specification over `Equilibrated` events recorded from *)
(* the public fields of a freshly constructed solver (no hook needed).      *)
(* All comparisons are on ordered-float limbs (FloatOrd); products that the *)
(* property equates (c*d_i*P_ij*d_j etc.) are formed by the observer with   *)
(* the final cumulative scalings and compared here to within a fixed number *)
(* of units in the last place (the code multiplies incrementally).          *)
(***************************************************************************)
EXTENDS Integers, Sequences, FiniteSets, FloatOrd, Json, IOUtils, TLC

Rec == ndJsonDeserialize(IOEnv.TRACE)

ProdUlps == 64     \* allowance for internal data vs. c*D*P*D etc. (measured worst case: 12)
BoundUlps == 2     \* d*clip(delta, min/d, max/d) can leave [min,max] by rounding only
UniformUlps == 4   \* spread of e across a non-scalar cone after rectification
RecipUlps == 1

InRange(x, lo, hi) == (FGe(x, lo) \/ UlpWithin(x, lo, BoundUlps)) /\ (FLe(x, hi) \/ UlpWithin(x, hi, BoundUlps))

Disabled(e) ==
  /\ \A i \in 1..Len(e.d) : FEq(e.d[i], FOne)
  /\ \A i \in 1..Len(e.e) : FEq(e.e[i], FOne)
  /\ FEq(e.c, FOne)
  /\ e.int_bits = e.user_bits            \* data untouched, bit for bit

\* the user's window may or may not contain 1 ("unscaled"); a factor that is left at 1 on purpose (zero rows / columns, no cost
\* scaling when P or q vanishes) can only be asked to lie in the window if 1 does
HasOne(e) == FLe(e.min, FOne) /\ FGe(e.max, FOne)
Bounded(e) ==
  /\ \A i \in 1..Len(e.d) : IsPos(e.d[i]) /\ (InRange(e.d[i], e.min, e.max) \/ (~HasOne(e) /\ e.iters = 0 /\ FEq(e.d[i], FOne)))
  /\ \A i \in 1..Len(e.e) : IsPos(e.e[i]) /\ (InRange(e.e[i], e.min, e.max) \/ (~HasOne(e) /\ e.iters = 0 /\ FEq(e.e[i], FOne)))
  /\ IsPos(e.c) /\ (InRange(e.c, e.min, e.max) \/ (~HasOne(e) /\ FEq(e.c, FOne)))

\* all-zero rows in scalar cones and all-zero columns of [P; A] stay unscaled
ZeroUnscaled(e) == HasOne(e) =>
  /\ \A i \in 1..Len(e.e) : (e.zero_row[i] /\ e.scalar_row[i]) => FEq(e.e[i], FOne)
  /\ \A j \in 1..Len(e.d) : e.zero_col[j] => FEq(e.d[j], FOne)

\* E is constant across the rows of every cone that is not a product of scalar cones
ConePreserving(e) ==
  \A k \in 1..Len(e.cones) :
     LET cn == e.cones[k] IN
     ~cn.scalar => \A i, j \in cn.lo..cn.hi : UlpWithin(e.e[i], e.e[j], UniformUlps)

Reciprocals(e) ==
  /\ \A i \in 1..Len(e.d) : UlpWithin(e.dinv[i], e.recip_d[i], RecipUlps)
  /\ \A i \in 1..Len(e.e) : UlpWithin(e.einv[i], e.recip_e[i], RecipUlps)

\* internal data = c*D*P*D, E*A*D, c*D*q, E*b entry for entry (pairs <<internal, expected>>)
Products(e) ==
  \A k \in 1..Len(e.pairs) : LET p == e.pairs[k] IN FEq(p[1], p[2]) \/ UlpWithin(p[1], p[2], ProdUlps)

\* structure of the data is never changed by equilibration
SamePattern(e) == e.same_pattern

EventOK(e) ==
  /\ SamePattern(e)
  /\ IF ~e.enable THEN (Disabled(e) /\ Reciprocals(e))      \* (identity scaling: the stored inverses are ones too)
     ELSE Bounded(e) /\ ZeroUnscaled(e) /\ ConePreserving(e) /\ Reciprocals(e) /\ Products(e)

VARIABLES l, bad
Next == /\ l <= Len(Rec) /\ l' = l + 1
        /\ bad' = IF EventOK(Rec[l]) \/ Len(bad) >= 40 THEN bad ELSE Append(bad, l)
Spec == l = 1 /\ bad = <<>> /\ [][Next]_<<l, bad>>
Export == (l = Len(Rec) + 1) => (TLCSet(1, Len(bad)) /\ (bad # <<>> => PrintT("BAD-EVENTS " \o ToString(bad))))
TraceAccepted ==
  LET n == TLCGet("stats").diameter - 1 IN
  IF n = Len(Rec) /\ TLCGet(1) = 0 THEN TRUE
  ELSE PrintT(<<"TRACE-REJECTED at event", n + 1, "of", Len(Rec)>>) /\ FALSE
=============================================================================
