------------------------------- MODULE MC_IPM -------------------------------
(* Bounded instance of IPM: every configuration class and every max_iter up to MaxK,
   all numerical outcomes chosen nondeterministically. *)
EXTENDS IPM
CONSTANT MaxK
Confs == { [maxiter |-> k, sym |-> s, pd |-> p] : k \in 0..MaxK, s \in BOOLEAN, p \in BOOLEAN }
Init == \E c \in {c \in Confs : c.sym => c.pd} : InitWith(c)
Spec     == Init /\ [][Next]_vars
FairSpec == Spec /\ WF_vars(Next)
=============================================================================
