----------------------------- MODULE Centrality -----------------------------
(***************************************************************************)
(* The centrality line search of the dual scaling strategy                  *)
(* (Solver::backtrack_step_to_barrier + Variables::barrier).                *)
(*                                                                         *)
(* After the cone step length alpha0 has been found, a combined step under  *)
(* dual scaling is shortened geometrically until the neighbourhood function *)
(*     B(alpha) = (nu + 1) log mu(alpha) - log tau(alpha) - log kappa(alpha) *)
(*                + sum over the cones of their barrier term at              *)
(*                  (s + alpha ds, z + alpha dz)                             *)
(* is below 1, with mu(alpha) = (<s + alpha ds, z + alpha dz> +              *)
(* tau(alpha) kappa(alpha)) / (nu + 1).                                      *)
(*                                                                         *)
(* Design half (this module, MC_Centrality.cfg): the search as a state      *)
(* machine over an arbitrary pass/fail oracle - every oracle over N probes   *)
(* is enumerated.  Invariants: at most N probes; the value handed back is    *)
(* the first probed value that passed (FirstPassing), never larger than      *)
(* alpha0 (NoLonger); and the named deviation GiveUp: when all N probes      *)
(* fail the code hands back the NEXT value of the sequence, which was never  *)
(* probed (GaveUpUntested states exactly that, so that a change which        *)
(* starts testing it, or returns the last tested one, shows up).             *)
(*                                                                         *)
(* Trace half (Trace_Centrality.tla): one event per call  *)
(* of the search in recorded runs.  TLC re-derives the protocol from the     *)
(* logged probes (geometric sequence bit for bit, pass = value < 1 on the    *)
(* ordered-float limbs, first passing probe returned, N = 50) and compares   *)
(* the content of every probe with the observer: mu(alpha), the scalar part, *)
(* and the barrier term of every symmetric cone                              *)
(*     zero cone         0                                                  *)
(*     second-order      -1/2 log(s0^2 - |s1|^2) - 1/2 log(z0^2 - |z1|^2)   *)
(*     PSD               -log det S - log det Z                              *)
(*     nonnegative       + sum log(s_i z_i)      (AS IN THE CODE: the sign   *)
(*                        is the opposite of the textbook barrier; named     *)
(*                        deviation, DESIGN I.12 - with the textbook sign    *)
(*                        a third of the generalised-power + nonnegative     *)
(*                        problems of family G stop with InsufficientProgress)*)
(* and the sum of all logged cone terms with the logged total.  The terms of *)
(* the nonsymmetric cones are taken as logged: their barrier functions are   *)
(* C14's subject (ConeBarrier.tla).                                          *)
(***************************************************************************)
EXTENDS Integers, Sequences, FiniteSets, TLC

-----------------------------------------------------------------------------
(* design half *)
CONSTANT N                       \* number of probes before giving up (50 in the code)
VARIABLES pc, k, oracle, ret     \* k: index of the value under test (0 = alpha0), ret: index handed back
dvars == <<pc, k, oracle, ret>>

DInit == /\ pc = "probe" /\ k = 0 /\ ret = -1
         /\ oracle \in [0..N -> BOOLEAN]           \* oracle[i]: B(step^i alpha0) < 1
Probe == /\ pc = "probe" /\ k < N
         /\ IF oracle[k] THEN pc' = "done" /\ ret' = k /\ k' = k
            ELSE k' = k + 1 /\ UNCHANGED <<pc, ret>>
         /\ UNCHANGED oracle
GiveUp == /\ pc = "probe" /\ k = N
          /\ pc' = "gaveup" /\ ret' = N /\ UNCHANGED <<k, oracle>>
DNext == Probe \/ GiveUp \/ (pc # "probe" /\ UNCHANGED dvars)
DSpec == DInit /\ [][DNext]_dvars /\ WF_dvars(DNext)

FirstPassing == pc = "done" => oracle[ret] /\ \A i \in 0..(ret - 1) : ~oracle[i]
NoLonger     == pc # "probe" => ret >= 0
GaveUpUntested == pc = "gaveup" => (ret = N /\ \A i \in 0..(N - 1) : ~oracle[i])   \* index N itself was never tested
Bounded      == k <= N
Terminates   == <>(pc # "probe")

=============================================================================
