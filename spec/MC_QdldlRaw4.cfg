SPECIFICATION Spec
CONSTANT MaxDim = 4
INVARIANTS AcceptedIsWellFormed Emit
CHECK_DEADLOCK FALSE
