SPECIFICATION Spec
CONSTANT MaxDim = 3
INVARIANTS AcceptedIsWellFormed Emit
CHECK_DEADLOCK FALSE
