------------------------------- MODULE Print -------------------------------
(***************************************************************************)
(* C20: routing of solver output.  Abstract state: the print target and the *)
(* ghost byte log of every target.  The bounded part (MC_Print) explores    *)
(* target switching; the trace part validates PrintCase events recorded     *)
(* from the real solver: identical bytes on buffer/stream/file, silence     *)
(* with verbose off, get_print_buffer only on Buffer, the configuration      *)
(* header equal to the internal problem facts, row/footer shape, and the     *)
(* last row agreeing with the returned solution.                             *)
(***************************************************************************)
EXTENDS Integers, Sequences, FiniteSets, FloatOrd, Json, IOUtils, TLC

Targets == {"Stdout", "File", "Stream", "Buffer", "Sink"}

\* ---- design level: a solver's target, verbosity, and per-target ghost logs -------------
CONSTANT MaxHist        \* 0: no history kept (trace validation, MC_Print); k > 0: behaviours of k steps are exported for replay
VARIABLES target, verbose, logs, l, hist
pvars == <<target, verbose, logs, l, hist>>
Rem(a) == hist' = IF MaxHist > 0 THEN Append(hist, a) ELSE hist
Open == MaxHist = 0 \/ Len(hist) < MaxHist

Emit(chunk) == logs' = [logs EXCEPT ![target] = IF verbose THEN Append(@, chunk) ELSE @]

SetTarget(t) == Open /\ target' = t /\ logs' = [logs EXCEPT !["Buffer"] = IF t = "Buffer" THEN <<>> ELSE @]
                /\ Rem([op |-> "target", t |-> t]) /\ UNCHANGED <<verbose, l>>
SetVerbose(v) == Open /\ verbose' = v /\ Rem([op |-> "verbose", v |-> v]) /\ UNCHANGED <<target, logs, l>>
\* a whole solve emits Banner Config Header Row+ Footer to the current target only
Solve == /\ Open
         /\ logs' = [logs EXCEPT ![target] = IF verbose THEN @ \o <<"Banner", "Config", "Header", "Row", "Footer">> ELSE @]
         /\ Rem([op |-> "solve"]) /\ UNCHANGED <<target, verbose, l>>
GetBufferOk == target = "Buffer"

DInit == target = "Stdout" /\ verbose = TRUE /\ logs = [t \in Targets |-> <<>>] /\ l = 1 /\ hist = <<>>
DNext == (\E t \in Targets : SetTarget(t)) \/ (\E v \in BOOLEAN : SetVerbose(v)) \/ Solve
DSpec == DInit /\ [][DNext]_pvars
\* only the current target ever grows; nothing is written while verbose is off
OnlyCurrentGrows == [][\A t \in Targets : (logs'[t] # logs[t] /\ Len(logs'[t]) > Len(logs[t])) => (t = target /\ verbose)]_pvars
Bounded == \A t \in Targets : Len(logs[t]) <= 10
\* spec -> impl: one line per behaviour of MaxHist steps; the replayer drives a real solver through the same calls and compares,
\* per target, the number of complete logs received (and whether get_print_buffer is available at the end).  Behaviours
\* that would print to the process's real stdout are not exported.
Logs(t) == Cardinality({k \in 1..Len(logs[t]) : logs[t][k] = "Banner"})
NoStdoutOutput == logs["Stdout"] = <<>>
EmitReplay == (MaxHist > 0 /\ Len(hist) = MaxHist /\ NoStdoutOutput) =>
   PrintT(<<"REPLAY", ToJson([hist |-> hist, buffer |-> Logs("Buffer"), stream |-> Logs("Stream"), file |-> Logs("File"),
                               getbuf_ok |-> GetBufferOk])>>)

\* ---- trace level ------------------------------------------------------------------------
Rec == ndJsonDeserialize(IOEnv.TRACE)
Within(x, lo, hi) == FLe(lo, x) /\ FLe(x, hi)

Has(r, k) == k \in DOMAIN r

ShownDims(d) == IF Len(d) <= 5 THEN [list |-> d, ellipsis |-> FALSE]
                ELSE [list |-> SubSeq(d, 1, 4) \o <<d[Len(d)]>>, ellipsis |-> TRUE]

ConfigOK(e) ==
  LET c == e.config i == e.internal IN
  /\ c.n = i.n /\ c.m = i.m /\ c.nnzP = i.nnzP /\ c.nnzA = i.nnzA /\ c.ncones = i.ncones
  /\ c.max_iter = i.max_iter
  /\ c.settings = i.settings        \* every figure of the settings block, in order, as documented
  /\ (i.has_presolver <=> Has(c, "removed"))
  /\ Has(c, "removed") => c.removed = i.removed
  \* cone counts by type: every internal type is listed with its count, and nothing else
  /\ \A name \in DOMAIN i.cones : Has(c, "cone_" \o name) /\ c["cone_" \o name] = i.cones[name]
  /\ \A name \in {"Zero", "Nonnegative", "SecondOrder", "Exponential", "Power", "GenPower", "PSDTriangle"} :
        Has(c, "cone_" \o name) => name \in DOMAIN i.cones
  \* the linear-algebra line names the backend actually in use
  /\ Has(c, "linalg") /\ c.linalg = i.linalg
  \* a chordal decomposition block appears exactly when a decomposition is active, with the settings and counts in force
  /\ Has(c, "chordal") <=> i.chordal_active
  /\ i.chordal_active => \A k \in DOMAIN i.chordal : Has(c.chordal, k) /\ c.chordal[k] = i.chordal[k]
  \* cone dimensions by type: all of them up to five, otherwise the first four, an ellipsis and the last one
  /\ \A name \in DOMAIN i.dims : Has(c, "dims_" \o name) /\ c["dims_" \o name] = ShownDims(i.dims[name])

RowsOK(e) ==
  LET r == e.parsed.rows IN
  /\ e.parsed.shape_ok
  /\ Len(r) >= 1 /\ r[1] = 0
  /\ \A k \in 1..(Len(r) - 1) : r[k] <= r[k + 1]
  /\ r[Len(r)] = e.iterations
  /\ e.parsed.footer = e.status
  \* the step column shows dashes on the rows of iteration 0 (no step has been taken) and a figure on every other row
  /\ Len(e.parsed.step_dashes) = Len(r)
  /\ \A k \in 1..Len(r) : e.parsed.step_dashes[k] <=> (r[k] = 0)

\* the figures in the last line agree with the returned solution (to print precision)
LastRowOK(e) ==
  LET w == e.last IN
  /\ w.has /\ w.iter = e.iterations
  /\ Within(w.pres, w.pres_lo, w.pres_hi) /\ Within(w.dres, w.dres_lo, w.dres_hi)
  /\ ~w.infeas => (Within(w.pcost, w.pcost_lo, w.pcost_hi) /\ Within(w.dcost, w.dcost_lo, w.dcost_hi))
  /\ Within(w.gap, w.gap_lo, w.gap_hi)                    \* the gap column is the smaller of the absolute and the relative gap
  /\ ~w.step_dashes => Within(w.step, w.step_lo, w.step_hi) \* the step column is the length of the last step (0 when none was taken)

CaseOK(e) ==
  /\ e.same_stream /\ e.same_file /\ e.len_buffer > 0
  /\ e.rebuffer_fresh                                      \* print_to_buffer on a buffer target starts an empty buffer
  /\ e.reread_same                                         \* reading the buffer does not empty it
  /\ e.clone_same                                          \* a copy of the info object (Clone) reads the same log
  /\ e.two_solves_same                                     \* after a second solve buffer and stream both hold both logs
  /\ e.same_short_stream                                   \* a stream accepting a few bytes per call gets every byte
  /\ e.len_quiet_buffer = 0 /\ e.len_quiet_stream = 0 /\ e.len_after_sink = 0
  /\ e.getbuf_err = <<TRUE, TRUE, TRUE>>
  /\ ConfigOK(e) /\ RowsOK(e)
  /\ (IOEnv.STRICT_LAST_ROW = "1") => LastRowOK(e)

TCase == l <= Len(Rec) /\ Rec[l].ev = "PrintCase" /\ CaseOK(Rec[l]) /\ l' = l + 1
         /\ UNCHANGED <<target, verbose, logs, hist>>
\* the sink is silent for the process too (nothing on its real standard output); the stdout target is not
TSink == l <= Len(Rec) /\ Rec[l].ev = "SinkChild" /\ Rec[l].ok
         /\ (IF Rec[l].mode = "sink" THEN Rec[l].stdout_len = 0 ELSE Rec[l].stdout_len > 0)
         /\ l' = l + 1 /\ UNCHANGED <<target, verbose, logs, hist>>
\* a single-precision solve: the header names the precision in use, the table has the usual shape
TF32 == l <= Len(Rec) /\ Rec[l].ev = "PrintF32"
        /\ Rec[l].precision = "32" /\ Rec[l].n = 2 /\ Rec[l].m = 3
        /\ RowsOK(Rec[l])
        /\ l' = l + 1 /\ UNCHANGED <<target, verbose, logs, hist>>
TSpec == DInit /\ [][TCase \/ TSink \/ TF32]_pvars
TraceAccepted ==
  LET n == TLCGet("stats").diameter - 1 IN
  IF n = Len(Rec) THEN TRUE
  ELSE PrintT(<<"TRACE-REJECTED at event", n + 1, "of", Len(Rec)>>) /\ FALSE
=============================================================================
