------------------------------ MODULE MC_Qdldl ------------------------------
(* Bounded instances of Qdldl.  Negative numbers and tuples cannot be written in .cfg files,
   so the candidate sets are defined here and selected by the configuration. *)
EXTENDS Qdldl

AllVecs(S) == [1..N -> S]
Perms_all    == AllVecs(0..N)                 \* every vector in (0..N)^N: valid, repeated, out of range
Perms_valid  == {p \in AllVecs(0..(N-1)) : IsValidPerm(p)}
Perms_ident  == {[k \in 1..N |-> k - 1]}
Signs_all    == AllVecs({-1, 1})
Signs_pos    == {[k \in 1..N |-> 1]}
Signs_quasi  == {[k \in 1..N |-> IF k = N THEN -1 ELSE 1], [k \in 1..N |-> 1]}
RegOff == [on |-> FALSE, eps |-> RZero, delta |-> RZero]
RegOn  == [on |-> TRUE, eps |-> RNorm(1, 4), delta |-> RNorm(1, 2)]
\* edge settings: regularisation enabled but unable to make a pivot nonzero
RegEps0   == [on |-> TRUE, eps |-> RZero, delta |-> RNorm(1, 2)]
RegEpsNeg == [on |-> TRUE, eps |-> RNorm(-1, 4), delta |-> RNorm(1, 2)]
RegDelta0 == [on |-> TRUE, eps |-> RNorm(1, 4), delta |-> RZero]
Reg_edge     == {RegEps0, RegEpsNeg, RegDelta0}
Reg_both     == {RegOff, RegOn}
Reg_off      == {RegOff}
Reg_on       == {RegOn}
Diag_full    == {-1, 1, 2}
Diag_x       == {X, -1, 1, 2}
Diag_wide    == {X, -2, -1, 0, 1, 2}
Off_x        == {X, -1, 1}
Off_wide     == {X, -2, -1, 0, 1, 2}
Diag_hist    == {2, -1}
Diag_two     == {2}
Diag_hx      == {X, 2}
Logical_no   == {FALSE}
Logical_both == BOOLEAN
Diag_pm      == {X, -1, 2}
Perms_two    == {[k \in 1..N |-> k - 1], [k \in 1..N |-> N - k]}
Off_hist     == {X, 1}
=============================================================================
