SPECIFICATION TSpec
INVARIANT Export
POSTCONDITION TraceAccepted
CHECK_DEADLOCK FALSE
