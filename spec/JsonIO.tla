------------------------------- MODULE JsonIO -------------------------------
(***************************************************************************)
(* C19: saving a problem to JSON and loading it back.                       *)
(* Design level: a file is Saved from a solver, possibly damaged by one      *)
(* fault (truncation at a byte offset, deletion of a byte, or a semantic     *)
(* corruption of one site), then Loaded.  Load never panics; it returns Err  *)
(* for every file that is not JSON, does not match the schema, describes a   *)
(* non-canonical matrix or inconsistent dimensions, and Ok otherwise.        *)
(* Whether a damaged file that is still JSON is structurally valid is        *)
(* decided HERE, by the Canonical predicate of Csc.tla and the dimension     *)
(* predicates of the constructor, on the integer fields decoded by an        *)
(* independent parser.  Round trips of undamaged files must reproduce data,  *)
(* cones and settings.                                                       *)
(***************************************************************************)
EXTENDS Csc, FloatOrd, Json, IOUtils

Rec == ndJsonDeserialize(IOEnv.TRACE)

RoundTripUlps == 16

\* settings supplied at load time replace the stored ones, so only their validity counts then
EffectiveSettingsValid(e) == IF e.override = "none" THEN e.settings_valid ELSE e.override = "valid"

\* classification of a (possibly damaged) file
Class(e) ==
  IF ~e.json_ok THEN "NotJson"
  ELSE IF ~e.schema_ok THEN "Schema"
  ELSE IF ~(Canonical(e.P) /\ Canonical(e.A)) THEN "Struct"
  ELSE IF ~(e.P.m = e.P.n /\ e.P.n = e.nq /\ e.A.n = e.nq /\ e.A.m = e.nb /\ e.cone_rows = e.nb) THEN "Dims"
  ELSE IF ~e.cone_params_ok THEN "ConeParams"
  ELSE IF ~EffectiveSettingsValid(e) THEN "Settings"
  ELSE "ok"

FaultOK(e) ==
  LET c == Class(e) IN
  /\ e.outcome # "panic"                                     \* never a panic
  /\ c \in {"NotJson", "Schema", "Struct", "Dims"} => e.outcome = "err"
  /\ c = "ok" => e.outcome = "ok"
  /\ c = "Settings" => e.outcome = "err"                    \* unusable settings (stored or supplied) are reported
  /\ e.intended # "any" => c = e.intended                    \* the fault generator's intent, cross-checked

RoundTripOK(e) ==
  /\ e.save_ok /\ e.load_ok
  /\ e.settings_equal /\ e.timelimit_roundtrip
  /\ e.override_applied
  /\ ~e.reduced =>
       /\ e.cones_equal /\ e.pattern_equal
       /\ \A k \in 1..Len(e.pairs) :
            LET p == e.pairs[k] IN
            IF e.equil THEN FSame(p[1], p[2]) \/ UlpWithin(p[1], p[2], RoundTripUlps) ELSE FSame(p[1], p[2])
       /\ ~e.equil => e.bits_equal
  \* in all cases: same verdict and objective when the loaded problem is solved
  /\ e.status_equal
  /\ e.obj_ok

\* one settings field (or all of them) set to a non-default value on the saving solver
SettingsTripOK(e) == e.save_ok /\ e.load_ok /\ e.settings_equal /\ e.timelimit_roundtrip

EventOK(e) == IF e.ev = "Fault" THEN FaultOK(e) ELSE IF e.ev = "SettingsTrip" THEN SettingsTripOK(e) ELSE RoundTripOK(e)

VARIABLES l, bad
Next == /\ l <= Len(Rec) /\ l' = l + 1
        /\ bad' = IF EventOK(Rec[l]) \/ Len(bad) >= 40 THEN bad ELSE Append(bad, l)
Spec == l = 1 /\ bad = <<>> /\ [][Next]_<<l, bad>>
Export == (l = Len(Rec) + 1) => (TLCSet(1, Len(bad)) /\ (bad # <<>> => PrintT("BAD-EVENTS " \o ToString(bad))))
TraceAccepted ==
  LET n == TLCGet("stats").diameter - 1 IN
  IF n = Len(Rec) /\ TLCGet(1) = 0 THEN TRUE
  ELSE PrintT(<<"TRACE-REJECTED at event", n + 1, "of", Len(Rec)>>) /\ FALSE
=============================================================================
