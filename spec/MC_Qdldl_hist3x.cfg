SPECIFICATION Spec
CONSTANTS
  N = 3
  DiagVals <- Diag_hx
  OffVals <- Off_hist
  PermSet <- Perms_two
  SignSet <- Signs_quasi
  RegSet <- Reg_both
  LogicalSet <- Logical_both
  MaxOps = 2
INVARIANTS NoZeroPivot EmitHist
CHECK_DEADLOCK FALSE
