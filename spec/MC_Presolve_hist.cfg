SPECIFICATION Spec
CONSTANTS
  ConeMenu <- Menu_quick
  MaxCones = 2
  MaxM = 3
  BClasses <- B_three
  Bounds <- Bnd_two
INVARIANTS DropRule ReducedConsistent CollapsePreservesRows Emit
PROPERTY BoundFrozen
CHECK_DEADLOCK FALSE
