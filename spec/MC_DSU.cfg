SPECIFICATION SpecU
CONSTANTS
  N = 5
  MaxOps = 4
  AsFound = FALSE
INVARIANTS Correct Forest RankBound Emit
CHECK_DEADLOCK FALSE
