---------------------------- MODULE RefineRules ----------------------------
(* The decision table of DirectLDLKKTSolver::iterative_refinement as pure operators over the outcomes of the
   comparisons the code makes.  Used by the design-level model (Refine.tla, abstract norms) and by the trace
   specification (Trace_Refine.tla, ordered-float limbs), so that both follow one table. *)

\* at the top of a loop pass: stop as converged, stop because the budget is used up, or refine once more
LoopDecision(budget_left, below_threshold) ==
  IF ~budget_left THEN "exhausted" ELSE IF below_threshold THEN "converged" ELSE "refine"

\* after a refinement produced a candidate: finite = its residual norm is finite; stalled = improvement ratio below
\* the stop ratio; better = improvement ratio above one
StepOutcome(finite, stalled, better) ==
  IF ~finite THEN "fail"
  ELSE IF stalled THEN (IF better THEN "swap_stop" ELSE "keep_stop")
  ELSE "swap_continue"

Swaps(o) == o \in {"swap_stop", "swap_continue"}
Stops(o) == o \in {"swap_stop", "keep_stop", "fail"}
=============================================================================
