----------------------------- MODULE Rational -----------------------------
(***************************************************************************)
(* Exact rational arithmetic on pairs <<num, den>>, den > 0, gcd-normalised *)
(* (DESIGN D1): lets the specification compute the same values the code     *)
(* computes in f64 whenever the inputs are small integers.                  *)
(***************************************************************************)
EXTENDS Integers

RECURSIVE Gcd(_, _)
Gcd(a, b) == IF b = 0 THEN a ELSE Gcd(b, a % b)
Abs(x) == IF x < 0 THEN -x ELSE x

RNorm(p, q) == LET s == IF q < 0 THEN -1 ELSE 1
                   g == Gcd(Abs(p), Abs(q))
               IN IF p = 0 THEN <<0, 1>> ELSE <<(s * p) \div g, (s * q) \div g>>
RInt(k)    == <<k, 1>>
RZero      == <<0, 1>>
ROne       == <<1, 1>>
RAdd(a, b) == RNorm(a[1] * b[2] + b[1] * a[2], a[2] * b[2])
RNeg(a)    == <<-a[1], a[2]>>
RSub(a, b) == RAdd(a, RNeg(b))
RMul(a, b) == RNorm(a[1] * b[1], a[2] * b[2])
RInv(a)    == RNorm(a[2], a[1])              \* a # 0
RDiv(a, b) == RMul(a, RInv(b))
RIsZero(a) == a[1] = 0
RLt(a, b)  == a[1] * b[2] < b[1] * a[2]
REq(a, b)  == a[1] * b[2] = b[1] * a[2]
RSign(a)   == IF a[1] > 0 THEN 1 ELSE IF a[1] < 0 THEN -1 ELSE 0
=============================================================================
