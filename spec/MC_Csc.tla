------------------------------- MODULE MC_Csc -------------------------------
(* Guards the specification itself: algebraic laws of the abstract operations over every
   canonical encoding of every pattern up to MaxM x MaxN with values in Vals, with the
   canonical encoding built INSIDE TLC (Encode), so that the laws need no implementation. *)
EXTENDS Csc
CONSTANTS MaxM, MaxN, Vals

\* canonical encoding of a partial map pm : positions -> values on an m x n grid
PosSeq(P, n) == \* positions sorted column-major
  LET RECURSIVE Build(_, _)
      Build(j, acc) == IF j = n THEN acc
                       ELSE LET rows == {p[1] : p \in {q \in P : q[2] = j}}
                                RECURSIVE Asc(_, _)
                                Asc(S, a) == IF S = {} THEN a
                                             ELSE LET mn == CHOOSE x \in S : \A y \in S : x <= y
                                                  IN Asc(S \ {mn}, Append(a, <<mn, j>>))
                            IN Build(j + 1, Asc(rows, acc))
  IN Build(0, <<>>)
Encode(pm, m, n) ==
  LET ps == PosSeq(DOMAIN pm, n) IN
  [m |-> m, n |-> n,
   colptr |-> [j \in 1..(n + 1) |-> Cardinality({k \in 1..Len(ps) : ps[k][2] < j - 1})],
   rowval |-> [k \in 1..Len(ps) |-> ps[k][1]],
   nzval  |-> [k \in 1..Len(ps) |-> pm[ps[k]]]]

VARIABLES m, n, pm
Init == /\ m \in 0..MaxM /\ n \in 0..MaxN
        /\ \E P \in SUBSET ((0..(m - 1)) \X (0..(n - 1))) : pm \in [P -> Vals]
Next == UNCHANGED <<m, n, pm>>
Spec == Init /\ [][Next]_<<m, n, pm>>

M == Encode(pm, m, n)
Tr(X) == Encode([p \in { <<q[2], q[1]>> : q \in Stored(X) } |-> Val(X, p[2], p[1])], X.n, X.m)
Triu(X) == Encode([p \in {q \in Stored(X) : q[1] <= q[2]} |-> Val(X, p[1], p[2])], X.m, X.n)

EncodeCanonical  == Canonical(M) /\ SMap(M) = pm
TransposeInvol   == Tr(Tr(M)) = M
TriuIdempotent   == m = n => Triu(Triu(M)) = Triu(M)
DenseAgrees      == \A p \in (0..(m - 1)) \X (0..(n - 1)) : Dense(M)[p] = At(M, p[1], p[2])
TransposeSpecOK  == ExpTranspose([inp |-> M, out |-> Tr(M)])
=============================================================================
