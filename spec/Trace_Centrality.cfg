SPECIFICATION Spec
INVARIANT Export
POSTCONDITION TraceAccepted
CHECK_DEADLOCK FALSE
