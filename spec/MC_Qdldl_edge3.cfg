SPECIFICATION Spec
CONSTANTS
  N = 3
  DiagVals <- Diag_x
  OffVals <- Off_x
  PermSet <- Perms_valid
  SignSet <- Signs_quasi
  RegSet <- Reg_edge
  LogicalSet <- Logical_no
  MaxOps = 0
INVARIANTS FactorisationExact RegularisedPivots NoZeroPivot EmitNew
CHECK_DEADLOCK FALSE
