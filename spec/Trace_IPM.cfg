SPECIFICATION TraceSpec
INVARIANT TraceInv
POSTCONDITION TraceAccepted
CHECK_DEADLOCK FALSE
