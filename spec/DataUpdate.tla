----------------------------- MODULE DataUpdate -----------------------------
(***************************************************************************)
(* C08: updating problem data in place is equivalent to rebuilding.         *)
(* Abstract state: the user-level data P, q, A, b as vectors of VERSION     *)
(* identifiers (0 = value at construction, 1, 2 = alternative values; the   *)
(* harness maps versions to concrete numbers), the set of targets whose     *)
(* internal copies may be out of sync after a rejected partial update       *)
(* (`tainted`: the code applies the entries before the offending index and  *)
(* returns early; the property leaves the consequences open), and whether   *)
(* presolve / chordal decomposition is active.                              *)
(* Actions: one per argument form of update_P/q/A/b, update_data, Solve.    *)
(***************************************************************************)
EXTENDS Integers, Sequences, FiniteSets, TLC, Json

CONSTANTS Len_,          \* [P |-> nnz(P), q |-> n, A |-> nnz(A), b |-> m]
          Blocked,       \* "none" | "presolve" | "chordal": data updates are refused altogether
          Versions,      \* alternative value versions offered to updates, e.g. {1, 2}
          MaxOps

Targets == {"P", "q", "A", "b"}
Matrices == {"P", "A"}

VARIABLES data, tainted, hist, nops, solved
dvars == <<data, tainted, hist, nops, solved>>

Init == /\ data = [t \in Targets |-> [i \in 1..Len_[t] |-> 0]]
        /\ tainted = {} /\ hist = <<>> /\ nops = 0 /\ solved = FALSE

BlockedErr == IF Blocked = "presolve" THEN "PresolveIsActive" ELSE "ChordalDecompositionIsActive"

Log(rec) == hist' = Append(hist, rec) /\ nops' = nops + 1 /\ solved' = FALSE

\* every update first checks whether updates are allowed at all
Refused(t, form) ==
  /\ Blocked # "none"
  /\ Log([op |-> "update", t |-> t, form |-> form, ver |-> 1, result |-> BlockedErr, data |-> data])
  /\ UNCHANGED <<data, tainted>>

\* whole vector / value vector of the right length, or a matrix with matching pattern
UpdateFull(t, form, ver) ==
  /\ Blocked = "none" /\ form \in (IF t \in Matrices THEN {"full", "csc"} ELSE {"full"})
  /\ data' = [data EXCEPT ![t] = [i \in 1..Len_[t] |-> ver]]
  /\ tainted' = tainted \ {t}                        \* a full rewrite re-synchronises everything
  /\ Log([op |-> "update", t |-> t, form |-> form, ver |-> ver, result |-> "Ok", data |-> data'])

\* wrong length, wrong dimensions or wrong sparsity pattern: an error and NOTHING changes
UpdateRejected(t, form) ==
  /\ Blocked = "none"
  /\ form \in (IF t \in Matrices THEN {"full_badlen", "csc_badpattern", "csc_baddim"} ELSE {"full_badlen"})
  /\ Log([op |-> "update", t |-> t, form |-> form, ver |-> 1,
          result |-> IF form = "csc_badpattern" THEN "SparsityMismatch" ELSE "IncompatibleDimension", data |-> data])
  /\ UNCHANGED <<data, tainted>>

UpdateEmpty(t) ==
  /\ Blocked = "none"
  /\ Log([op |-> "update", t |-> t, form |-> "empty", ver |-> 0, result |-> "Ok", data |-> data])
  /\ UNCHANGED <<data, tainted>>

\* index-value pairs, all in range: which = "first" | "last" | "both" (applied in that order)
PartialIdx(t, which) == CASE which = "first" -> <<1>> [] which = "last" -> <<Len_[t]>> [] which = "both" -> <<Len_[t], 1>>
UpdatePartial(t, which, ver) ==
  /\ Blocked = "none" /\ Len_[t] >= 1
  /\ LET idx == PartialIdx(t, which) IN
     data' = [data EXCEPT ![t] = [i \in 1..Len_[t] |-> IF \E k \in 1..Len(idx) : idx[k] = i THEN ver ELSE @[i]]]
  /\ UNCHANGED tainted
  /\ Log([op |-> "update", t |-> t, form |-> "partial_" \o which, ver |-> ver, result |-> "Ok", data |-> data'])

\* index-value pairs whose SECOND index is out of range: the first entry is written, then an error is
\* returned before the dependent copies (KKT matrix, cached norms) are refreshed
UpdatePartialBad(t, ver) ==
  /\ Blocked = "none" /\ Len_[t] >= 1
  /\ data' = [data EXCEPT ![t] = [@ EXCEPT ![1] = ver]]
  /\ tainted' = tainted \cup {t}
  /\ Log([op |-> "update", t |-> t, form |-> "partial_bad", ver |-> ver, result |-> "IncompatibleDimension", data |-> data'])

\* update_data(P, q, A, b): the four updates in sequence, stopping at the first error; each argument is
\* "empty", a full vector of version v ("full"), or a vector of the wrong length ("bad")
Kinds == {"empty", "full", "bad"}
RECURSIVE ApplySeq(_, _, _, _)
ApplySeq(order, args, d, k) ==   \* returns <<data, result>>
  IF k > Len(order) THEN <<d, "Ok">>
  ELSE LET t == order[k] a == args[t] IN
       IF a.kind = "bad" THEN <<d, "IncompatibleDimension">>
       ELSE ApplySeq(order, args, IF a.kind = "full" THEN [d EXCEPT ![t] = [i \in 1..Len_[t] |-> a.ver]] ELSE d, k + 1)
UpdateData(args) ==
  /\ IF Blocked # "none"
     THEN /\ Log([op |-> "update_data", args |-> args, result |-> BlockedErr, data |-> data])
          /\ UNCHANGED <<data, tainted>>
     ELSE LET r == ApplySeq(<<"P", "q", "A", "b">>, args, data, 1) IN
          /\ data' = r[1]
          /\ tainted' = tainted \ {t \in Targets : r[1][t] # data[t]}
          /\ Log([op |-> "update_data", args |-> args, result |-> r[2], data |-> r[1]])

\* the next solve behaves as a solve of a freshly constructed solver on `data` (checked by the replayer
\* against a real fresh solver) -- asserted only when no copy can be out of sync
Solve ==
  /\ ~solved /\ nops <= MaxOps
  /\ hist' = Append(hist, [op |-> "solve", data |-> data, compare |-> (tainted = {})])
  /\ solved' = TRUE /\ UNCHANGED <<data, tainted, nops>>

Next ==
  \/ /\ nops < MaxOps
     /\ \/ \E t \in Targets, f \in {"full", "csc", "partial_first"} : Refused(t, f)
        \/ \E t \in Targets, f \in {"full", "csc"}, v \in Versions : UpdateFull(t, f, v)
        \/ \E t \in Targets, f \in {"full_badlen", "csc_badpattern", "csc_baddim"} : UpdateRejected(t, f)
        \/ \E t \in Targets : UpdateEmpty(t)
        \/ \E t \in Targets, w \in {"first", "last", "both"}, v \in Versions : UpdatePartial(t, w, v)
        \/ \E t \in Targets, v \in Versions : UpdatePartialBad(t, v)
        \/ \E ks \in [Targets -> Kinds] : UpdateData([t \in Targets |-> [kind |-> ks[t], ver |-> 2]])
  \/ Solve
Spec == Init /\ [][Next]_dvars

-----------------------------------------------------------------------------
\* rejected whole-vector / matrix updates leave the data untouched; refused updates change nothing
RejectedUntouched ==
  [][\A k \in 1..Len(hist') : TRUE]_dvars
UntouchedOnError ==
  \A k \in 1..Len(hist) :
     (hist[k].op = "update" /\ hist[k].result # "Ok" /\ hist[k].form # "partial_bad") =>
        hist[k].data = (IF k = 1 THEN [t \in Targets |-> [i \in 1..Len_[t] |-> 0]]
                        ELSE hist[k - 1].data)
\* when updates are blocked nothing ever changes
BlockedFrozen == Blocked # "none" => data = [t \in Targets |-> [i \in 1..Len_[t] |-> 0]]
\* taint only arises from a rejected partial update and is cleared only by rewriting that target
TaintSound == \A t \in tainted : \E k \in 1..Len(hist) : hist[k].op = "update" /\ hist[k].t = t /\ hist[k].form = "partial_bad"

Emit == (solved /\ (nops = MaxOps \/ Blocked # "none")) =>
          PrintT(<<"REPLAY", ToJson([blocked |-> Blocked, hist |-> hist])>>)
=============================================================================
