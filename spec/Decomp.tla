------------------------------- MODULE Decomp -------------------------------
(***************************************************************************)
(* C18: chordal decomposition and its reversal preserve the problem and its *)
(* solution.                                                                *)
(*                                                                         *)
(* The intended augmented problem is defined declaratively from the         *)
(* original layout (cone list, row ranges, entries of [A b]) and the clique *)
(* tree of every decomposed PSD cone (read through a hook):                 *)
(*   every cone that is not decomposed is copied;                           *)
(*   a decomposed cone becomes one PSD block per clique; block position     *)
(*   (a, b) (packed upper triangle, column-major, sorted clique vertices)   *)
(*   stands for entry (v_a, v_b) of the original cone, i.e. for original    *)
(*   row  lo + tri(v_b) + v_a ;                                             *)
(*   compact form: an entry whose two vertices both lie in the clique's     *)
(*   separator is an OVERLAP: it carries no data, and exactly one extra     *)
(*   column ties it (+1) to the same entry of the parent block (-1); every  *)
(*   other block position carries exactly the original row's entries;       *)
(*   standard form: [A H; 0 -I] with H a 0/1 selection matrix, one entry per *)
(*   column, preceded by a zero cone of the original size.                  *)
(* Reversal (after a real solve): the row map used to sum / select block    *)
(* entries is the same OrigRow map; the returned slack is the sum of the    *)
(* block entries, the returned dual agrees with (compact) or averages       *)
(* (standard) the block values, and its completion is PSD.                  *)
(***************************************************************************)
EXTENDS Integers, Sequences, FiniteSets, FloatOrd, Json, IOUtils, TLC

Rec == ndJsonDeserialize(IOEnv.TRACE)
SeqSet(s) == {s[i] : i \in 1..Len(s)}
Tri(k) == (k * (k + 1)) \div 2

\* block containing augmented row r2 (rows are 0-based; blocks carry 0-based inclusive ranges)
BlockOf(e, r2) == CHOOSE k \in 1..Len(e.blocks) : e.blocks[k].lo <= r2 /\ r2 <= e.blocks[k].hi
HasBlock(e, r2) == \E k \in 1..Len(e.blocks) : e.blocks[k].lo <= r2 /\ r2 <= e.blocks[k].hi

\* (a, b) of packed position p
ColOfPos(p) == CHOOSE b \in 0..(p + 1) : Tri(b) <= p /\ p < Tri(b + 1)
\* <<original row, is overlap>> of an augmented row
RowInfo(e, r2) ==
  LET k == BlockOf(e, r2) blk == e.blocks[k] oc == e.ocones[blk.orig] IN
  IF Len(blk.verts) = 0 THEN <<oc.lo + (r2 - blk.lo), FALSE>>
  ELSE LET p == r2 - blk.lo b == ColOfPos(p) a == p - Tri(b)
           u == blk.verts[a + 1] v == blk.verts[b + 1]
       IN <<oc.lo + Tri(v) + u, e.compact /\ u \in SeqSet(blk.sep) /\ v \in SeqSet(blk.sep)>>
OrigRow(e, r2) == RowInfo(e, r2)[1]
IsOverlap(e, r2) == RowInfo(e, r2)[2]

\* block structure common to both forms
BlocksOK(e) ==
  /\ \A k \in 1..Len(e.blocks) :
       LET blk == e.blocks[k] oc == e.ocones[blk.orig] IN
       /\ IF Len(blk.verts) = 0
          THEN blk.hi - blk.lo = oc.hi - oc.lo /\ blk.kind = oc.kind            \* copied cone
          ELSE /\ oc.kind = "Psd" /\ blk.kind = "Psd"
               /\ blk.hi - blk.lo + 1 = Tri(Len(blk.verts))                      \* PSD block of the clique size
               /\ \A i \in 1..(Len(blk.verts) - 1) : blk.verts[i] < blk.verts[i + 1]
               /\ SeqSet(blk.verts) \subseteq 0..(oc.dim - 1)
               /\ SeqSet(blk.sep) \subseteq SeqSet(blk.verts)
               /\ IF blk.parent = 0 THEN blk.sep = <<>>
                  ELSE /\ e.blocks[blk.parent].orig = blk.orig
                       /\ SeqSet(blk.sep) = SeqSet(blk.verts) \cap SeqSet(e.blocks[blk.parent].verts)
  \* consecutive, gap-free row ranges
  /\ \A k \in 1..(Len(e.blocks) - 1) : e.blocks[k + 1].lo = e.blocks[k].hi + 1
  \* original cones appear in order; every vertex of a decomposed cone is in some block
  /\ \A k \in 1..(Len(e.blocks) - 1) : e.blocks[k].orig <= e.blocks[k + 1].orig
  /\ \A c \in 1..Len(e.ocones) : \E k \in 1..Len(e.blocks) : e.blocks[k].orig = c
  /\ \A c \in 1..Len(e.ocones) :
       LET bs == {k \in 1..Len(e.blocks) : e.blocks[k].orig = c} IN
       (\E k \in bs : Len(e.blocks[k].verts) > 0) =>
          UNION {SeqSet(e.blocks[k].verts) : k \in bs} = 0..(e.ocones[c].dim - 1)

Entries(s) == SeqSet(s)

CompactOK(e) ==
  LET A2 == Entries(e.A2) Ao == Entries(e.Aorig)
      base == {t \in A2 : t[2] < e.n}            \* entries in the original columns
      extra == {t \in A2 : t[2] >= e.n}
      ovrows == {r2 \in 0..(e.m2 - 1) : IsOverlap(e, r2)}
  IN
  /\ BlocksOK(e) /\ e.blocks[1].lo = 0 /\ e.blocks[Len(e.blocks)].hi = e.m2 - 1
  \* every original entry of [A b] appears exactly once, in a non-overlap position that stands for its row
  /\ \A t \in base : ~IsOverlap(e, t[1]) /\ <<OrigRow(e, t[1]), t[2], t[3]>> \in Ao
  /\ \A o \in Ao : Cardinality({t \in base : t[2] = o[2] /\ t[3] = o[3] /\ OrigRow(e, t[1]) = o[1]}) = 1
  /\ Cardinality(base) = Cardinality(Ao)
  /\ \A t \in Entries(e.b2) : ~IsOverlap(e, t[1]) /\ <<OrigRow(e, t[1]), t[2]>> \in Entries(e.borig)
  /\ Cardinality(Entries(e.b2)) = Cardinality(Entries(e.borig))
  \* overlaps are tied by consistency constraints: one column per overlap entry, +1 at the child, -1 at the parent
  /\ e.n2 = e.n + Cardinality(ovrows)
  /\ \A c \in e.n..(e.n2 - 1) :
       LET col == {t \in extra : t[2] = c} IN
       /\ Cardinality(col) = 2
       /\ \E p, q \in col :
            /\ p[3] = 1 /\ q[3] = -1
            /\ IsOverlap(e, p[1])
            /\ BlockOf(e, q[1]) = e.blocks[BlockOf(e, p[1])].parent
            /\ OrigRow(e, q[1]) = OrigRow(e, p[1])
  /\ \A r2 \in ovrows : Cardinality({t \in extra : t[1] = r2 /\ t[3] = 1}) = 1

StandardOK(e) ==
  LET A2 == Entries(e.A2) Ao == Entries(e.Aorig) nH == e.n2 - e.n IN
  /\ BlocksOK(e) /\ e.std_zero_cone_ok
  /\ e.blocks[1].lo = e.m /\ e.blocks[Len(e.blocks)].hi = e.m2 - 1 /\ e.m2 = e.m + nH
  /\ {t \in A2 : t[2] < e.n} = Ao                                       \* [A ; 0] in the original columns
  /\ Entries(e.b2) = Entries(e.borig)
  /\ \A k \in 0..(nH - 1) :                                             \* column k of [H ; -I]
       {t \in A2 : t[2] = e.n + k} = {<<OrigRow(e, e.m + k), e.n + k, 1>>, <<e.m + k, e.n + k, -1>>}

AugmentedOK(e) == e.pq_ok /\ (IF e.compact THEN CompactOK(e) ELSE StandardOK(e))

\* reversal: the row map used by the observer is the specification's; sums / selections agree
ReversedOK(e) ==
  /\ \A i \in 1..Len(e.rowmap) : e.rowmap[i] = OrigRow(e, e.aug_lo + i - 1)
  /\ e.lens_ok
  /\ \A k \in 1..Len(e.s_pairs) : FSame(e.s_pairs[k][1], e.s_pairs[k][2]) \/ UlpWithin(e.s_pairs[k][1], e.s_pairs[k][2], 8)
  /\ \A k \in 1..Len(e.z_pairs) : e.z_pairs[k]           \* block agreement (compact) / average (standard), per original row
  /\ e.complete_dual => FGe(e.z_min_eig, e.eig_floor)     \* the completed dual is PSD

\* end to end: decomposition on vs off
PairOK(e) ==
  /\ e.comparable => (e.class1 = e.class2 /\ (e.class1 = "solved" => FLe(e.obj_diff, e.obj_bound)))
  /\ e.solved_on => (FLe(e.pres, e.pres_bound) /\ FLe(e.dres, e.dres_bound) /\ FGe(e.smin, e.floor) /\ FGe(e.zmin, e.floor))

EventOK(e) == CASE e.ev = "Augmented" -> AugmentedOK(e)
                [] e.ev = "Reversed" -> ReversedOK(e)
                [] e.ev = "DecompPair" -> PairOK(e)
                [] OTHER -> FALSE

VARIABLES l, bad
Next == /\ l <= Len(Rec) /\ l' = l + 1
        /\ bad' = IF EventOK(Rec[l]) \/ Len(bad) >= 40 THEN bad ELSE Append(bad, l)
Spec == l = 1 /\ bad = <<>> /\ [][Next]_<<l, bad>>
Export == (l = Len(Rec) + 1) => (TLCSet(1, Len(bad)) /\ (bad # <<>> => PrintT("BAD-EVENTS " \o ToString(bad))))
TraceAccepted ==
  LET n == TLCGet("stats").diameter - 1 IN
  IF n = Len(Rec) /\ TLCGet(1) = 0 THEN TRUE
  ELSE PrintT(<<"TRACE-REJECTED at event", n + 1, "of", Len(Rec)>>) /\ FALSE
=============================================================================
