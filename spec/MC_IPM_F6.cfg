SPECIFICATION Spec
CONSTANTS
  MaxK = 3
INVARIANTS LastRowMatches
CHECK_DEADLOCK FALSE
