SPECIFICATION LSpec
CONSTANTS
  Threads = {t1, t2, t3}
  InfVals = {"a", "b"}
INVARIANTS NoRaceNoSplit DefaultSeen
PROPERTY Frozen
CHECK_DEADLOCK FALSE
