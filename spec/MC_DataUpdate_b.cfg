SPECIFICATION Spec
CONSTANTS
  Len_ <- LenSmall
  Blocked = "presolve"
  Versions <- V1
  MaxOps = 1
INVARIANTS UntouchedOnError BlockedFrozen TaintSound Emit
CHECK_DEADLOCK FALSE
