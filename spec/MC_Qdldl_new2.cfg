SPECIFICATION Spec
CONSTANTS
  N = 2
  DiagVals <- Diag_wide
  OffVals <- Off_wide
  PermSet <- Perms_all
  SignSet <- Signs_all
  RegSet <- Reg_both
  LogicalSet <- Logical_no
  MaxOps = 0
INVARIANTS FactorisationExact RegularisedPivots NoZeroPivot EmitNew
CHECK_DEADLOCK FALSE
