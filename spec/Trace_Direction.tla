------------------------- MODULE Trace_Direction -------------------------
(***************************************************************************)
(* Binding of Direction.tla to the code: one event per call of              *)
(* DefaultKKTSystem::solve in recorded runs (hook StepSolved, emitted after *)
(* the step has been composed, with the vectors x1, z1, x2, z2, the step,   *)
(* the right-hand side and the iterate the call was given).                 *)
(*                                                                         *)
(* The observer re-evaluates, on the solver's internal data (P, q, A, b     *)
(* after equilibration) and with its own loops,                             *)
(*   tau_row     q'dx + b'dz + dkappa + 2 xi'P dx - (xi'P xi) dtau + rhs_tau = 0 *)
(*   kappa_row   tau dkappa + kappa dtau + rhs_kappa = 0                    *)
(*   compose_x   dx = x1 + dtau x2          compose_z   dz = z1 + dtau z2   *)
(*   rhs_x, rhs_z, rhs_tau, rhs_kappa                                       *)
(*               affine:   the residuals of the embedding at the iterate,   *)
(*                         rx = -P x - A'z - q tau, rz = A x + s - b tau,   *)
(*                         rtau = q'x + b'z + kappa + x'Px / tau,           *)
(*                         rkappa = tau kappa                               *)
(*               combined: (1 - sigma) times those, and                     *)
(*                         rkappa = tau kappa + m dtau_aff dkappa_aff - sigma mu *)
(*                         with sigma, mu, m of the pass's Centering event  *)
(* Each reaches TLC as <<|defect|, bound>>: the bound is a running          *)
(* rounding-error bound (sum of the absolute values of every product that   *)
(* enters the expression - also of the intermediate quantities that cancel  *)
(* inside the code's formula - times 64 (n + m + nnz + 8) machine epsilon), *)
(* never a tuned constant.  The two block rows that depend on the accuracy  *)
(* of the sparse solve (P dx + A'dz + q dtau = rhs_x, A dx + ds - b dtau =  *)
(* -rhs_z) are not demanded: the code does not promise a residual for them  *)
(* (iterative refinement stops when it stalls); their matrix is C11's, the  *)
(* factorisation C12's.                                                     *)
(***************************************************************************)
EXTENDS Integers, Sequences, FiniteSets, TLC, FloatOrd, Json, IOUtils

Rec == ndJsonDeserialize(IOEnv.TRACE)

Required == {"tau_row", "kappa_row", "compose_x", "compose_z", "rhs_x", "rhs_z", "rhs_tau", "rhs_kappa"}
Holds(e, name) == /\ name \in DOMAIN e.checks
                  /\ ~IsNaN(e.checks[name][1]) /\ ~IsNaN(e.checks[name][2])
                  /\ FLe(e.checks[name][1], e.checks[name][2])
DirOK(e) == /\ e.dir \in {"affine", "combined"}
            /\ \A name \in Required : Holds(e, name)
            /\ e.dir = "combined" => e.has_affine      \* a combined step follows the affine step of the same pass
EventOK(e) == CASE e.ev = "Dir" -> DirOK(e)
                [] OTHER -> FALSE

VARIABLES l, bad
Next == /\ l <= Len(Rec) /\ l' = l + 1
        /\ bad' = IF EventOK(Rec[l]) \/ Len(bad) >= 40 THEN bad ELSE Append(bad, l)
Spec == l = 1 /\ bad = <<>> /\ [][Next]_<<l, bad>>
Export == (l = Len(Rec) + 1) => (TLCSet(1, Len(bad)) /\ (bad # <<>> => PrintT("BAD-EVENTS " \o ToString(bad))))
TraceAccepted ==
  LET n == TLCGet("stats").diameter - 1 IN
  IF n = Len(Rec) /\ TLCGet(1) = 0 THEN TRUE
  ELSE PrintT(<<"TRACE-REJECTED at event", n + 1, "of", Len(Rec)>>) /\ FALSE
=============================================================================
