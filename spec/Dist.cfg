SPECIFICATION Spec
INVARIANT Export
POSTCONDITION Distribution
CHECK_DEADLOCK FALSE
