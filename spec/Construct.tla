----------------------------- MODULE Construct -----------------------------
(***************************************************************************)
(* C04, construction guard: DefaultSolver::new checks five dimension        *)
(* predicates (in this order) and panics with a documented message on the   *)
(* first that fails; with consistent dimensions construction and solve      *)
(* return a terminal status.  Validated against the real constructor on all *)
(* single-field perturbations of consistent dimension tuples.               *)
(***************************************************************************)
EXTENDS Integers, Sequences, Json, IOUtils, TLC

Rec == ndJsonDeserialize(IOEnv.TRACE)
VARIABLES l, nok, nrej
cvars == <<l, nok, nrej>>

Terminal == {"Solved", "AlmostSolved", "PrimalInfeasible", "DualInfeasible", "AlmostPrimalInfeasible",
             "AlmostDualInfeasible", "MaxIterations", "MaxTime", "NumericalError", "InsufficientProgress"}

\* index (0-based, as logged) of the first failing predicate, -1 if none
FirstFail(p) == IF \A i \in 1..5 : p[i] THEN -1
                ELSE (CHOOSE i \in 1..5 : ~p[i] /\ \A j \in 1..(i-1) : p[j]) - 1

New ==
  /\ l <= Len(Rec) /\ Rec[l].ev = "New" /\ l' = l + 1
  /\ LET e == Rec[l] ff == FirstFail(e.preds) IN
       IF ff = -1
       THEN e.outcome \in Terminal /\ nok' = nok + 1 /\ UNCHANGED nrej
       ELSE /\ e.outcome = "panic"
            /\ e.documented = ff            \* the documented message of the first failing check
            /\ nrej' = nrej + 1 /\ UNCHANGED nok

Init == l = 1 /\ nok = 0 /\ nrej = 0
Spec == Init /\ [][New]_cvars

Export == TLCSet(1, nok) /\ TLCSet(2, nrej)

TraceAccepted ==
  LET n == TLCGet("stats").diameter - 1 IN
  IF n = Len(Rec) /\ TLCGet(1) > 0 /\ TLCGet(2) > 0 THEN TRUE
  ELSE PrintT(<<"TRACE-REJECTED at event", n + 1, "of", Len(Rec)>>) /\ FALSE
=============================================================================
