----------------------------- MODULE Consistency -----------------------------
(***************************************************************************)
(* C05: equivalent formulations and configurations give consistent answers. *)
(*                                                                         *)
(* Design level (Lifecycle.tla): solver objects on concurrent threads share  *)
(* exactly one piece of mutable state, the module-level infinity bound,     *)
(* which DefaultSolver::new reads at two separate steps.  The model checks  *)
(* that a solver's outcome is a function of its own data, its settings and  *)
(* the bound(s) it read -- nothing another thread does can change it        *)
(* otherwise -- and documents the one race the API leaves open.             *)
(*                                                                         *)
(* Trace level: `Pair` events relate two real runs of the same mathematical *)
(* problem (base formulation vs. a transformed / reconfigured / concurrent / *)
(* repeated one), both mapped back to the base formulation by the observer: *)
(*   same verdict class;                                                     *)
(*   weak duality across runs:  d2 - p1 <= slack12  and  d1 - p2 <= slack21  *)
(*   (slack = ||g2|| ||x1|| + ||r1|| ||z2||, explicitly computed);           *)
(*   bit-for-bit equality where the property demands reproducibility.        *)
(***************************************************************************)
EXTENDS Integers, Sequences, FiniteSets, FloatOrd, Json, IOUtils, TLC

-----------------------------------------------------------------------------
(* trace level *)
Rec == ndJsonDeserialize(IOEnv.TRACE)

PairOK(e) ==
  /\ e.comparable =>
       /\ e.class1 = e.class2
       /\ (e.class1 = "solved") =>
            /\ FLe(e.d2_minus_p1, e.bound12)      \* weak duality across runs, both directions
            /\ FLe(e.d1_minus_p2, e.bound21)
       \* reported objective values agree within the gap tolerances plus the residual slacks
       /\ e.both_solved => FLe(e.obj_diff, e.obj_bound)
  /\ e.bit_required => e.bits_equal

\* Lifecycle.tla: the bound is ONE module-level variable - a set_infinity on one thread is what a solver built afterwards on
\* any other thread reads (`Shared` events: a row at 1e15 must be dropped by a solver built on a fresh thread after
\* set_infinity(1e10) on the recording thread, and the reinstated slack is that bound)
SharedOK(e) == e.dropped /\ e.slack_is_bound

EventOK(e) == IF e.ev = "Shared" THEN SharedOK(e) ELSE IF e.ev = "Pair" THEN PairOK(e) ELSE FALSE

VARIABLES l, bad
Next == /\ l <= Len(Rec) /\ l' = l + 1
        /\ bad' = IF EventOK(Rec[l]) \/ Len(bad) >= 40 THEN bad ELSE Append(bad, l)
Spec == l = 1 /\ bad = <<>> /\ [][Next]_<<l, bad>>
Export == (l = Len(Rec) + 1) => (TLCSet(1, Len(bad)) /\ (bad # <<>> => PrintT("BAD-EVENTS " \o ToString(bad))))
TraceAccepted ==
  LET n == TLCGet("stats").diameter - 1 IN
  IF n = Len(Rec) /\ TLCGet(1) = 0 THEN TRUE
  ELSE PrintT(<<"TRACE-REJECTED at event", n + 1, "of", Len(Rec)>>) /\ FALSE
=============================================================================
