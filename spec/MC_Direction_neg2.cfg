SPECIFICATION Spec
CONSTANTS
  Variant = "plus"
  SP = {0, 1, 3}
  SA = {1, 2}
  SQ = {0, 1, 2}
  SB = {1, 3}
  SH = {1, 2}
  SX = {1, 2}
  ST = {1, 2}
  SK = {1, 3}
  SR = {0, 1}
INVARIANTS XRow ZRow TauRow KappaRow SRow ReducedOK
CHECK_DEADLOCK FALSE
