-------------------------------- MODULE KKT --------------------------------
(***************************************************************************)
(* C11: the assembled KKT system is the intended matrix, for every cone     *)
(* layout and in either triangle.                                           *)
(*                                                                         *)
(* Structural layer.  The intended matrix is defined declaratively: for     *)
(* (P pattern, A pattern, cone list, triangle) every stored entry of K has  *)
(* an origin -- P(k), A(k), Hs(cone, i, j), a sparse-expansion vector entry, *)
(* a sparse-expansion diagonal entry, or a structural-zero fill of the P     *)
(* diagonal -- at a prescribed coordinate.  The index maps recorded by the   *)
(* real assembly (read through a hook) must send each origin to exactly that *)
(* coordinate, be injective with disjoint images and jointly cover K.        *)
(*                                                                         *)
(* Value layer (KKTState events, recorded after real solves): the KKT copy   *)
(* holds exactly the internal P and A and the (negated) Hs blocks, carries   *)
(* no regularisation, has the documented pivot sign pattern, and after       *)
(* eliminating the auxiliary variables the cone block maps z to s.           *)
(***************************************************************************)
EXTENDS Csc, FloatOrd, Json, IOUtils

Rec == ndJsonDeserialize(IOEnv.TRACE)

\* coordinate <<row, col>> of the idx-th (0-based) stored entry of K
ColOf(K, idx) == CHOOSE j \in 0..(K.n - 1) : K.colptr[j + 1] <= idx /\ idx < K.colptr[j + 2]
Coord(K, idx) == <<K.rowval[idx + 1], ColOf(K, idx)>>
\* place (i, j), i <= j, of the intended upper-triangular matrix into the requested triangle
Place(triu, i, j) == IF triu THEN <<i, j>> ELSE <<j, i>>

\* expected coordinates of the Hs entries, cone after cone, as one sequence
RECURSIVE HsCoords(_, _, _, _)
HsCoords(cones, n, triu, k) ==
  IF k > Len(cones) THEN <<>>
  ELSE LET c == cones[k]
           d == c.hi - c.lo + 1
           base == n + c.lo
           blk == IF c.diag
                  THEN [t \in 1..d |-> <<base + t - 1, base + t - 1>>]
                  ELSE \* dense block, packed upper triangle in column-major order
                       LET Pk(j) == (j * (j + 1)) \div 2          \* entries before column j (0-based)
                           ColOfPk(q) == CHOOSE j \in 0..(d - 1) : Pk(j) <= q /\ q < Pk(j + 1)
                       IN [q \in 1..((d * (d + 1)) \div 2) |->
                             LET j == ColOfPk(q - 1) i == (q - 1) - Pk(j) IN Place(triu, base + i, base + j)]
       IN blk \o HsCoords(cones, n, triu, k + 1)

\* expected coordinates of the sparse-expansion maps of the s-th sparse cone
SparseOK(K, e, s, pcol) ==
  LET sm == e.sparse[s] c == e.cones[sm.cone] base == e.n + c.lo triu == e.triu IN
  IF sm.kind = "soc"
  THEN /\ Len(sm.vecs[1]) = c.hi - c.lo + 1 /\ Len(sm.vecs[2]) = c.hi - c.lo + 1
       \* column order follows the sign pattern (-, +): v (negative pivot) first, then u
       /\ \A t \in 1..Len(sm.vecs[2]) : Coord(K, sm.vecs[2][t]) = Place(triu, base + t - 1, pcol)
       /\ \A t \in 1..Len(sm.vecs[1]) : Coord(K, sm.vecs[1][t]) = Place(triu, base + t - 1, pcol + 1)
       /\ Coord(K, sm.D[1]) = <<pcol, pcol>> /\ Coord(K, sm.D[2]) = <<pcol + 1, pcol + 1>>
       /\ sm.dsigns = <<-1, 1>>
  ELSE \* generalised power cone: p over all rows, q over the first dim1 rows, r over the last dim2 rows
       LET d == c.hi - c.lo + 1 d1 == Len(sm.vecs[2]) d2 == Len(sm.vecs[3]) IN
       /\ Len(sm.vecs[1]) = d /\ d1 + d2 = d
       \* column order follows the sign pattern (-, -, +): q, r, then p
       /\ \A t \in 1..d1 : Coord(K, sm.vecs[2][t]) = Place(triu, base + t - 1, pcol)
       /\ \A t \in 1..d2 : Coord(K, sm.vecs[3][t]) = Place(triu, base + d1 + t - 1, pcol + 1)
       /\ \A t \in 1..d  : Coord(K, sm.vecs[1][t]) = Place(triu, base + t - 1, pcol + 2)
       /\ \A t \in 1..3 : Coord(K, sm.D[t]) = <<pcol + t - 1, pcol + t - 1>>
       /\ sm.dsigns = <<-1, -1, 1>>

RECURSIVE SparseAll(_, _, _, _)
SparseAll(K, e, s, pcol) ==
  IF s > Len(e.sparse) THEN pcol = e.dim
  ELSE SparseOK(K, e, s, pcol) /\ SparseAll(K, e, s + 1, pcol + Len(e.sparse[s].D))

SeqToSet(s) == {s[i] : i \in 1..Len(s)}
Flat(e) == \* all mapped indices, as one sequence
  LET RECURSIVE Sp(_)
      Sp(s) == IF s > Len(e.sparse) THEN <<>>
               ELSE LET sm == e.sparse[s]
                        RECURSIVE V(_)
                        V(k) == IF k > Len(sm.vecs) THEN <<>> ELSE sm.vecs[k] \o V(k + 1)
                    IN V(1) \o sm.D \o Sp(s + 1)
  IN e.map_P \o e.map_A \o e.map_Hs \o Sp(1)

Structure(e) ==
  LET K == [m |-> e.dim, n |-> e.dim, colptr |-> e.colptr, rowval |-> e.rowval, nzval |-> [i \in 1..Len(e.rowval) |-> 0]]
      nnz == Len(e.rowval)
      flat == Flat(e)
      hs == HsCoords(e.cones, e.n, e.triu, 1)
      Pdiag == {e.Pi[k] : k \in {q \in 1..Len(e.Pi) : e.Pi[q] = e.Pj[q]}}
      fill == {e.diag_full[j + 1] : j \in {q \in 0..(e.n - 1) : q \notin Pdiag}}
  IN
  /\ Canonical(K) /\ e.dim = e.n + e.m + e.p
  \* everything in the requested triangle
  /\ \A idx \in 0..(nnz - 1) : LET rc == Coord(K, idx) IN IF e.triu THEN rc[1] <= rc[2] ELSE rc[1] >= rc[2]
  \* every user entry in the recorded position
  /\ Len(e.map_P) = Len(e.Pi) /\ \A k \in 1..Len(e.Pi) : Coord(K, e.map_P[k]) = Place(e.triu, e.Pi[k], e.Pj[k])
  /\ Len(e.map_A) = Len(e.Ar) /\ \A k \in 1..Len(e.Ar) : Coord(K, e.map_A[k]) = Place(e.triu, e.Ac[k], e.n + e.Ar[k])
  \* the scaling blocks
  /\ Len(e.map_Hs) = Len(hs) /\ \A k \in 1..Len(hs) : Coord(K, e.map_Hs[k]) = hs[k]
  \* sparse expansions, in cone order, occupying exactly the last p rows/columns
  /\ SparseAll(K, e, 1, e.n + e.m)
  \* a complete diagonal
  /\ Len(e.diag_full) = e.dim /\ \A i \in 1..e.dim : Coord(K, e.diag_full[i]) = <<i - 1, i - 1>>
  /\ Len(e.diagP) = e.n /\ \A j \in 1..e.n : e.diagP[j] = e.diag_full[j]
  \* maps are injective with disjoint images, and together with the diagonal fill they cover K
  /\ Cardinality(SeqToSet(flat)) = Len(flat)
  /\ SeqToSet(flat) \cap fill = {}
  /\ SeqToSet(flat) \cup fill = 0..(nnz - 1)

\* value layer, after real KKT updates
Values(e) ==
  /\ e.p_bits_equal /\ e.a_bits_equal /\ e.hs_bits_equal     \* KKT copy = internal P, A, -Hs bit for bit
  /\ e.fill_diag_zero                                       \* structural-zero diagonal fill carries no regularisation
  /\ e.identity_ok                                          \* default start: every symmetric cone block is the identity
  /\ e.soc_aux_ok                                           \* expanded second-order cones: aux diagonal is eta^2 * (-1, +1)
  \* recorded sign pattern: (+)^n (-)^m then the expansion signs
  /\ Len(e.dsigns) = e.dim
  /\ \A i \in 1..e.n : e.dsigns[i] = 1
  /\ \A i \in (e.n + 1)..(e.n + e.m) : e.dsigns[i] = -1
  /\ e.dsigns_tail = e.expected_tail
  \* the regulariser actually applied is  const + prop * max|diag|
  /\ e.static_reg => UlpWithin(e.eps, e.eps_obs, 2)
  \* the matrix the LDL engine actually factors (its own permuted copy) is this one, plus the static regulariser on the diagonal
  /\ e.ldl_known => e.ldl_sync
  \* the LDL engine substitutes tiny pivots as the settings say (threshold eps, replacement delta), where the engine shows it
  /\ e.ldl_reg_known => (FSame(e.ldl_eps, e.set_eps) /\ FSame(e.ldl_delta, e.set_delta))
  \* eliminating the auxiliary variables gives the operator that maps z to s (symmetric cones)
  /\ \A k \in 1..Len(e.hz) : FLe(e.hz[k][1], e.hz[k][2])
  \* ... and, entry by entry, the operator the cones themselves apply (mul_Hs) - every cone type, expanded or not
  /\ \A k \in 1..Len(e.hop) : FLe(e.hop[k].err, e.hop[k].tol) /\ e.hop[k].leak_zero      \* <<||H_K z - s||, 1e-6 (||s|| + tiny)>>

EventOK(e) == IF e.ev = "Assembled" THEN Structure(e)
              ELSE IF e.ev = "KKTState" THEN Structure(e) /\ Values(e)
              ELSE FALSE

VARIABLES l, bad
Next == /\ l <= Len(Rec) /\ l' = l + 1
        /\ bad' = IF EventOK(Rec[l]) \/ Len(bad) >= 40 THEN bad ELSE Append(bad, l)
Spec == l = 1 /\ bad = <<>> /\ [][Next]_<<l, bad>>
Export == (l = Len(Rec) + 1) => (TLCSet(1, Len(bad)) /\ (bad # <<>> => PrintT("BAD-EVENTS " \o ToString(bad))))
TraceAccepted ==
  LET n == TLCGet("stats").diameter - 1 IN
  IF n = Len(Rec) /\ TLCGet(1) = 0 THEN TRUE
  ELSE PrintT(<<"TRACE-REJECTED at event", n + 1, "of", Len(Rec)>>) /\ FALSE
=============================================================================
