------------------------------ MODULE ConeStep ------------------------------
(***************************************************************************)
(* C15: cone step lengths are safe and tight.                               *)
(*                                                                         *)
(* Exact part.  For the zero, nonnegative and second-order cones the         *)
(* recorder draws INTEGER points x in int K and INTEGER directions y; the    *)
(* returned alpha is logged as an ordered float and as p = floor(alpha*2^10).*)
(* Everything is then decided here in integer arithmetic:                    *)
(*    safe     x + (p/2^10) y  is in K      (convexity: certifies alpha)      *)
(*    bounded  alpha <= alpha_max                                            *)
(*    tight    alpha = alpha_max, or  x + ((p+2)/2^10) y  is not in int K    *)
(* The case analysis of the second-order cone step (a = res(y), b, c,        *)
(* discriminant; six branches) is transcribed in SocBranch so that TLC's     *)
(* bounded run MC_ConeStep reports which branches the enumeration exercises. *)
(*                                                                         *)
(* Protocol part.  For exponential / power / generalised power cones the     *)
(* line search is a backtracking protocol: probes alpha_0 = alpha_max,       *)
(* alpha_k = step * alpha_{k-1}, result = first probe accepted, or 0 once a   *)
(* probe falls below alpha_min.  The membership bit of every probe comes     *)
(* from the observer; disagreement with the code's own predicate away from   *)
(* the boundary is a violation.                                              *)
(*                                                                         *)
(* Shift part.  After symmetric initialisation any vector lies strictly      *)
(* inside the cone (observer margins), zero-cone slack is exactly zero.      *)
(***************************************************************************)
EXTENDS Integers, Sequences, FiniteSets, FloatOrd, Json, IOUtils, TLC

Rec == ndJsonDeserialize(IOEnv.TRACE)
Q == 1024                                   \* alpha is quantised to multiples of 2^-10

Sq(v) == v * v
SumSq(s, lo) == LET RECURSIVE F(_) F(k) == IF k < lo THEN 0 ELSE F(k - 1) + Sq(s[k]) IN F(Len(s))

\* membership of  x + (p/Q) y  (scaled by Q, so all integers):  w = Q x + p y
W(x, y, p) == [i \in 1..Len(x) |-> Q * x[i] + p * y[i]]
InNN(w) == \A i \in 1..Len(w) : w[i] >= 0
InIntNN(w) == \A i \in 1..Len(w) : w[i] > 0
InSOC(w) == w[1] >= 0 /\ Sq(w[1]) >= SumSq(w, 2)
InIntSOC(w) == w[1] > 0 /\ Sq(w[1]) > SumSq(w, 2)

InK(kind, w) == CASE kind = "Nonneg" -> InNN(w) [] kind = "Soc" -> InSOC(w) [] kind = "Zero" -> TRUE
InIntK(kind, w) == CASE kind = "Nonneg" -> InIntNN(w) [] kind = "Soc" -> InIntSOC(w) [] kind = "Zero" -> TRUE

\* one returned step (alpha as ordered float `a`, quantised `p`) for point x and direction y
StepOK(kind, x, y, a, p, amax) ==
  /\ FGe(a, FZero) /\ FLe(a, amax)                               \* bounded
  /\ InK(kind, W(x, y, p))                                       \* safe
  /\ (FEq(a, amax) \/ ~InIntK(kind, W(x, y, p + 2)))             \* tight

\* which branch of _step_length_soc_component applies (for coverage accounting)
SocBranch(x, y) ==
  LET a == Sq(y[1]) - SumSq(y, 2)
      xy == LET RECURSIVE D(_) D(k) == IF k < 2 THEN 0 ELSE D(k - 1) + x[k] * y[k] IN D(Len(x))
      b == 2 * (x[1] * y[1] - xy)
      c == Sq(x[1]) - SumSq(x, 2)
      d == b * b - 4 * a * c
  IN IF (a > 0 /\ b > 0) \/ d < 0 THEN "no_limit"
     ELSE IF a = 0 THEN "single_root"
     ELSE IF c = 0 THEN "on_boundary"
     ELSE "two_roots"

\* the composite cone returns one common step alpha = min(alpha_z, alpha_s): it must be safe on both
\* sides and tight on at least one of them
StepEventOK(e) ==
  /\ FSame(e.alpha_s, e.alpha_z) /\ e.ps = e.pz
  /\ FGe(e.alpha_s, FZero) /\ FLe(e.alpha_s, e.amax)
  /\ InK(e.kind, W(e.s, e.ds, e.ps)) /\ InK(e.kind, W(e.z, e.dz, e.ps))
  /\ \/ FEq(e.alpha_s, e.amax)
     \/ ~InIntK(e.kind, W(e.s, e.ds, e.ps + 2))
     \/ ~InIntK(e.kind, W(e.z, e.dz, e.ps + 2))

\* ---- backtracking protocol for nonsymmetric cones ----
ProbesOK(pr, amax, amin) ==
  /\ Len(pr) >= 1
  /\ FEq(pr[1].alpha, amax)                                      \* first probe is the requested maximum
  /\ \A k \in 1..(Len(pr) - 1) : FLt(pr[k + 1].alpha, pr[k].alpha) /\ ~pr[k].code_in   \* decreasing; rejected before
  /\ \A k \in 1..(Len(pr) - 1) : FEq(pr[k + 1].alpha, pr[k].next)                      \* ... by the CONFIGURED factor, no other
  /\ \A k \in 1..Len(pr) : ~(pr[k].code_in /\ pr[k].obs_out) /\ ~(~pr[k].code_in /\ pr[k].obs_in)   \* predicates agree
  \* the search gives up only once the next probe would fall below alpha_min
  /\ ~pr[Len(pr)].code_in => FLt(pr[Len(pr)].next, amin)
\* the search's answer: the first accepted probe, or 0 after giving up
Found(pr) == IF pr[Len(pr)].code_in THEN pr[Len(pr)].alpha ELSE FZero

\* the value actually returned is the smaller of the two searches, capped at max_step_fraction
BacktrackOK(e) ==
  /\ ProbesOK(e.probes_z, e.amax, e.amin) /\ ProbesOK(e.probes_s, e.amax, e.amin)
  /\ FEq(e.returned[1], FMin(e.cap, FMin(Found(e.probes_z), Found(e.probes_s))))
  /\ FSame(e.returned[1], e.returned[2])

\* ---- composite cone: one common step, safe for every constituent cone, capped for nonsymmetric cones ----
CompositeOK(e) ==
  /\ FSame(e.alpha_z, e.alpha_s)
  /\ FGe(e.alpha_z, FZero) /\ FLe(e.alpha_z, e.amax)
  /\ e.has_nonsym => FLe(e.alpha_z, e.max_step_fraction)
  /\ \A k \in 1..Len(e.margins_after) : FGe(e.margins_after[k], e.floor)        \* s + alpha ds in K, z + alpha dz in K*
  \* not needlessly short: either the maximum was taken, or a slightly longer step (one backtracking
  \* factor for nonsymmetric cones, 2^-10 for symmetric ones) leaves the interior of some cone
  /\ (FEq(e.alpha_z, e.cap) \/ e.longer_leaves)

\* ---- shift to the interior ----
ShiftOK(e) ==
  /\ \A k \in 1..Len(e.s_margins) : IsPos(e.s_margins[k])
  /\ \A k \in 1..Len(e.z_margins) : IsPos(e.z_margins[k])
  /\ e.zero_cone_slack_is_zero

\* a few ulps inside the boundary of a second-order cone, where the exact distance is a floating-point number:
\* "the exact distance to the boundary" up to a few units in the last place
NearBoundaryOK(e) == /\ FSame(e.alpha_s, e.alpha_z)
                     /\ (FSame(e.alpha_s, e.exact) \/ UlpWithin(e.alpha_s, e.exact, 16))

EventOK(e) == CASE e.ev = "Step" -> StepEventOK(e)
                [] e.ev = "NearBoundary" -> NearBoundaryOK(e)
                [] e.ev = "Backtrack" -> BacktrackOK(e)
                [] e.ev = "Composite" -> CompositeOK(e)
                [] e.ev = "Shift" -> ShiftOK(e)
                [] e.ev = "ShiftOverflow" -> e.returned        \* overflowing PSD entries: the call returns (no panic); nothing else can be said
                [] OTHER -> FALSE

VARIABLES l, bad
Next == /\ l <= Len(Rec) /\ l' = l + 1
        /\ bad' = IF EventOK(Rec[l]) \/ Len(bad) >= 40 THEN bad ELSE Append(bad, l)
Spec == l = 1 /\ bad = <<>> /\ [][Next]_<<l, bad>>
Export == (l = Len(Rec) + 1) => (TLCSet(1, Len(bad)) /\ (bad # <<>> => PrintT("BAD-EVENTS " \o ToString(bad))))
TraceAccepted ==
  LET n == TLCGet("stats").diameter - 1 IN
  IF n = Len(Rec) /\ TLCGet(1) = 0 THEN TRUE
  ELSE PrintT(<<"TRACE-REJECTED at event", n + 1, "of", Len(Rec)>>) /\ FALSE
=============================================================================
