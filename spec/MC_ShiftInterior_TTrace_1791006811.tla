---- MODULE MC_ShiftInterior_TTrace_1791006811 ----
EXTENDS Sequences, TLCExt, MC_ShiftInterior, Toolbox, Naturals, TLC

_expression ==
    LET MC_ShiftInterior_TEExpression == INSTANCE MC_ShiftInterior_TEExpression
    IN MC_ShiftInterior_TEExpression!expression
----

_trace ==
    LET MC_ShiftInterior_TETrace == INSTANCE MC_ShiftInterior_TETrace
    IN MC_ShiftInterior_TETrace!trace
----

_inv ==
    ~(
        TLCGet("level") = Len(_TETrace)
        /\
        mm = (-67)
        /\
        pc = ("done")
        /\
        t = (<<0, 3>>)
        /\
        h = (<<-3, -3>>)
    )
----

_init ==
    /\ mm = _TETrace[1].mm
    /\ h = _TETrace[1].h
    /\ t = _TETrace[1].t
    /\ pc = _TETrace[1].pc
----

_next ==
    /\ \E i,j \in DOMAIN _TETrace:
        /\ \/ /\ j = i + 1
              /\ i = TLCGet("level")
        /\ mm  = _TETrace[i].mm
        /\ mm' = _TETrace[j].mm
        /\ h  = _TETrace[i].h
        /\ h' = _TETrace[j].h
        /\ t  = _TETrace[i].t
        /\ t' = _TETrace[j].t
        /\ pc  = _TETrace[i].pc
        /\ pc' = _TETrace[j].pc

\* Uncomment the ASSUME below to write the states of the error trace
\* to the given file in Json format. Note that you can pass any tuple
\* to `JsonSerialize`. For example, a sub-sequence of _TETrace.
    \* ASSUME
    \*     LET J == INSTANCE Json
    \*         IN J!JsonSerialize("MC_ShiftInterior_TTrace_1791006811.json", _TETrace)

=============================================================================

 Note that you can extract this module `MC_ShiftInterior_TEExpression`
  to a dedicated file to reuse `expression` (the module in the 
  dedicated `MC_ShiftInterior_TEExpression.tla` file takes precedence 
  over the module `MC_ShiftInterior_TEExpression` below).

---- MODULE MC_ShiftInterior_TEExpression ----
EXTENDS Sequences, TLCExt, MC_ShiftInterior, Toolbox, Naturals, TLC

expression == 
    [
        \* To hide variables of the `MC_ShiftInterior` spec from the error trace,
        \* remove the variables below.  The trace will be written in the order
        \* of the fields of this record.
        mm |-> mm
        ,h |-> h
        ,t |-> t
        ,pc |-> pc
        
        \* Put additional constant-, state-, and action-level expressions here:
        \* ,_stateNumber |-> _TEPosition
        \* ,_mmUnchanged |-> mm = mm'
        
        \* Format the `mm` variable as Json value.
        \* ,_mmJson |->
        \*     LET J == INSTANCE Json
        \*     IN J!ToJson(mm)
        
        \* Lastly, you may build expressions over arbitrary sets of states by
        \* leveraging the _TETrace operator.  For example, this is how to
        \* count the number of times a spec variable changed up to the current
        \* state in the trace.
        \* ,_mmModCount |->
        \*     LET F[s \in DOMAIN _TETrace] ==
        \*         IF s = 1 THEN 0
        \*         ELSE IF _TETrace[s].mm # _TETrace[s-1].mm
        \*             THEN 1 + F[s-1] ELSE F[s-1]
        \*     IN F[_TEPosition - 1]
    ]

=============================================================================



Parsing and semantic processing can take forever if the trace below is long.
 In this case, it is advised to uncomment the module below to deserialize the
 trace from a generated binary file.

\*
\*---- MODULE MC_ShiftInterior_TETrace ----
\*EXTENDS IOUtils, MC_ShiftInterior, TLC
\*
\*trace == IODeserialize("MC_ShiftInterior_TTrace_1791006811.bin", TRUE)
\*
\*=============================================================================
\*

---- MODULE MC_ShiftInterior_TETrace ----
EXTENDS MC_ShiftInterior, TLC

trace == 
    <<
    ([mm |-> 0,pc |-> "margins",t |-> <<0, 3>>,h |-> <<-64, -64>>]),
    ([mm |-> -67,pc |-> "shift1",t |-> <<0, 3>>,h |-> <<-64, -64>>]),
    ([mm |-> -67,pc |-> "shift2",t |-> <<0, 3>>,h |-> <<-5, -5>>]),
    ([mm |-> -67,pc |-> "done",t |-> <<0, 3>>,h |-> <<-3, -3>>])
    >>
----


=============================================================================

---- CONFIG MC_ShiftInterior_TTrace_1791006811 ----
CONSTANTS
    Cones = { 1 , 2 }
    Heads <- MCHeadsQ
    Tails <- MCTailsQ
    R = 8
    Target = 2
    Recheck = FALSE

INVARIANT
    _inv

CHECK_DEADLOCK
    \* CHECK_DEADLOCK off because of PROPERTY or INVARIANT above.
    FALSE

INIT
    _init

NEXT
    _next

CONSTANT
    _TETrace <- _trace

ALIAS
    _expression
=============================================================================
\* Generated on Sat Oct 03 05:53:37 UTC 2026