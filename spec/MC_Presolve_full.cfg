SPECIFICATION Spec
CONSTANTS
  ConeMenu <- Menu_full
  MaxCones = 3
  MaxM = 6
  BClasses <- B_three
  Bounds <- Bnd_two
INVARIANTS DropRule ReducedConsistent CollapsePreservesRows Emit
PROPERTY BoundFrozen
CHECK_DEADLOCK FALSE
