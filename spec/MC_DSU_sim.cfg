SPECIFICATION Spec
CONSTANTS
  N = 8
  MaxOps = 12
  AsFound = FALSE
INVARIANTS Correct Forest RankBound Emit
CHECK_DEADLOCK FALSE
