-------------------------------- MODULE IPM --------------------------------
(***************************************************************************)
(* Control skeleton of Clarabel's interior-point iteration                  *)
(* (src/solver/core/solver.rs::solve together with the status logic of      *)
(* src/solver/implementations/default/info.rs).                             *)
(*                                                                         *)
(* One action per critical section of the code.  Numerical outcomes         *)
(* (convergence tests, success flags, step-length classes, clock) are       *)
(* action parameters: the bounded model MC_IPM quantifies over them, the    *)
(* trace specification Trace_IPM binds them to values recomputed from the   *)
(* scalars the real solver logged.                                          *)
(*                                                                         *)
(* Iterates are abstracted to identifiers so that the model can say WHICH   *)
(* iterate the variables hold (cur), which one was saved (prev) and which   *)
(* one the cost/residual/gap figures in `info` describe (infoOf).           *)
(***************************************************************************)
EXTENDS Naturals, Sequences

\* The three facts about the problem/settings that the control flow depends on are
\* carried in the (never changing) variable conf, so that one trace can contain
\* many solves with different configurations:
\*   conf.maxiter : settings.max_iter
\*   conf.sym     : cones.is_symmetric()
\*   conf.pd      : cones.allows_primal_dual_scaling()      (sym => pd)
VARIABLES
  conf,
  pc,          \* control point
  iter,        \* the loop's local counter
  infoIter,    \* info.iterations (written by save_scalars)
  status,      \* info.status
  scaling,     \* "PD" | "Dual"
  alphaZero,   \* local alpha == 0 ?
  kktok,       \* is_kkt_solve_success
  stepcls,     \* <<alpha < min_switch_step_length, alpha <= max(0,min_terminate_step_length)>>
  cur,         \* id of the iterate in `variables`
  prev,        \* id of the iterate in `prev_vars` (0 = none saved in this solve)
  nextId,
  infoOf,      \* id of the iterate that cost/res/gap in info describe
  prevInfoOf,  \* id of the iterate that prev_* in info describe
  resOf,       \* id of the iterate that `residuals` and ktratio/res_*_inf describe
  printed,     \* rows written by print_status: <<iterations, infoOf, alphaIsZero>>
  sol          \* what solution.post_process captured

vars == <<conf, pc, iter, infoIter, status, scaling, alphaZero, kktok, stepcls, cur, prev,
          nextId, infoOf, prevInfoOf, resOf, printed, sol, conf>>

MaxIter   == conf.maxiter
Symmetric == conf.sym
AllowsPD  == conf.pd

ConvOutcomes == {"none", "solved", "pinf", "dinf"}

ErrorStatuses   == {"NumericalError", "InsufficientProgress"}
LimitStatuses   == {"MaxIterations", "MaxTime"}
InfeasStatuses  == {"PrimalInfeasible", "DualInfeasible",
                    "AlmostPrimalInfeasible", "AlmostDualInfeasible"}
TerminalStatuses == {"Solved", "AlmostSolved"} \cup InfeasStatuses
                    \cup ErrorStatuses \cup LimitStatuses

NoSol == [status |-> "Unsolved", iterations |-> 0, infoOf |-> 0, iterate |-> 0, byKappa |-> FALSE]

InitWith(c) ==
  /\ conf = c
  /\ pc = "Scalars" /\ iter = 0 /\ infoIter = 0 /\ status = "Unsolved"
  /\ scaling = IF AllowsPD THEN "PD" ELSE "Dual"
  /\ alphaZero = TRUE /\ kktok = TRUE /\ stepcls = <<FALSE, FALSE>>
  /\ cur = 1 /\ prev = 0 /\ nextId = 2
  /\ infoOf = 0 /\ prevInfoOf = 0 /\ resOf = 0
  /\ printed = <<>> /\ sol = NoSol

-----------------------------------------------------------------------------
(* top of a pass *)

\* residuals.update; calc_mu; info.save_scalars(mu, alpha, sigma, iter)
SaveScalars ==
  /\ pc \in {"Scalars", "ExtraScalars"}
  /\ infoIter' = iter
  /\ resOf' = IF pc = "Scalars" THEN cur ELSE resOf
  /\ pc' = IF pc = "Scalars" THEN "Update" ELSE "ExtraPrint"
  /\ UNCHANGED <<iter, status, scaling, alphaZero, kktok, stepcls, cur, prev, nextId,
                 infoOf, prevInfoOf, printed, sol, conf>>

\* info.update: cost/res/gap/ktratio recomputed from variables and residuals
Update ==
  /\ pc = "Update"
  /\ infoOf' = cur
  /\ pc' = "Print"
  /\ UNCHANGED <<iter, infoIter, status, scaling, alphaZero, kktok, stepcls, cur, prev,
                 nextId, prevInfoOf, resOf, printed, sol, conf>>

\* info.print_status (one row; also the extra row after the loop)
PrintRow ==
  /\ pc \in {"Print", "ExtraPrint"}
  /\ printed' = Append(printed, <<infoIter, infoOf, alphaZero>>)
  /\ pc' = IF pc = "Print" THEN "Check" ELSE "PostInfo"
  /\ UNCHANGED <<iter, infoIter, status, scaling, alphaZero, kktok, stepcls, cur, prev,
                 nextId, infoOf, prevInfoOf, resOf, sol, conf>>

\* The decision table of info.check_termination.
\*   conv     : outcome of check_convergence_full on the current scalars
\*   poor     : the "poor progress" disjunction (evaluated only when iter > 1)
\*   timeover : info.solve_time > settings.time_limit
Decision(conv, poor, timeover) ==
  LET s1 == CASE conv = "solved" -> "Solved"
              [] conv = "pinf"   -> "PrimalInfeasible"
              [] conv = "dinf"   -> "DualInfeasible"
              [] OTHER           -> "Unsolved"
      s2 == IF s1 = "Unsolved" /\ iter > 1 /\ poor THEN "InsufficientProgress" ELSE s1
  IN  IF s2 # "Unsolved" THEN s2
      ELSE IF MaxIter = infoIter THEN "MaxIterations"
      ELSE IF timeover THEN "MaxTime"
      ELSE "Unsolved"

Check(conv, poor, timeover) ==
  /\ pc = "Check"
  /\ status' = Decision(conv, poor, timeover)
  /\ pc' = IF status' = "Unsolved" THEN "Scale" ELSE "CkptProg"
  /\ UNCHANGED <<iter, infoIter, scaling, alphaZero, kktok, stepcls, cur, prev, nextId,
                 infoOf, prevInfoOf, resOf, printed, sol, conf>>

-----------------------------------------------------------------------------
(* strategy_checkpoint_insufficient_progress *)

CanSwitch == ~Symmetric /\ scaling = "PD"

\* info.reset_to_prev_iterate: variables <- prev_vars, cost/res/gap <- prev_*
Rollback ==
  /\ pc = "CkptProg" /\ status = "InsufficientProgress"
  /\ cur' = prev /\ infoOf' = prevInfoOf
  /\ pc' = "CkptProg2"
  /\ UNCHANGED <<iter, infoIter, status, scaling, alphaZero, kktok, stepcls, prev, nextId,
                 prevInfoOf, resOf, printed, sol, conf>>

\* info.set_status(Unsolved) when the dual-only strategy can still be tried
ProgResetStatus ==
  /\ pc = "CkptProg2" /\ CanSwitch
  /\ status' = "Unsolved"
  /\ pc' = "CkptProg3"
  /\ UNCHANGED <<iter, infoIter, scaling, alphaZero, kktok, stepcls, cur, prev, nextId,
                 infoOf, prevInfoOf, resOf, printed, sol, conf>>

\* the checkpoint's verdict: 0 NoUpdate, 1 Update(Dual), 2 Fail
\* On Fail the loop also zeroes alpha, so that the extra status row printed after the
\* loop describes the restored iterate (repair of finding F6, see DESIGN.md section 6).
CkptProgress(out) ==
  /\ \/ (pc = "CkptProg" /\ status # "InsufficientProgress" /\ out = 0 /\ pc' = "Exit"
          /\ UNCHANGED <<scaling, alphaZero>>)
     \/ (pc = "CkptProg3" /\ out = 1 /\ scaling' = "Dual" /\ pc' = "Scalars" /\ UNCHANGED alphaZero)
     \/ (pc = "CkptProg2" /\ ~CanSwitch /\ out = 2 /\ pc' = "Exit" /\ alphaZero' = TRUE
          /\ UNCHANGED scaling)
  /\ UNCHANGED <<iter, infoIter, status, kktok, stepcls, cur, prev, nextId,
                 infoOf, prevInfoOf, resOf, printed, sol, conf>>

-----------------------------------------------------------------------------
(* scaling update, KKT solves *)

Scale(ok) ==
  /\ pc = "Scale"
  /\ IF ok THEN iter' = iter + 1 /\ pc' = "KKTUpdate"
           ELSE UNCHANGED iter /\ pc' = "ScaleFail"
  /\ UNCHANGED <<infoIter, status, scaling, alphaZero, kktok, stepcls, cur, prev, nextId,
                 infoOf, prevInfoOf, resOf, printed, sol, conf>>

\* info.set_status(...) from one of the failing checkpoints
SetStatusFail ==
  /\ \/ (pc = "ScaleFail" /\ status' = "NumericalError" /\ pc' = "Exit" /\ UNCHANGED alphaZero)
     \/ (pc = "CkptNum" /\ ~kktok /\ ~CanSwitch /\ status' = "NumericalError"
          /\ pc' = "CkptNumFail" /\ UNCHANGED alphaZero)
     \/ (pc = "CkptStep" /\ ~(CanSwitch /\ stepcls[1]) /\ stepcls[2]
          /\ status' = "InsufficientProgress" /\ pc' = "CkptStepFail" /\ UNCHANGED alphaZero)
  /\ UNCHANGED <<iter, infoIter, scaling, kktok, stepcls, cur, prev, nextId,
                 infoOf, prevInfoOf, resOf, printed, sol, conf>>

KKTUpdate(ok) ==
  /\ pc = "KKTUpdate"
  /\ kktok' = ok /\ pc' = "Affine"
  /\ UNCHANGED <<iter, infoIter, status, scaling, alphaZero, stepcls, cur, prev, nextId,
                 infoOf, prevInfoOf, resOf, printed, sol, conf>>

\* the affine solve is attempted only if the update succeeded
Affine(ok) ==
  /\ pc = "Affine"
  /\ kktok' = (kktok /\ ok)
  /\ pc' = IF kktok' THEN "Centering" ELSE "CkptNum"
  /\ UNCHANGED <<iter, infoIter, status, scaling, alphaZero, stepcls, cur, prev, nextId,
                 infoOf, prevInfoOf, resOf, printed, sol, conf>>

\* affine step length, sigma = (1-alpha)^3, first-iteration damping
Centering ==
  /\ pc = "Centering" /\ pc' = "Combined"
  /\ UNCHANGED <<iter, infoIter, status, scaling, alphaZero, kktok, stepcls, cur, prev,
                 nextId, infoOf, prevInfoOf, resOf, printed, sol, conf>>

Combined(ok) ==
  /\ pc = "Combined"
  /\ kktok' = ok /\ pc' = "CkptNum"
  /\ UNCHANGED <<iter, infoIter, status, scaling, alphaZero, stepcls, cur, prev, nextId,
                 infoOf, prevInfoOf, resOf, printed, sol, conf>>

\* strategy_checkpoint_numerical_error
CkptNumerical(out) ==
  /\ \/ (pc = "CkptNum" /\ kktok /\ out = 0 /\ pc' = "StepLength"
          /\ UNCHANGED <<scaling, alphaZero>>)
     \/ (pc = "CkptNum" /\ ~kktok /\ CanSwitch /\ out = 1 /\ scaling' = "Dual"
          /\ alphaZero' = TRUE /\ pc' = "Scalars")
     \/ (pc = "CkptNumFail" /\ out = 2 /\ alphaZero' = TRUE /\ pc' = "Exit"
          /\ UNCHANGED scaling)
  /\ UNCHANGED <<iter, infoIter, status, kktok, stepcls, cur, prev, nextId,
                 infoOf, prevInfoOf, resOf, printed, sol, conf>>

\* combined step length; ltSwitch/leTerm are the two threshold comparisons
StepLength(ltSwitch, leTerm) ==
  /\ pc = "StepLength"
  /\ stepcls' = <<ltSwitch, leTerm>>
  /\ pc' = "CkptStep"
  /\ UNCHANGED <<iter, infoIter, status, scaling, alphaZero, kktok, cur, prev, nextId,
                 infoOf, prevInfoOf, resOf, printed, sol, conf>>

\* strategy_checkpoint_small_step
CkptSmallStep(out) ==
  /\ \/ (pc = "CkptStep" /\ CanSwitch /\ stepcls[1] /\ out = 1 /\ scaling' = "Dual"
          /\ alphaZero' = TRUE /\ pc' = "Scalars")
     \/ (pc = "CkptStepFail" /\ out = 2 /\ alphaZero' = TRUE /\ pc' = "Exit"
          /\ UNCHANGED scaling)
     \/ (pc = "CkptStep" /\ ~(CanSwitch /\ stepcls[1]) /\ ~stepcls[2] /\ out = 0
          /\ pc' = "SavePrev" /\ UNCHANGED <<scaling, alphaZero>>)
  /\ UNCHANGED <<iter, infoIter, status, kktok, stepcls, cur, prev, nextId,
                 infoOf, prevInfoOf, resOf, printed, sol, conf>>

\* info.save_prev_iterate
SavePrev ==
  /\ pc = "SavePrev"
  /\ prev' = cur /\ prevInfoOf' = infoOf
  /\ pc' = "AddStep"
  /\ UNCHANGED <<iter, infoIter, status, scaling, alphaZero, kktok, stepcls, cur, nextId,
                 infoOf, resOf, printed, sol, conf>>

\* variables.add_step: a new iterate; the accepted alpha is > max(0, min_terminate) >= 0
AddStep ==
  /\ pc = "AddStep"
  /\ cur' = nextId /\ nextId' = nextId + 1
  /\ alphaZero' = FALSE
  /\ pc' = "Scalars"
  /\ UNCHANGED <<iter, infoIter, status, scaling, kktok, stepcls, prev,
                 infoOf, prevInfoOf, resOf, printed, sol, conf>>

-----------------------------------------------------------------------------
(* after the loop *)

LoopExit ==
  /\ pc = "Exit"
  /\ pc' = IF alphaZero THEN "ExtraScalars" ELSE "PostInfo"
  /\ UNCHANGED <<iter, infoIter, status, scaling, alphaZero, kktok, stepcls, cur, prev,
                 nextId, infoOf, prevInfoOf, resOf, printed, sol, conf>>

AlmostOf(conv) == CASE conv = "solved" -> "AlmostSolved"
                    [] conv = "pinf"   -> "AlmostPrimalInfeasible"
                    [] conv = "dinf"   -> "AlmostDualInfeasible"

\* info.post_process: the reduced-tolerance re-test, only after error / limit statuses
PostInfo(conv) ==
  /\ pc = "PostInfo"
  /\ status' = IF status \in (ErrorStatuses \cup LimitStatuses) /\ conv # "none"
               THEN AlmostOf(conv) ELSE status
  /\ pc' = "PostSolution"
  /\ UNCHANGED <<iter, infoIter, scaling, alphaZero, kktok, stepcls, cur, prev, nextId,
                 infoOf, prevInfoOf, resOf, printed, sol, conf>>

\* solution.post_process: copy status/objectives/residual figures, unscale by kappa
\* (certificates) or tau, undo equilibration, reverse decomposition and presolve
PostSolution ==
  /\ pc = "PostSolution"
  /\ sol' = [status |-> status, iterations |-> infoIter, infoOf |-> infoOf,
             iterate |-> cur, byKappa |-> (status \in InfeasStatuses)]
  /\ pc' = "Footer"
  /\ UNCHANGED <<iter, infoIter, status, scaling, alphaZero, kktok, stepcls, cur, prev,
                 nextId, infoOf, prevInfoOf, resOf, printed, conf>>

Footer ==
  /\ pc = "Footer" /\ pc' = "Done"
  /\ UNCHANGED <<iter, infoIter, status, scaling, alphaZero, kktok, stepcls, cur, prev,
                 nextId, infoOf, prevInfoOf, resOf, printed, sol, conf>>

-----------------------------------------------------------------------------
Next ==
  \/ SaveScalars \/ Update \/ PrintRow
  \/ \E c \in ConvOutcomes, p, t \in BOOLEAN : Check(c, p, t)
  \/ Rollback \/ ProgResetStatus \/ \E o \in 0..2 : CkptProgress(o)
  \/ \E ok \in BOOLEAN : Scale(ok) \/ KKTUpdate(ok) \/ Affine(ok) \/ Combined(ok)
  \/ SetStatusFail \/ Centering
  \/ \E o \in 0..2 : CkptNumerical(o) \/ CkptSmallStep(o)
  \/ \E a, b \in BOOLEAN : StepLength(a, b)
  \/ SavePrev \/ AddStep \/ LoopExit
  \/ \E c \in ConvOutcomes : PostInfo(c)
  \/ PostSolution \/ Footer


-----------------------------------------------------------------------------
(* properties *)

TypeOK ==
  /\ (conf.sym => conf.pd)
  /\ iter \in 0..MaxIter /\ infoIter \in 0..MaxIter
  /\ status \in TerminalStatuses \cup {"Unsolved"}
  /\ scaling \in {"PD", "Dual"}

\* C04: never more than max_iter iterations
IterBound == iter <= MaxIter /\ infoIter <= MaxIter

\* C04: the solve ends in a terminal status
DoneTerminal == pc = "Done" => (sol.status \in TerminalStatuses /\ sol.status = status)

\* C03: the figures in info describe the iterate that is returned
ReportMatchesIterate == pc = "Done" => (sol.infoOf = sol.iterate /\ sol.iterate = cur)

\* C03: iterations reported equals the loop counter
IterationsReported == pc = "Done" => sol.iterations = iter

\* C02/C03: certificates are normalised by kappa exactly for infeasibility verdicts
KappaIffInfeasible == pc = "Done" => (sol.byKappa <=> sol.status \in InfeasStatuses)

\* C02: a full infeasibility verdict is only ever issued in Check, where the
\* infeasibility residuals describe the current iterate
NoStaleInfeasibleFull ==
  status \in {"PrimalInfeasible", "DualInfeasible"} => resOf = cur

\* a rollback always has a saved iterate to go back to
RollbackHasPrev == pc = "CkptProg2" => (cur # 0 /\ infoOf # 0)

\* the dual-only fallback is entered at most once and never left
ScalingMonotone == [][scaling = "Dual" => scaling' = "Dual"]_vars

\* C20: progress rows start at iteration 0, never decrease, end at the reported count
PrintShape ==
  pc = "Done" =>
    /\ Len(printed) >= 1 /\ printed[1][1] = 0
    /\ \A i \in 1..(Len(printed) - 1) : printed[i][1] <= printed[i+1][1]
    /\ printed[Len(printed)][1] = sol.iterations

\* C20: the last row shows the figures of the returned iterate.  (Before the repair of F6
\* this failed on the rollback-and-stop path.)
LastRowMatches == pc = "Done" => printed[Len(printed)][2] = sol.iterate

\* C04: every solve terminates
Termination == <>(pc = "Done")
=============================================================================
