----------------------------- MODULE Direction -----------------------------
(***************************************************************************)
(* The search direction of one interior-point pass, as DefaultKKTSystem::   *)
(* solve computes it, against the Newton system of the homogeneous          *)
(* self-dual embedding it is meant to solve.                                *)
(*                                                                         *)
(* The code never forms the full (n+m+2)-dimensional Newton system.  It     *)
(*   ConstSolve  solves the reduced system K [x2; z2] = [-q; b] once per    *)
(*               scaling update (solve_constant_rhs),                       *)
(*   VarSolve    solves K [x1; z1] = [rx; c - rz] for the pass's right-hand *)
(*               side (c is the constant term of Hs dz + ds = -c),          *)
(*   Tau         obtains dtau from a closed formula in (x1, z1, x2, z2),    *)
(*   Compose     sets dx = x1 + dtau x2, dz = z1 + dtau z2,                 *)
(*               ds = -(Hs dz + c), dkappa = -(rkappa + kappa dtau) / tau,  *)
(* with K = [P A'; A -Hs].  This module carries those four steps on a       *)
(* scalar instance (n = m = 1) in exact rational arithmetic and states the  *)
(* five block rows of the linearised embedding as invariants of the final   *)
(* state:                                                                   *)
(*     P dx + A' dz + q dtau                          =  rx                 *)
(*     A dx + ds - b dtau                             = -rz                 *)
(*     q'dx + b'dz + dkappa + 2 xi'P dx - xi'P xi dtau = -rtau   (xi = x/tau)*)
(*     tau dkappa + kappa dtau                        = -rkappa             *)
(*     Hs dz + ds                                     = -c                  *)
(* TLC visits every instance over the small integer sets of the            *)
(* configuration.  `Variant` selects the dtau formula: "code" is the one    *)
(* in the tree; "drop" and "plus" are the two ways of getting the           *)
(* quadratic term of the denominator wrong that seeded changes C06-24 and   *)
(* C05-27 introduced - MC_Direction_neg.cfg must FAIL on TauRow (vacuity    *)
(* guard: a model that accepts them says nothing about the formula).        *)
(*                                                                         *)
(* The trace half of the binding is Trace_Direction.tla: the tau row, the   *)
(* kappa row, the composition and the right-hand sides are re-evaluated by  *)
(* the observer on every solve of recorded runs.                            *)
(***************************************************************************)
EXTENDS Integers, Sequences, TLC, Rational

CONSTANTS Variant,          \* "code" | "drop" | "plus"
          SP, SA, SQ, SB, SH, SX, ST, SK, SR   \* value sets

VARIABLES pc, d,            \* d: the instance (record of integers)
          x1, z1, x2, z2, dtau, dx, dz, ds, dk
vars == <<pc, d, x1, z1, x2, z2, dtau, dx, dz, ds, dk>>

I(k) == RInt(k)
\* solve [p a; a -h] [u; v] = [f; g] by Cramer's rule (det = -p h - a^2 < 0 whenever h > 0, p >= 0 and (p, a) # (0, 0))
Det(e)        == RSub(RNeg(RMul(I(e.p), I(e.h))), RMul(I(e.a), I(e.a)))
SolveU(e, f, g) == RDiv(RSub(RNeg(RMul(f, I(e.h))), RMul(I(e.a), g)), Det(e))
SolveV(e, f, g) == RDiv(RSub(RMul(I(e.p), g), RMul(I(e.a), f)), Det(e))

Init == /\ pc = "const"
        /\ d \in [p : SP, a : SA, q : SQ, b : SB, h : SH, x : SX, tau : ST, kappa : SK,
                  rx : SR, rz : SR, rtau : SR, rkappa : SR, c : SR]
        /\ x1 = RZero /\ z1 = RZero /\ x2 = RZero /\ z2 = RZero
        /\ dtau = RZero /\ dx = RZero /\ dz = RZero /\ ds = RZero /\ dk = RZero

ConstSolve == /\ pc = "const"
              /\ x2' = SolveU(d, I(-d.q), I(d.b))
              /\ z2' = SolveV(d, I(-d.q), I(d.b))
              /\ pc' = "var"
              /\ UNCHANGED <<d, x1, z1, dtau, dx, dz, ds, dk>>

VarSolve == /\ pc = "var"
            /\ x1' = SolveU(d, I(d.rx), I(d.c - d.rz))
            /\ z1' = SolveV(d, I(d.rx), I(d.c - d.rz))
            /\ pc' = "tau"
            /\ UNCHANGED <<d, x2, z2, dtau, dx, dz, ds, dk>>

Xi  == RDiv(I(d.x), I(d.tau))
QF(u, v) == RMul(I(d.p), RMul(u, v))           \* u' P v
Num == RAdd(RAdd(RSub(I(d.rtau), RDiv(I(d.rkappa), I(d.tau))), RAdd(RMul(I(d.q), x1), RMul(I(d.b), z1))),
            RMul(I(2), QF(Xi, x1)))
DenLin == RSub(RSub(RDiv(I(d.kappa), I(d.tau)), RMul(I(d.q), x2)), RMul(I(d.b), z2))
XiMinus == RSub(Xi, x2)
Den == CASE Variant = "code" -> RAdd(DenLin, RSub(QF(XiMinus, XiMinus), QF(x2, x2)))
         [] Variant = "drop" -> RAdd(DenLin, QF(XiMinus, XiMinus))
         [] Variant = "plus" -> RAdd(DenLin, RAdd(QF(XiMinus, XiMinus), QF(x2, x2)))

Tau == /\ pc = "tau"
       /\ IF RIsZero(Den) THEN pc' = "failed" /\ UNCHANGED dtau     \* the code returns false on a non-finite dtau
          ELSE pc' = "compose" /\ dtau' = RDiv(Num, Den)
       /\ UNCHANGED <<d, x1, z1, x2, z2, dx, dz, ds, dk>>

Compose == /\ pc = "compose"
           /\ dx' = RAdd(x1, RMul(dtau, x2))
           /\ dz' = RAdd(z1, RMul(dtau, z2))
           /\ ds' = RNeg(RAdd(RMul(I(d.h), RAdd(z1, RMul(dtau, z2))), I(d.c)))
           /\ dk' = RNeg(RDiv(RAdd(I(d.rkappa), RMul(I(d.kappa), dtau)), I(d.tau)))
           /\ pc' = "done"
           /\ UNCHANGED <<d, x1, z1, x2, z2, dtau>>

Next == ConstSolve \/ VarSolve \/ Tau \/ Compose \/ (pc \in {"done", "failed"} /\ UNCHANGED vars)
Spec == Init /\ [][Next]_vars

Sum3(a, b, c) == RAdd(a, RAdd(b, c))
XRow   == pc = "done" => REq(Sum3(RMul(I(d.p), dx), RMul(I(d.a), dz), RMul(I(d.q), dtau)), I(d.rx))
ZRow   == pc = "done" => REq(RSub(RAdd(RMul(I(d.a), dx), ds), RMul(I(d.b), dtau)), I(-d.rz))
TauRow == pc = "done" => REq(RAdd(Sum3(RMul(I(d.q), dx), RMul(I(d.b), dz), dk),
                                  RSub(RMul(I(2), QF(Xi, dx)), RMul(QF(Xi, Xi), dtau))), I(-d.rtau))
KappaRow == pc = "done" => REq(RAdd(RMul(I(d.tau), dk), RMul(I(d.kappa), dtau)), I(-d.rkappa))
SRow   == pc = "done" => REq(RAdd(RMul(I(d.h), dz), ds), I(-d.c))
\* the reduced solves are what the comments in the code say they are
ReducedOK == pc \in {"tau", "compose", "done"} =>
               /\ REq(RAdd(RMul(I(d.p), x2), RMul(I(d.a), z2)), I(-d.q))
               /\ REq(RSub(RMul(I(d.a), x2), RMul(I(d.h), z2)), I(d.b))
               /\ REq(RAdd(RMul(I(d.p), x1), RMul(I(d.a), z1)), I(d.rx))
               /\ REq(RSub(RMul(I(d.a), x1), RMul(I(d.h), z1)), I(d.c - d.rz))
=============================================================================
