---------------------------- MODULE ConeAlgebra ----------------------------
(***************************************************************************)
(* C13: the scaling operators and the Jordan algebra of the symmetric cones *)
(* (nonnegative, second-order, PSD triangle).                               *)
(*                                                                         *)
(* The real cone objects are scaled at generated points (s, z) - centred,   *)
(* of widely different magnitudes, and within 1e-6 .. 1e-2 of the boundary - *)
(* and every operator is evaluated once through a hook.  Each identity below *)
(* reaches TLC as a pair <<error, tolerance>> formed by the observer (its    *)
(* own Jordan products by definition, its own inner products); the           *)
(* tolerance is 1e-11 * kappa^2 * (size of the terms), kappa = ||W|| ||W^-1||. *)
(* What TLC decides here is a list of inequalities over ordered-float limbs; *)
(* the arithmetic is the observer's.  The identities are real-analytic: no   *)
(* exact lattice exists for them (square roots in every scaling), which is   *)
(* why this property is decided at a weaker level than the others.           *)
(***************************************************************************)
EXTENDS Integers, Sequences, FiniteSets, TLC, FloatOrd, Json, IOUtils

Rec == ndJsonDeserialize(IOEnv.TRACE)

\* every identity a scaled symmetric cone must satisfy
Required == {"nt_point",          \* W z = W^-T s (= lambda)
             "wtw_z_is_s",        \* (W^T W) z = s
             "w_winv", "winv_w", "wt_winvt",        \* multiplication by W and by its inverse are mutually inverse
             "transpose_w", "transpose_winv",       \* <W x, y> = <x, W^T y>, same for the inverse
             "strategy_independent",                          \* the dual strategy (and mu) change nothing for a symmetric cone
             "mul_w_accumulates", "mul_winv_accumulates",   \* out = alpha op(x) + beta out, for beta # 0 too
             "mul_hs_is_wtw",     \* ... and both are W^T W
             "circ_definition", "circ_commutes",    \* the Jordan product, by its definition in each algebra
             "lambda_inv_circ",   \* lambda o (lambda \ x) = x
             "affine_ds",         \* the affine term is lambda o lambda
             "combined_shift",    \* the corrector is W^-T ds o W dz - sigma mu e
             "ds_offset",         \* the slack-recovery offset is W^T (lambda \ ds)
             "unit_start_is_identity",   \* unit_initialization overwrites (s, z) with the identity element e, whatever the buffers held
             "identity_reset_mul_hs", "identity_reset_block"}   \* set_identity_scaling() on a scaled cone: mul_Hs and the KKT block (diagonal, dense or expanded) are the identity again

Holds(e, name) == name \in DOMAIN e.ids /\ FLe(e.ids[name][1], e.ids[name][2])

SymConeOK(e) ==
  /\ e.scaled_ok                                   \* interior points can always be scaled
  /\ \A name \in Required : Holds(e, name)
  \* the block handed to the KKT matrix is the operator applied when recovering the slack step (cones above the
  \* sparse-expansion threshold hand over a diagonal part only: their elimination is compared under C11)
  /\ ~e.expanded => Holds(e, "block_is_mul_hs")
  \* ... an expanded second-order cone hands over eta^2 (D + uu' - vv'): the same operator
  /\ e.expanded => Holds(e, "expanded_block_is_mul_hs")
  \* general Jordan division by an interior element (not implemented, nor needed, for the PSD cone)
  /\ (e.y_interior /\ e.has_division) => Holds(e, "inv_circ")

EventOK(e) == IF e.ev = "SymCone" THEN SymConeOK(e) ELSE FALSE

VARIABLES l, bad
Next == /\ l <= Len(Rec) /\ l' = l + 1
        /\ bad' = IF EventOK(Rec[l]) \/ Len(bad) >= 40 THEN bad ELSE Append(bad, l)
Spec == l = 1 /\ bad = <<>> /\ [][Next]_<<l, bad>>
Export == (l = Len(Rec) + 1) => (TLCSet(1, Len(bad)) /\ (bad # <<>> => PrintT("BAD-EVENTS " \o ToString(bad))))
TraceAccepted ==
  LET n == TLCGet("stats").diameter - 1 IN
  IF n = Len(Rec) /\ TLCGet(1) = 0 THEN TRUE
  ELSE PrintT(<<"TRACE-REJECTED at event", n + 1, "of", Len(Rec)>>) /\ FALSE
=============================================================================
