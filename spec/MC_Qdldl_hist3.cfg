SPECIFICATION Spec
CONSTANTS
  N = 3
  DiagVals <- Diag_two
  OffVals <- Off_hist
  PermSet <- Perms_two
  SignSet <- Signs_quasi
  RegSet <- Reg_both
  LogicalSet <- Logical_no
  MaxOps = 3
INVARIANTS NoZeroPivot EmitHist
CHECK_DEADLOCK FALSE
