SPECIFICATION TSpec
POSTCONDITION TraceAccepted
CHECK_DEADLOCK FALSE
CONSTANT MaxHist = 0
