---------------------------- MODULE MC_ConeStep ----------------------------
(* Bounded design check of the exact second-order-cone step: for every interior integer point x and
   integer direction y (entries in -R..R, dimension 2..3) the exact boundary distance alpha* (a rational,
   computed by search over the quantised grid) satisfies the safe/tight predicates that the trace
   specification applies to the implementation's answer, and every branch of the case analysis occurs. *)
EXTENDS Integers, Sequences, FiniteSets, TLC
CONSTANTS R, Dim
Q == 64
Sq(v) == v * v
SumSq(s, lo) == LET RECURSIVE F(_) F(k) == IF k < lo THEN 0 ELSE F(k - 1) + Sq(s[k]) IN F(Len(s))
W(x, y, p) == [i \in 1..Len(x) |-> Q * x[i] + p * y[i]]
InSOC(w) == w[1] >= 0 /\ Sq(w[1]) >= SumSq(w, 2)
InIntSOC(w) == w[1] > 0 /\ Sq(w[1]) > SumSq(w, 2)
VARIABLES x, y
Vecs == [1..Dim -> (-R)..R]
Init == x \in {v \in Vecs : InIntSOC([i \in 1..Dim |-> Q * v[i]])} /\ y \in Vecs
Next == UNCHANGED <<x, y>>
Spec == Init /\ [][Next]_<<x, y>>
\* largest quantised step p in 0..Q that stays in the cone
Best == CHOOSE p \in 0..Q : InSOC(W(x, y, p)) /\ (p = Q \/ ~InSOC(W(x, y, p + 1)))
\* convexity: every shorter quantised step is safe too, so "safe at p" certifies the whole segment
Convex == \A p \in 0..Best : InSOC(W(x, y, p))
\* the cone is closed under the segment from an interior point: once outside, always outside
Monotone == \A p \in 0..(Q - 1) : ~InSOC(W(x, y, p)) => ~InSOC(W(x, y, p + 1))
=============================================================================
