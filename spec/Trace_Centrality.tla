------------------------- MODULE Trace_Centrality -------------------------
(* Trace half of Centrality.tla (see there): one event per call of the      *)
(* centrality line search in recorded runs.                                 *)
EXTENDS Integers, Sequences, FiniteSets, TLC, FloatOrd, Json, IOUtils

Rec == ndJsonDeserialize(IOEnv.TRACE)

Passed(p, one) == ~IsNaN(p.barrier) /\ FLt(p.barrier, one)
Holds(pr) == ~IsNaN(pr[1]) /\ ~IsNaN(pr[2]) /\ FLe(pr[1], pr[2])
ProbeContentOK(p) ==
  /\ Holds(p.mu) /\ Holds(p.total)               \* mu(alpha); scalar part + logged cone terms = logged total
  /\ \A i \in 1..Len(p.sym_terms) : Holds(p.sym_terms[i])

SearchOK(e) ==
  LET n == Len(e.probes) IN
  /\ n >= 1 /\ n <= 50
  /\ FSame(e.probes[1].alpha, e.alpha_init)
  /\ \A i \in 1..n : FSame(e.probes[i].alpha, e.expected_alpha[i])      \* alpha_i = step * alpha_(i-1), bit for bit
  /\ \A i \in 1..(n - 1) : ~Passed(e.probes[i], e.one)
  /\ IF e.passed THEN Passed(e.probes[n], e.one) /\ FSame(e.result, e.probes[n].alpha)
     ELSE n = 50 /\ ~Passed(e.probes[n], e.one) /\ FSame(e.result, e.expected_alpha[51])
  /\ \A i \in 1..n : e.probes[i].skip \/ ProbeContentOK(e.probes[i])
  /\ e.dual_scaling /\ e.combined                  \* the search runs for combined steps under dual scaling only

EventOK(e) == CASE e.ev = "Centrality" -> SearchOK(e)
                [] OTHER -> FALSE

VARIABLES l, bad
Next == /\ l <= Len(Rec) /\ l' = l + 1
        /\ bad' = IF EventOK(Rec[l]) \/ Len(bad) >= 40 THEN bad ELSE Append(bad, l)
Spec == l = 1 /\ bad = <<>> /\ [][Next]_<<l, bad>>
Export == (l = Len(Rec) + 1) => (TLCSet(1, Len(bad)) /\ (bad # <<>> => PrintT("BAD-EVENTS " \o ToString(bad))))
TraceAccepted ==
  LET n == TLCGet("stats").diameter - 1 IN
  IF n = Len(Rec) /\ TLCGet(1) = 0 THEN TRUE
  ELSE PrintT(<<"TRACE-REJECTED at event", n + 1, "of", Len(Rec)>>) /\ FALSE
=============================================================================
