SPECIFICATION SpecU
CONSTANTS
  N = 8
  MaxOps = 8
  AsFound = TRUE
INVARIANTS Correct
CHECK_DEADLOCK FALSE
