------------------------------- MODULE Qdldl -------------------------------
(***************************************************************************)
(* The sparse LDL' engine (src/qdldl/qdldl.rs) over exact rationals.        *)
(*                                                                         *)
(* State: the current input matrix (upper triangle: each position absent    *)
(* or an integer value), the permutation vector as supplied (possibly not a *)
(* permutation), the D-sign vector, the regularisation setting, the outcome *)
(* of the last (re)factorisation and a history of operations.  Actions: New, *)
(* UpdateValues, ScaleValues, OffsetValues, Refactor.  Every value the real  *)
(* engine must produce (error kind, L pattern, L, D, inertia, regularisation *)
(* count, solution of a linear system) is computed here exactly and replayed *)
(* into the real engine (spec -> impl).                                      *)
(***************************************************************************)
EXTENDS Integers, Sequences, SequencesExt, FiniteSets, Rational, TLC, Json

CONSTANTS N,            \* matrix dimension
          DiagVals,     \* candidate values on the diagonal (X = structurally absent)
          OffVals,      \* candidate values off the diagonal (X = absent)
          PermSet,      \* candidate permutation vectors (0-based entries, may be invalid)
          SignSet,      \* candidate D-sign vectors
          RegSet,       \* candidate regularisation settings [on, eps, delta] (rationals)
          LogicalSet,   \* {FALSE}, {TRUE} or BOOLEAN: `logical` (symbolic-only) first factorisation
          MaxOps        \* history length bound

X == 99            \* marker for a structurally absent entry
Idx == 1..N
UT == {<<i, j>> \in Idx \X Idx : i <= j}       \* upper-triangle positions, i = row, j = col

IsValidPerm(p) == /\ \A k \in Idx : p[k] \in 0..(N - 1)
                  /\ \A k, m \in Idx : k # m => p[k] # p[m]

\* A: function UT -> {"x"} \cup Int
Present(A, i, j) == A[<<i, j>>] # X
ColNonEmpty(A, j) == \E i \in 1..j : Present(A, i, j)

\* symmetric value lookup of the input (0 where absent), as integers
AVal(A, i, j) == LET k == IF i <= j THEN <<i, j>> ELSE <<j, i>> IN IF A[k] = X THEN 0 ELSE A[k]
APres(A, i, j) == LET k == IF i <= j THEN <<i, j>> ELSE <<j, i>> IN A[k] # X

\* permuted matrix B = P A P' : row/col k of B is row/col perm[k] of A  (perm 0-based)
BVal(A, p, i, j) == AVal(A, p[i] + 1, p[j] + 1)
BPres(A, p, i, j) == APres(A, p[i] + 1, p[j] + 1)

\* symbolic fill: S[k] = filled pattern after eliminating columns 1..k
RECURSIVE Fill(_, _)
Fill(S, k) == IF k > N THEN S
              ELSE Fill([ij \in Idx \X Idx |->
                          S[ij] \/ (ij[1] > k /\ ij[2] > k /\ ij[1] # ij[2] /\ S[<<ij[1], k>>] /\ S[<<ij[2], k>>])], k + 1)
Pattern(A, p) == Fill([ij \in Idx \X Idx |-> ij[1] # ij[2] /\ BPres(A, p, ij[1], ij[2])], 1)
\* structural nonzeros of column k of L (rows below the diagonal)
LCol(S, k) == {i \in Idx : i > k /\ S[<<i, k>>]}

\* numeric factorisation, row by row as the code does (pivot k uses rows < k)
\* st = [L |-> function Idx \X Idx -> rational, D |-> function Idx -> rational, cnt, err, tie]
RECURSIVE SumLDL(_, _, _, _, _)
SumLDL(L, D, i, k, m) == \* sum_{j < m} L[i,j] * L[k,j] * D[j]
  IF m = 0 THEN RZero
  ELSE RAdd(SumLDL(L, D, i, k, m - 1), RMul(RMul(L[<<i, m>>], L[<<k, m>>]), D[m]))

RECURSIVE RowL(_, _, _, _, _, _, _)
\* fill L[k, j] for j = 1..k-1 in increasing j
RowL(A, p, S, L, D, k, j) ==
  IF j >= k THEN L
  ELSE LET v == IF S[<<k, j>>]
                THEN RDiv(RSub(RInt(BVal(A, p, k, j)), SumLDL(L, D, k, j, j - 1)), D[j])
                ELSE RZero
       IN RowL(A, p, S, [L EXCEPT ![<<k, j>>] = v], D, k, j + 1)

RECURSIVE Factor(_, _, _, _, _, _, _)
Factor(A, p, S, sg, reg, st, k) ==
  IF k > N \/ st.err # "none" THEN st
  ELSE LET L1 == RowL(A, p, S, st.L, st.D, k, 1)
           d0 == RSub(RInt(BVal(A, p, k, k)), SumLDL(L1, st.D, k, k, k - 1))
           s  == sg[p[k] + 1]                       \* D-signs are permuted with the matrix
           ds == RMul(d0, RInt(s))
           doreg == reg.on /\ RLt(ds, reg.eps)
           tie   == reg.on /\ REq(ds, reg.eps)
           d1 == IF doreg THEN RMul(reg.delta, RInt(s)) ELSE d0
       IN IF RIsZero(d1)
          THEN [st EXCEPT !.err = "ZeroPivot", !.L = L1]
          ELSE Factor(A, p, S, sg, reg,
                      [st EXCEPT !.L = L1, !.D = [st.D EXCEPT ![k] = d1],
                                 !.cnt = st.cnt + (IF doreg THEN 1 ELSE 0),
                                 !.tie = st.tie \/ tie], k + 1)

EmptyFact == [L |-> [ij \in Idx \X Idx |-> RZero], D |-> [k \in Idx |-> RZero], cnt |-> 0,
              err |-> "none", tie |-> FALSE]

\* outcome of QDLDLFactorisation::new / refactor on matrix A
Outcome(A, p, sg, reg) ==
  IF \E j \in Idx : ~ColNonEmpty(A, j) THEN [EmptyFact EXCEPT !.err = "EmptyColumn"]
  ELSE IF ~IsValidPerm(p) THEN [EmptyFact EXCEPT !.err = "InvalidPermutation"]
  ELSE Factor(A, p, Pattern(A, p), sg, reg, EmptyFact, 1)

StructOutcome(A, p) ==
  IF \E j \in Idx : ~ColNonEmpty(A, j) THEN [EmptyFact EXCEPT !.err = "EmptyColumn"]
  ELSE IF ~IsValidPerm(p) THEN [EmptyFact EXCEPT !.err = "InvalidPermutation"]
  ELSE EmptyFact

Inertia(st) == Cardinality({k \in Idx : st.D[k][1] > 0})

\* exact solution of A x = b with b = (1, 2, ..., N), through the factors (perturbed if regularised)
RECURSIVE FwdSub(_, _, _)     \* y = L^-1 (P b): y[k] = pb[k] - sum_{j<k} L[k,j] y[j]
FwdSub(st, pb, k) ==
  IF k = 0 THEN [i \in Idx |-> RZero]
  ELSE LET y == FwdSub(st, pb, k - 1)
           RECURSIVE Acc(_)
           Acc(j) == IF j = 0 THEN RZero ELSE RAdd(Acc(j - 1), RMul(st.L[<<k, j>>], y[j]))
       IN [y EXCEPT ![k] = RSub(pb[k], Acc(k - 1))]
RECURSIVE BackSub(_, _, _)    \* x = L'^-1 D^-1 y : x[k] = y[k]/D[k] - sum_{i>k} L[i,k] x[i]
BackSub(st, y, k) ==
  IF k > N THEN [i \in Idx |-> RZero]
  ELSE LET x == BackSub(st, y, k + 1)
           RECURSIVE Acc(_)
           Acc(i) == IF i > N THEN RZero ELSE RAdd(Acc(i + 1), RMul(st.L[<<i, k>>], x[i]))
       IN [x EXCEPT ![k] = RSub(RDiv(y[k], st.D[k]), Acc(k + 1))]
SolveVec(st, p) ==
  LET pb == [k \in Idx |-> RInt(p[k] + 1)]          \* (P b)[k] = b[perm[k]], b[i] = i + 1 (0-based i)
      y  == FwdSub(st, pb, N)
      xp == BackSub(st, y, 1)
  IN [i \in Idx |-> xp[CHOOSE k \in Idx : p[k] + 1 = i]]   \* x = P' xp

-----------------------------------------------------------------------------
VARIABLES A, A0, perm, signs, reg, logical, fact, hist, nops
qvars == <<A, A0, perm, signs, reg, logical, fact, hist, nops>>

Matrices == {M \in [UT -> DiagVals \cup OffVals] :
               \A ij \in UT : IF ij[1] = ij[2] THEN M[ij] \in DiagVals ELSE M[ij] \in OffVals}

Init == /\ A \in Matrices /\ A0 = A /\ perm \in PermSet /\ signs \in SignSet /\ reg \in RegSet
        /\ logical \in LogicalSet
        \* a logical factorisation only analyses the structure: no pivot can fail
        /\ fact = IF logical THEN StructOutcome(A, perm) ELSE Outcome(A, perm, signs, reg)
        /\ hist = <<>> /\ nops = 0

Live == fact.err = "none"

\* positions of the input's stored entries in CSC order (column by column, rows ascending):
\* index k (0-based) in the nzval vector of the input matrix
Stored(M) == {ij \in UT : M[ij] # X}
CscIndex(M, ij) == Cardinality({kl \in Stored(M) : kl[2] < ij[2] \/ (kl[2] = ij[2] /\ kl[1] < ij[1])})

UpdateValues(ij, v) ==
  /\ Live /\ nops < MaxOps /\ ij \in Stored(A)
  /\ A' = [A EXCEPT ![ij] = v]
  /\ hist' = Append(hist, [op |-> "update", idx |-> CscIndex(A, ij), val |-> v])
  /\ nops' = nops + 1 /\ UNCHANGED <<A0, perm, signs, reg, logical, fact>>

ScaleValues(ij, sc) ==
  /\ Live /\ nops < MaxOps /\ ij \in Stored(A)
  /\ A' = [A EXCEPT ![ij] = @ * sc]
  /\ hist' = Append(hist, [op |-> "scale", idx |-> CscIndex(A, ij), val |-> sc])
  /\ nops' = nops + 1 /\ UNCHANGED <<A0, perm, signs, reg, logical, fact>>

\* offset_values(indices, offset, signs): +offset, -offset or nothing by sign.signum()
OffsetValues(ij, off, sgn) ==
  /\ Live /\ nops < MaxOps /\ ij \in Stored(A)
  /\ A' = [A EXCEPT ![ij] = @ + (IF sgn > 0 THEN off ELSE IF sgn < 0 THEN -off ELSE 0)]
  /\ hist' = Append(hist, [op |-> "offset", idx |-> CscIndex(A, ij), val |-> off, sgn |-> sgn])
  /\ nops' = nops + 1 /\ UNCHANGED <<A0, perm, signs, reg, logical, fact>>

Refactor ==
  /\ Live /\ nops < MaxOps /\ (IF nops = 0 THEN logical ELSE hist[Len(hist)].op # "refactor")
  /\ fact' = Outcome(A, perm, signs, reg)
  /\ hist' = Append(hist, [op |-> "refactor", expect |-> fact'])
  /\ nops' = nops + 1 /\ UNCHANGED <<A, A0, perm, signs, reg, logical>>

Next == \/ \E ij \in UT, v \in {-2, 3} : UpdateValues(ij, v)
        \/ \E ij \in UT, sc \in {-1, 2} : ScaleValues(ij, sc)
        \/ \E ij \in UT, off \in {1}, sgn \in {-3, 0, 2} : OffsetValues(ij, off, sgn)
        \/ Refactor
Spec == Init /\ [][Next]_qvars

-----------------------------------------------------------------------------
(* properties of the specification itself *)

\* P A P' = L D L' exactly whenever the outcome is Ok and nothing was regularised
Reconstruct(st) ==
  \A i, j \in Idx : i >= j =>
     LET Lij(a, b) == IF a = b THEN ROne ELSE IF a > b THEN st.L[<<a, b>>] ELSE RZero
         RECURSIVE S(_)
         S(m) == IF m = 0 THEN RZero ELSE RAdd(S(m - 1), RMul(RMul(Lij(i, m), Lij(j, m)), st.D[m]))
     IN REq(S(N), RInt(BVal(A, perm, i, j)))
FactorisationExact == (fact.err = "none" /\ fact.cnt = 0 /\ nops = 0 /\ ~logical) => Reconstruct(fact)
\* regularised pivots carry exactly delta*sign; their number is the count
RegularisedPivots == (fact.err = "none" /\ reg.on) =>
     Cardinality({k \in Idx : REq(fact.D[k], RMul(reg.delta, RInt(signs[perm[k] + 1])))}) >= fact.cnt
\* no zero pivot survives
NoZeroPivot == (fact.err = "none" /\ ~(logical /\ nops = 0) /\ (logical => \E k \in 1..Len(hist) : hist[k].op = "refactor")) => \A k \in Idx : ~RIsZero(fact.D[k])

-----------------------------------------------------------------------------
(* export of behaviours for replay into the real engine *)
RatJ(r) == <<r[1], r[2]>>
\* every value computed so far is a dyadic rational: binary floating point then reproduces the exact arithmetic, and
\* in particular an exactly vanishing pivot.  Otherwise (thirds, fifths ...) a zero pivot may round to a tiny nonzero
\* number, which no floating-point engine can tell from a legitimate one: the replayer then accepts either outcome.
RECURSIVE IsPow2(_)
IsPow2(n) == n = 1 \/ (n > 1 /\ n % 2 = 0 /\ IsPow2(n \div 2))
Dyadic(st) == /\ \A k \in Idx : IsPow2(st.D[k][2])
              /\ \A ij \in Idx \X Idx : IsPow2(st.L[ij][2])
FactJ(st, withSolve) ==
  [err |-> st.err, tie |-> st.tie, cnt |-> st.cnt, dyadic |-> Dyadic(st),
   D |-> [k \in Idx |-> RatJ(st.D[k])],
   L |-> [i \in Idx |-> [j \in Idx |-> RatJ(st.L[<<i, j>>])]],
   inertia |-> IF st.err = "none" THEN Inertia(st) ELSE 0,
   x |-> IF withSolve /\ st.err = "none" THEN [i \in Idx |-> RatJ(SolveVec(st, perm)[i])] ELSE <<>>]
MatJ(M) == [i \in Idx |-> [j \in Idx |-> IF i <= j THEN (IF M[<<i, j>>] = X THEN "x" ELSE ToString(M[<<i, j>>])) ELSE "x"]]
HistJ == [k \in 1..Len(hist) |->
            IF hist[k].op = "refactor" THEN [op |-> "refactor", expect |-> FactJ(hist[k].expect, FALSE)]
            ELSE hist[k]]
\* one line per initial configuration (nops = 0) ...
EmitNew == (nops = 0) =>
   PrintT(<<"REPLAY", ToJson([kind |-> "new", logical |-> logical, n |-> N, A |-> MatJ(A), perm |-> perm, signs |-> signs,
                               reg |-> IF ~reg.on THEN <<>> ELSE <<RatJ(reg.eps), RatJ(reg.delta)>>,
                               pattern |-> IF IsValidPerm(perm) /\ \A j \in Idx : ColNonEmpty(A, j)
                                           THEN [k \in Idx |-> SetToSeq(LCol(Pattern(A, perm), k))] ELSE <<>>,
                               expect |-> FactJ(fact, TRUE)])>>)
\* ... and one per complete history ending in a refactor
EmitHist == (nops > 0 /\ hist[Len(hist)].op = "refactor") =>
   PrintT(<<"REPLAY", ToJson([kind |-> "hist", logical |-> logical, n |-> N, A0 |-> MatJ(A0), perm |-> perm, signs |-> signs,
                               reg |-> IF ~reg.on THEN <<>> ELSE <<RatJ(reg.eps), RatJ(reg.delta)>>,
                               hist |-> HistJ, Afinal |-> MatJ(A)])>>)
=============================================================================
