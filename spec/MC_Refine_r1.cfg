SPECIFICATION RSpec
CONSTANTS
  MaxIter = 4
  NMax = 5
  Tol = 0
  StopRatio = 1
INVARIANTS BestSeen Bounded ConvergedLow FailIffInf
PROPERTIES NonIncreasing Terminates
CHECK_DEADLOCK FALSE
