---- MODULE NewtonOneSided_TTrace_1791006916 ----
EXTENDS Sequences, TLCExt, Toolbox, Naturals, TLC, NewtonOneSided

_expression ==
    LET NewtonOneSided_TEExpression == INSTANCE NewtonOneSided_TEExpression
    IN NewtonOneSided_TEExpression!expression
----

_trace ==
    LET NewtonOneSided_TETrace == INSTANCE NewtonOneSided_TETrace
    IN NewtonOneSided_TETrace!trace
----

_inv ==
    ~(
        TLCGet("level") = Len(_TETrace)
        /\
        pc = ("done")
        /\
        iters = (0)
        /\
        root = (1)
        /\
        x = (2)
    )
----

_init ==
    /\ iters = _TETrace[1].iters
    /\ root = _TETrace[1].root
    /\ x = _TETrace[1].x
    /\ pc = _TETrace[1].pc
----

_next ==
    /\ \E i,j \in DOMAIN _TETrace:
        /\ \/ /\ j = i + 1
              /\ i = TLCGet("level")
        /\ iters  = _TETrace[i].iters
        /\ iters' = _TETrace[j].iters
        /\ root  = _TETrace[i].root
        /\ root' = _TETrace[j].root
        /\ x  = _TETrace[i].x
        /\ x' = _TETrace[j].x
        /\ pc  = _TETrace[i].pc
        /\ pc' = _TETrace[j].pc

\* Uncomment the ASSUME below to write the states of the error trace
\* to the given file in Json format. Note that you can pass any tuple
\* to `JsonSerialize`. For example, a sub-sequence of _TETrace.
    \* ASSUME
    \*     LET J == INSTANCE Json
    \*         IN J!JsonSerialize("NewtonOneSided_TTrace_1791006916.json", _TETrace)

=============================================================================

 Note that you can extract this module `NewtonOneSided_TEExpression`
  to a dedicated file to reuse `expression` (the module in the 
  dedicated `NewtonOneSided_TEExpression.tla` file takes precedence 
  over the module `NewtonOneSided_TEExpression` below).

---- MODULE NewtonOneSided_TEExpression ----
EXTENDS Sequences, TLCExt, Toolbox, Naturals, TLC, NewtonOneSided

expression == 
    [
        \* To hide variables of the `NewtonOneSided` spec from the error trace,
        \* remove the variables below.  The trace will be written in the order
        \* of the fields of this record.
        iters |-> iters
        ,root |-> root
        ,x |-> x
        ,pc |-> pc
        
        \* Put additional constant-, state-, and action-level expressions here:
        \* ,_stateNumber |-> _TEPosition
        \* ,_itersUnchanged |-> iters = iters'
        
        \* Format the `iters` variable as Json value.
        \* ,_itersJson |->
        \*     LET J == INSTANCE Json
        \*     IN J!ToJson(iters)
        
        \* Lastly, you may build expressions over arbitrary sets of states by
        \* leveraging the _TETrace operator.  For example, this is how to
        \* count the number of times a spec variable changed up to the current
        \* state in the trace.
        \* ,_itersModCount |->
        \*     LET F[s \in DOMAIN _TETrace] ==
        \*         IF s = 1 THEN 0
        \*         ELSE IF _TETrace[s].iters # _TETrace[s-1].iters
        \*             THEN 1 + F[s-1] ELSE F[s-1]
        \*     IN F[_TEPosition - 1]
    ]

=============================================================================



Parsing and semantic processing can take forever if the trace below is long.
 In this case, it is advised to uncomment the module below to deserialize the
 trace from a generated binary file.

\*
\*---- MODULE NewtonOneSided_TETrace ----
\*EXTENDS IOUtils, TLC, NewtonOneSided
\*
\*trace == IODeserialize("NewtonOneSided_TTrace_1791006916.bin", TRUE)
\*
\*=============================================================================
\*

---- MODULE NewtonOneSided_TETrace ----
EXTENDS TLC, NewtonOneSided

trace == 
    <<
    ([pc |-> "newton",iters |-> 0,root |-> 1,x |-> 2]),
    ([pc |-> "done",iters |-> 0,root |-> 1,x |-> 2])
    >>
----


=============================================================================

---- CONFIG NewtonOneSided_TTrace_1791006916 ----
CONSTANTS
    N = 64
    Guard = FALSE

INVARIANT
    _inv

CHECK_DEADLOCK
    \* CHECK_DEADLOCK off because of PROPERTY or INVARIANT above.
    FALSE

INIT
    _init

NEXT
    _next

CONSTANT
    _TETrace <- _trace

ALIAS
    _expression
=============================================================================
\* Generated on Sat Oct 03 05:55:17 UTC 2026