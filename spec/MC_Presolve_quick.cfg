SPECIFICATION Spec
CONSTANTS
  ConeMenu <- Menu_quick
  MaxCones = 3
  MaxM = 4
  BClasses <- B_two
  Bounds <- Bnd_none
INVARIANTS DropRule ReducedConsistent CollapsePreservesRows Emit
PROPERTY BoundFrozen
CHECK_DEADLOCK FALSE
