SPECIFICATION Spec
CONSTANTS
  Cones = {1, 2}
  Heads <- MCHeads
  Tails <- MCTails
  R = 8
  Target = 2
  Recheck = TRUE
INVARIANT Interior
PROPERTY Terminates
