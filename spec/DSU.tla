-------------------------------- MODULE DSU --------------------------------
(***************************************************************************)
(* The union-find structure of the clique-graph merge                      *)
(* (src/solver/chordal/merge/disjoint_set_union.rs) at implementation      *)
(* level: parent and rank arrays, `root` with path halving exactly as       *)
(* coded, union by rank -- plus a ghost partition that says what the        *)
(* structure is supposed to represent.  Behaviours are replayed on the real *)
(* struct and the arrays compared after every operation.                    *)
(*                                                                         *)
(* RootAsFound is the loop as it was in the pinned tree (it stops after one *)
(* halving step and returns the grand-parent); TLC shows that Correct fails *)
(* for it (MC_DSU_asfound.cfg).  Root is the repaired loop.                 *)
(***************************************************************************)
EXTENDS Integers, Sequences, FiniteSets, TLC, Json

CONSTANTS N, MaxOps, AsFound
Elem == 0..(N - 1)

VARIABLES parents, ranks, part, hist, nops
vars == <<parents, ranks, part, hist, nops>>

\* repaired: walk up from the moving node, halving the path
RECURSIVE RootF(_, _)
RootF(p, node) == IF p[node] = node THEN <<node, p>>
                  ELSE LET p2 == [p EXCEPT ![node] = p[p[node]]] IN RootF(p2, p2[node])
\* as found: `while parent != parents[x]` re-reads parents[x] after overwriting it, so the loop
\* body runs at most once and the grand-parent is returned
RootAsFound(p, x) == IF p[x] = x THEN <<x, p>>
                     ELSE LET p2 == [p EXCEPT ![x] = p[p[x]]] IN <<p2[x], p2>>
Root(p, x) == IF AsFound THEN RootAsFound(p, x) ELSE RootF(p, x)

\* the true representative, without side effects (the forest is acyclic)
RECURSIVE Rep(_, _, _)
Rep(p, x, fuel) == IF p[x] = x \/ fuel = 0 THEN x ELSE Rep(p, p[x], fuel - 1)

Arr(f) == [i \in 1..N |-> f[i - 1]]      \* as a sequence, for export

Init == /\ parents = [x \in Elem |-> x] /\ ranks = [x \in Elem |-> 0]
        /\ part = [x \in Elem |-> x] /\ hist = <<>> /\ nops = 0

Union(x, y) ==
  /\ nops < MaxOps
  /\ LET r1 == Root(parents, x)
         r2 == Root(r1[2], y)
         r == r1[1] s == r2[1] p == r2[2]
     IN /\ IF r = s THEN parents' = p /\ UNCHANGED ranks
           ELSE IF ranks[r] > ranks[s] THEN parents' = [p EXCEPT ![s] = r] /\ UNCHANGED ranks
           ELSE IF ranks[r] < ranks[s] THEN parents' = [p EXCEPT ![r] = s] /\ UNCHANGED ranks
           ELSE parents' = [p EXCEPT ![r] = s] /\ ranks' = [ranks EXCEPT ![s] = @ + 1]
        /\ part' = [z \in Elem |-> IF part[z] = part[x] THEN part[y] ELSE part[z]]
        /\ hist' = Append(hist, [op |-> "union", x |-> x, y |-> y, parents |-> Arr(parents'), ranks |-> Arr(ranks')])
        /\ nops' = nops + 1

InSameSet(x, y) ==
  /\ nops < MaxOps
  /\ LET r1 == Root(parents, x)
         r2 == Root(r1[2], y)
     IN /\ parents' = r2[2]
        /\ hist' = Append(hist, [op |-> "same", x |-> x, y |-> y, res |-> (r1[1] = r2[1]), parents |-> Arr(parents'), ranks |-> Arr(ranks)])
        /\ nops' = nops + 1 /\ UNCHANGED <<ranks, part>>

Next == \E x, y \in Elem : Union(x, y) \/ InSameSet(x, y)
NextUnionsOrdered == \E x, y \in Elem : x < y /\ Union(x, y)
\* adversarial schedule: unions only between different blocks whose roots have equal rank (the fastest
\* way to grow tall trees), then membership queries
NextTall == IF nops < N - 1
            THEN \E x, y \in Elem : /\ x < y /\ part[x] # part[y]
                                     /\ ranks[Rep(parents, x, N)] = ranks[Rep(parents, y, N)]
                                     /\ Union(x, y)
            ELSE \E x, y \in Elem : InSameSet(x, y)
SpecTall == Init /\ [][NextTall]_vars
Spec == Init /\ [][Next]_vars
SpecU == Init /\ [][NextUnionsOrdered]_vars

\* the structure represents the ghost partition: same root <=> same block
Correct == \A x, y \in Elem : (Root(parents, x)[1] = Root(parents, y)[1]) <=> (part[x] = part[y])
\* the parent pointers form a forest whose trees are exactly the blocks
Forest == \A x \in Elem : LET r == Rep(parents, x, N) IN parents[r] = r /\ part[r] = part[x]
\* union by rank keeps trees shallow: rank bounds the height
RankBound == \A x \in Elem : parents[x] # x => ranks[parents[x]] >= 1

Emit == (nops = MaxOps) => PrintT(<<"REPLAY", ToJson([n |-> N, hist |-> hist])>>)
=============================================================================
