------------------------------- MODULE Timers -------------------------------
(***************************************************************************)
(* The hierarchical timers behind `solve_time` and the time-limit test      *)
(* (src/timers/timers.rs), modelled as coded: a stack of active keys, a     *)
(* tree of timers addressed by paths, `start` marks and accumulated         *)
(* `elapsed`; an abstract clock that advances only through Sleep actions.   *)
(* total_time() sums the `elapsed` of the ROOT timers only, and `elapsed`    *)
(* moves only at stop/suspend -- which is why the solver's clock reading     *)
(* lags by one pass (DESIGN F7).  Behaviours are replayed on the real        *)
(* `clarabel::timers::Timers` with real sleeps: the real total_time must be  *)
(* at least the model's committed ticks, and must not change at all on the   *)
(* actions for which the model says nothing is committed.                    *)
(***************************************************************************)
EXTENDS Integers, Sequences, FiniteSets, TLC, Json

CONSTANTS Keys, MaxDepth, MaxOps

Paths == UNION { [1..d -> Keys] : d \in 1..MaxDepth }

VARIABLES stack, tm, clock, hist, nops
tvars == <<stack, tm, clock, hist, nops>>

None == -1
Fresh == [start |-> None, elapsed |-> 0, exists |-> FALSE]
Init == /\ stack = <<>> /\ tm = [p \in Paths |-> Fresh] /\ clock = 0 /\ hist = <<>> /\ nops = 0

IsPrefix(p, q) == Len(p) <= Len(q) /\ \A i \in 1..Len(p) : p[i] = q[i]
\* a timer is reached by suspend/resume iff all its proper ancestors are running
Reached(p) == \A d \in 1..(Len(p) - 1) : tm[SubSeq(p, 1, d)].start # None /\ tm[SubSeq(p, 1, d)].exists
Total(t) == LET roots == {p \in Paths : Len(p) = 1 /\ t[p].exists}
                RECURSIVE S(_)
                S(R) == IF R = {} THEN 0 ELSE LET p == CHOOSE x \in R : TRUE IN t[p].elapsed + S(R \ {p})
            IN S(roots)

Log(op, key) == /\ hist' = Append(hist, [op |-> op, key |-> key, total |-> Total(tm'), changed |-> (Total(tm') # Total(tm))])
                /\ nops' = nops + 1

Start(k) == /\ nops < MaxOps /\ Len(stack) < MaxDepth
            /\ LET p == Append(stack, k) IN tm' = [tm EXCEPT ![p] = [@ EXCEPT !.start = clock, !.exists = TRUE]]
            /\ stack' = Append(stack, k) /\ UNCHANGED clock /\ Log("start", k)
Stop == /\ nops < MaxOps /\ stack # <<>>
        /\ tm[stack].start # None               \* (stop on a timer without a start mark would panic: not generated)
        /\ tm' = [tm EXCEPT ![stack] = [@ EXCEPT !.elapsed = @ + (clock - tm[stack].start), !.start = None]]
        /\ stack' = SubSeq(stack, 1, Len(stack) - 1) /\ UNCHANGED clock /\ Log("stop", "")
\* notimeit!: suspend adds the running interval to `elapsed` but leaves the start mark in place ...
Suspend == /\ nops < MaxOps
           /\ tm' = [p \in Paths |-> IF tm[p].exists /\ tm[p].start # None /\ Reached(p)
                                     THEN [tm[p] EXCEPT !.elapsed = @ + (clock - tm[p].start)] ELSE tm[p]]
           /\ UNCHANGED <<stack, clock>> /\ Log("suspend", "")
\* ... and resume moves the start mark to now
Resume == /\ nops < MaxOps
          /\ tm' = [p \in Paths |-> IF tm[p].exists /\ tm[p].start # None /\ Reached(p)
                                    THEN [tm[p] EXCEPT !.start = clock] ELSE tm[p]]
          /\ UNCHANGED <<stack, clock>> /\ Log("resume", "")
Reset(k) == /\ nops < MaxOps /\ stack = <<>>
            /\ tm' = [p \in Paths |-> IF p[1] = k THEN (IF Len(p) = 1 THEN [Fresh EXCEPT !.exists = TRUE] ELSE Fresh) ELSE tm[p]]
            /\ UNCHANGED <<stack, clock>> /\ Log("reset", k)
Sleep == /\ nops < MaxOps /\ clock' = clock + 1 /\ UNCHANGED <<stack, tm>>
         /\ hist' = Append(hist, [op |-> "sleep", key |-> "", total |-> Total(tm), changed |-> FALSE]) /\ nops' = nops + 1

Next == (\E k \in Keys : Start(k) \/ Reset(k)) \/ Stop \/ Suspend \/ Resume \/ Sleep
Spec == Init /\ [][Next]_tvars

\* committed time never decreases except by an explicit reset
Monotone == [][(\A i \in 1..Len(hist') : TRUE) /\ (hist' # hist /\ hist'[Len(hist')].op # "reset") => Total(tm') >= Total(tm)]_tvars
\* only stop and suspend commit time
OnlyStopSuspendCommit == [][hist' # hist /\ hist'[Len(hist')].op \in {"start", "resume", "sleep"} => Total(tm') = Total(tm)]_tvars
\* a balanced suspend/resume pair around a stretch without sleeps commits exactly the time slept so far (the lag)
StackWellFormed == \A d \in 1..Len(stack) : tm[SubSeq(stack, 1, d)].exists

Emit == (nops = MaxOps) => PrintT(<<"REPLAY", ToJson([hist |-> hist])>>)
=============================================================================
