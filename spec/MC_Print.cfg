SPECIFICATION DSpec
CONSTRAINT Bounded
PROPERTY OnlyCurrentGrows
CHECK_DEADLOCK FALSE
