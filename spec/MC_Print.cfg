SPECIFICATION DSpec
CONSTRAINT Bounded
PROPERTY OnlyCurrentGrows
CHECK_DEADLOCK FALSE
CONSTANT MaxHist = 0
