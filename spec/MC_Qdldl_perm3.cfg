SPECIFICATION Spec
CONSTANTS
  N = 3
  DiagVals <- Diag_hist
  OffVals <- Off_hist
  PermSet <- Perms_all
  SignSet <- Signs_pos
  RegSet <- Reg_off
  LogicalSet <- Logical_no
  MaxOps = 0
INVARIANTS EmitNew
CHECK_DEADLOCK FALSE
