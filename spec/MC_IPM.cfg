SPECIFICATION FairSpec
CONSTANTS
  MaxK = 3
INVARIANTS TypeOK IterBound DoneTerminal ReportMatchesIterate IterationsReported KappaIffInfeasible NoStaleInfeasibleFull RollbackHasPrev PrintShape LastRowMatches
PROPERTIES ScalingMonotone Termination
CHECK_DEADLOCK FALSE
