#[doc(hidden)]
pub mod __private229 {
    #[doc(hidden)]
    pub use crate::private::*;
}
use serde_core::__private229 as serde_core_private;
