#[doc(hidden)]
pub mod __private229 {
    #[doc(hidden)]
    pub use crate::private::*;
}
