//! impl -> spec recorder for KKT.tla (C11): structural layouts through the assembly wrapper (both
//! triangles) and value-layer states read from real solvers after real KKT updates.
#![allow(non_snake_case)]
use crate::fenc::*;
use crate::gen::{self, GenOpts};
use crate::problem::*;
use crate::rec_ipm::{run_ipm, RunOpts};
use clarabel::solver::*;
use clarabel::verif::KKTView;
use rand::rngs::StdRng;
use rand::{Rng, SeedableRng};
use serde_json::{json, Value};
use std::panic::{catch_unwind, AssertUnwindSafe};

fn cone_layout(cones: &[ConeSpec]) -> (Vec<Value>, Vec<usize>) {
    // returns cone records and, for each sparse-expandable cone in order, its 1-based cone index
    let mut out = vec![];
    let mut sparse_idx = vec![];
    let mut off = 0;
    for (k, c) in cones.iter().enumerate() {
        let d = c.numel();
        let (diag, sparse) = match c {
            ConeSpec::Zero(_) | ConeSpec::Nonneg(_) => (true, false),
            ConeSpec::Soc(n) => (*n > 4, *n > 4),
            ConeSpec::GenPow(_, _) => (true, true),
            _ => (false, false),
        };
        // the Hs block of a PSD cone has dimension numel x numel (svec space)
        out.push(json!({"kind": c.tag(), "lo": off, "hi": off + d - 1, "diag": diag}));
        if sparse { sparse_idx.push(k + 1); }
        off += d;
    }
    (out, sparse_idx)
}

fn structure_fields(v: &KKTView, P: &Csc, A: &Csc, cones: &[ConeSpec], triu: bool) -> serde_json::Map<String, Value> {
    let (layout, sparse_idx) = cone_layout(cones);
    let mut pi = vec![]; let mut pj = vec![];
    for j in 0..P.n { for k in P.colptr[j]..P.colptr[j + 1] { pi.push(P.rowval[k]); pj.push(j); } }
    let mut ar = vec![]; let mut ac = vec![];
    for j in 0..A.n { for k in A.colptr[j]..A.colptr[j + 1] { ar.push(A.rowval[k]); ac.push(j); } }
    let sparse: Vec<Value> = v.sparse.iter().enumerate().map(|(s, sm)| json!({"cone": sparse_idx.get(s).copied().unwrap_or(0), "kind": sm.kind,
        "vecs": sm.vecs, "D": sm.D, "dsigns": sm.dsigns})).collect();
    let mut m = serde_json::Map::new();
    for (k, val) in [("triu", json!(triu)), ("n", json!(v.n)), ("m", json!(v.m)), ("p", json!(v.p)), ("dim", json!(v.dim)),
                     ("colptr", json!(v.colptr)), ("rowval", json!(v.rowval)), ("map_P", json!(v.map_P)), ("map_A", json!(v.map_A)),
                     ("map_Hs", json!(v.map_Hs)), ("diagP", json!(v.diagP)), ("diag_full", json!(v.diag_full)), ("sparse", json!(sparse)),
                     ("Pi", json!(pi)), ("Pj", json!(pj)), ("Ar", json!(ar)), ("Ac", json!(ac)), ("cones", json!(layout))] {
        m.insert(k.to_string(), val);
    }
    m
}

pub fn assembled_event(id: usize, P: &Csc, A: &Csc, cones: &[ConeSpec], triu: bool) -> Value {
    let cc: Vec<_> = cones.iter().map(|c| c.to_clarabel()).collect();
    let (Pc, Ac) = (P.to_clarabel(), A.to_clarabel());
    match catch_unwind(AssertUnwindSafe(|| clarabel::verif::assemble_kkt(&Pc, &Ac, &cc, triu))) {
        Ok(v) => {
            let mut m = structure_fields(&v, P, A, cones, triu);
            m.insert("ev".into(), json!("Assembled"));
            m.insert("id".into(), json!(id));
            Value::Object(m)
        }
        Err(e) => json!({"ev": "Panic", "id": id, "msg": crate::rec_ipm::panic_msg(e), "cones": format!("{:?}", cones)}),
    }
}

fn cone_lists() -> Vec<Vec<ConeSpec>> {
    use ConeSpec::*;
    vec![
        vec![], vec![Nonneg(2)], vec![Zero(1), Nonneg(1)], vec![Soc(3)], vec![Soc(5)], vec![Nonneg(1), Soc(6), Zero(1)],
        vec![Soc(5), Soc(3), Soc(5)], vec![Exp], vec![Pow(0.5), Nonneg(1)], vec![GenPow(vec![0.5, 0.5], 1)],
        vec![GenPow(vec![0.25, 0.25, 0.5], 2), Soc(5)], vec![Psd(2)], vec![Nonneg(1), Psd(2), Exp], vec![Soc(2), GenPow(vec![0.3, 0.7], 1), Psd(2)],
    ]
}

fn pattern(rng: &mut StdRng, m: usize, n: usize, mask: Option<u64>, density: f64, triu_only: bool) -> Csc {
    let mut d = vec![vec![0.0; n]; m];
    let mut bit = 0;
    for j in 0..n { for i in 0..m {
        if triu_only && i > j { continue; }
        let on = match mask { Some(mk) => mk >> bit & 1 == 1, None => rng.gen::<f64>() < density };
        bit += 1;
        if on { d[i][j] = 1.0 + (i + 2 * j) as f64; }
    } }
    Csc::from_dense(&d, m, n)
}

pub fn record_structure(seed: u64, thorough: bool) -> Vec<Value> {
    let mut rng = StdRng::seed_from_u64(seed);
    let mut out = vec![];
    let mut id = 0;
    let lists = cone_lists();
    for cones in &lists {
        let m: usize = cones.iter().map(|c| c.numel()).sum();
        for n in 1..=3usize {
            let np = n * (n + 1) / 2;
            for pmask in 0..(1u64 << np) {
                // A patterns: exhaustive when small, sampled otherwise
                let cells = m * n;
                let amasks: Vec<Option<u64>> = if cells <= 6 && thorough { (0..(1u64 << cells)).map(Some).collect() }
                    else { (0..if thorough { 6 } else { 1 }).map(|_| None).collect() };
                for am in amasks {
                    if !thorough && rng.gen::<f64>() > 0.35 { continue; }
                    let P = pattern(&mut rng, n, n, Some(pmask), 0.0, true);
                    let A = pattern(&mut rng, m, n, am, 0.5, false);
                    for triu in [true, false] {
                        out.push(assembled_event(id, &P, &A, cones, triu));
                        id += 1;
                    }
                }
            }
        }
    }
    out
}

fn schur_block(v: &KKTView, dense: &dyn Fn(usize, usize) -> f64, rows: &[usize], aux: &[usize]) -> Vec<Vec<f64>> {
    // H = -(K_RR - K_RC K_CC^-1 K_CR), K_CC diagonal
    let d = rows.len();
    let mut h = vec![vec![0.0; d]; d];
    for (a, &ra) in rows.iter().enumerate() { for (b, &rb) in rows.iter().enumerate() {
        let mut val = dense(ra, rb);
        for &c in aux { val -= dense(ra, c) * dense(rb, c) / dense(c, c); }
        h[a][b] = -val;
    } }
    let _ = v;
    h
}

pub fn state_event(id: usize, p: &Problem, k: u32) -> Value {
    state_event_hist(id, p, k, None)
}

/// `first`: an earlier solve on the same object with that budget (history), before the solve with budget k
pub fn state_event_hist(id: usize, p: &Problem, k: u32, first: Option<u32>) -> Value {
    let mut pk = p.clone();
    if !pk.settings.is_object() { pk.settings = json!({}); }
    pk.settings["max_iter"] = json!(k);
    pk.settings["direct_solve_method"] = json!("qdldl");
    pk.settings["presolve_enable"] = json!(false);
    pk.settings["chordal_decomposition_enable"] = json!(false);
    let st = pk.settings();
    let (P, A) = (pk.P.to_clarabel(), pk.A.to_clarabel());
    let res = catch_unwind(AssertUnwindSafe(|| {
        let mut solver = DefaultSolver::new(&P, &pk.q, &A, &pk.b, &pk.clarabel_cones(), st.clone());
        if let Some(k1) = first {
            solver.settings.max_iter = k1;
            solver.solve();
            solver.settings.max_iter = k;
        }
        // "+failed": a factorisation that FAILED lies in the solver's past (A poisoned with a NaN through the update API, a
        // solve, the original values written back): the copies must be clean again - no regularisation left behind
        if pk.tag.contains("+failed") && solver.is_data_update_allowed() && !A.nzval.is_empty() {
            let mut bad = A.nzval.clone();
            bad[0] = f64::NAN;
            if solver.update_A(&bad).is_ok() {
                solver.settings.max_iter = 3;
                solver.solve();
                solver.update_A(&A.nzval).expect("update_A with the original values");
                solver.settings.max_iter = k;
            }
        }
        // "+switch": the step of the last pass is clamped below min_switch_step_length, so that a problem with exponential /
        // power cones changes from the primal-dual to the dual scaling strategy INSIDE that pass and the solve stops right
        // after it: the matrix must have been refreshed with the scaling the cones now hold
        if pk.tag.contains("+switch") && k >= 1 { clarabel::verif::set_script(vec![("alpha".to_string(), k - 1, 0.05)]); }
        clarabel::verif::set_detail(1_000_000);
        clarabel::verif::start();
        solver.solve();
        clarabel::verif::set_script(vec![]);
        let evs = clarabel::verif::take();
        let v = solver.kktsystem.verif_kkt_view().expect("direct solver");
        let icones: Vec<ConeSpec> = solver.data.cones.iter().map(ConeSpec::from_clarabel).collect();
        let Pint = Csc::from_clarabel(&solver.data.P);
        let Aint = Csc::from_clarabel(&solver.data.A);
        let mut m = structure_fields(&v, &Pint, &Aint, &icones, true);
        let p_eq = v.map_P.iter().enumerate().all(|(i, &idx)| v.nzval[idx].to_bits() == solver.data.P.nzval[i].to_bits());
        let a_eq = v.map_A.iter().enumerate().all(|(i, &idx)| v.nzval[idx].to_bits() == solver.data.A.nzval[i].to_bits());
        let hs_eq = v.map_Hs.iter().enumerate().all(|(i, &idx)| v.nzval[idx].to_bits() == v.hsblocks[i].to_bits());
        let mut pdiag = vec![false; v.n];
        for j in 0..Pint.n { for kk in Pint.colptr[j]..Pint.colptr[j + 1] { if Pint.rowval[kk] == j { pdiag[j] = true; } } }
        let fill_zero = (0..v.n).all(|j| pdiag[j] || v.nzval[v.diag_full[j]] == 0.0);
        // (only meaningful once the KKT values have been written: in the loop, or at the default start of a symmetric problem)
        let n_updates = evs.iter().filter(|e| e.name == "KKTUpdate").count();
        let written = n_updates >= 1 || pk.is_symmetric();
        let soc_ok = !written || v.sparse.iter().all(|sm| sm.kind != "soc" || (v.nzval[sm.D[1]] > 0.0 && v.nzval[sm.D[0]] == -v.nzval[sm.D[1]]));
        let tail: Vec<i8> = v.dsigns[(v.n + v.m)..].to_vec();
        let exp_tail: Vec<i8> = v.sparse.iter().flat_map(|sm| sm.dsigns.clone()).collect();
        let maxdiag = v.diag_full.iter().map(|&i| v.nzval[i].abs()).fold(0.0f64, f64::max);
        let eps_obs = st.static_regularization_constant + st.static_regularization_proportional * maxdiag;
        // dense accessor into the (upper-triangular) KKT copy
        let dim = v.dim;
        let mut dd = vec![vec![0.0; dim]; dim];
        for j in 0..dim { for kk in v.colptr[j]..v.colptr[j + 1] { dd[v.rowval[kk]][j] = v.nzval[kk]; dd[j][v.rowval[kk]] = v.nzval[kk]; } }
        let dense = |a: usize, b: usize| dd[a][b];
        // iterate used by the last KKT update: LoopTop with iter = iterations - 1
        let iters = solver.solution.iterations;
        let mut hz = vec![];
        let updates = evs.iter().filter(|e| e.name == "KKTUpdate").count();
        if iters >= 1 && updates >= 1 && pk.is_symmetric() {
            if let Some(lt) = evs.iter().filter(|e| e.name == "LoopTop" && e.i[0] == (iters as i64 - 1)).last() {
                let (s, z) = (&lt.v[1], &lt.v[2]);
                let mut off = 0;
                let mut pcol = v.n + v.m;
                let mut sp = 0;
                for c in &icones {
                    let d = c.numel();
                    let rows: Vec<usize> = (0..d).map(|t| v.n + off + t).collect();
                    let sparse = matches!(c, ConeSpec::Soc(nn) if *nn > 4) || matches!(c, ConeSpec::GenPow(_, _));
                    let aux: Vec<usize> = if sparse { let na = v.sparse[sp].D.len(); let a = (pcol..pcol + na).collect(); pcol += na; sp += 1; a } else { vec![] };
                    if !matches!(c, ConeSpec::Zero(_)) {
                        let h = schur_block(&v, &dense, &rows, &aux);
                        // magnitude of the terms that cancel in the elimination (rounding scale of the observer's own arithmetic)
                        let absd = |a: usize, b: usize| dense(a, b).abs();
                        let mut r2 = 0.0;
                        let mut s2 = 0.0;
                        let mut c2 = 0.0;
                        for a in 0..d {
                            let hz_a: f64 = (0..d).map(|b| h[a][b] * z[off + b]).sum();
                            let mag_a: f64 = (0..d).map(|b| {
                                let mut t = absd(rows[a], rows[b]);
                                for &c in &aux { t += absd(rows[a], c) * absd(rows[b], c) / absd(c, c); }
                                t * z[off + b].abs()
                            }).sum();
                            r2 += (hz_a - s[off + a]).powi(2);
                            s2 += s[off + a].powi(2);
                            c2 += mag_a * mag_a;
                        }
                        hz.push(json!([fj(r2.sqrt()), fj(1e-4 * s2.sqrt() + 1e-10 * c2.sqrt() + 1e-300)]));
                    }
                    off += d;
                }
            }
        }
        // the operator the cones apply outside the KKT system (mul_Hs, column by column) against the block of the
        // KKT copy with the auxiliary variables eliminated: every cone type, both scaling strategies
        let mut hop = vec![];
        let scaling_current = !matches!(solver.solution.status, SolverStatus::NumericalError);
        if (updates >= 1 || pk.is_symmetric()) && scaling_current && v.m > 0 {
            let mcols: Vec<Vec<f64>> = (0..v.m).map(|t| { let mut e = vec![0.0; v.m]; e[t] = 1.0; clarabel::verif::cones_mul_hs(&mut solver.cones, &e) }).collect();
            let mut off = 0;
            let mut pcol = v.n + v.m;
            let mut sp = 0;
            for c in &icones {
                let d = c.numel();
                let rows: Vec<usize> = (0..d).map(|t| v.n + off + t).collect();
                let sparse = matches!(c, ConeSpec::Soc(nn) if *nn > 4) || matches!(c, ConeSpec::GenPow(_, _));
                let aux: Vec<usize> = if sparse { let na = v.sparse[sp].D.len(); let a = (pcol..pcol + na).collect(); pcol += na; sp += 1; a } else { vec![] };
                if !matches!(c, ConeSpec::Zero(_)) {
                    let h = schur_block(&v, &dense, &rows, &aux);
                    let absd = |a: usize, b: usize| dense(a, b).abs();
                    let (mut err, mut mx, mut canc) = (0.0f64, 0.0f64, 0.0f64);
                    for a in 0..d { for b in 0..d {
                        let hc = mcols[off + b][off + a];
                        let mut t = absd(rows[a], rows[b]);
                        for &cc in &aux { t += absd(rows[a], cc) * absd(rows[b], cc) / absd(cc, cc); }
                        err = err.max((h[a][b] - hc).abs());
                        mx = mx.max(hc.abs());
                        canc = canc.max(t);
                        if !(h[a][b] - hc).is_finite() { err = f64::INFINITY; }
                    } }
                    // entries outside the cone's own block must vanish (block diagonal operator)
                    let mut leak = 0.0f64;
                    for b in 0..d { for r in 0..v.m { if r < off || r >= off + d { leak = leak.max(mcols[off + b][r].abs()); } } }
                    hop.push(json!({"kind": c.tag(), "err": fj(err), "tol": fj(1e-9 * mx + 1e-10 * canc + 1e-300), "leak_zero": leak == 0.0}));
                }
                off += d;
            }
        }
        // at the default start of a symmetric problem (no loop update yet) every cone block is the identity scaling
        let mut identity_ok = true;
        if updates == 0 && pk.is_symmetric() {
            let mut off = 0;
            let mut pcol = v.n + v.m;
            let mut sp = 0;
            for c in &icones {
                let d = c.numel();
                let rows: Vec<usize> = (0..d).map(|t| v.n + off + t).collect();
                let sparse = matches!(c, ConeSpec::Soc(nn) if *nn > 4);
                let aux: Vec<usize> = if sparse { let na = v.sparse[sp].D.len(); let a = (pcol..pcol + na).collect(); pcol += na; sp += 1; a } else { vec![] };
                if !matches!(c, ConeSpec::Zero(_)) {
                    let h = schur_block(&v, &dense, &rows, &aux);
                    for a in 0..d { for b in 0..d {
                        let want = if a == b { 1.0 } else { 0.0 };
                        if (h[a][b] - want).abs() > 1e-12 { identity_ok = false; }
                    } }
                }
                off += d;
            }
        }
        // the LDL engine keeps its own (permuted) copy of the matrix: after a KKT update and refactorisation it is the KKT copy
        // entry for entry, plus the static regulariser (sign * eps) on the diagonal - nothing else, nothing stale
        let static_on = st.static_regularization_enable;
        let (ldl_known, ldl_sync) = match &v.ldl_values {
            Some(lv) if n_updates >= 1 && lv.len() == v.nzval.len() => {
                let mut is_diag = vec![usize::MAX; v.nzval.len()];
                for (i, &idx) in v.diag_full.iter().enumerate() { is_diag[idx] = i; }
                let eps = if static_on { v.diagonal_regularizer } else { 0.0 };
                let ok = (0..lv.len()).all(|k| {
                    let want = if is_diag[k] != usize::MAX { v.nzval[k] + (v.dsigns[is_diag[k]] as f64) * eps } else { v.nzval[k] };
                    lv[k].to_bits() == want.to_bits() || (lv[k] == 0.0 && want == 0.0)
                });
                (true, ok)
            }
            _ => (false, true),
        };
        for (kk, val) in [("ev", json!("KKTState")), ("identity_ok", json!(identity_ok)), ("ldl_known", json!(ldl_known)), ("ldl_sync", json!(ldl_sync)), ("id", json!(id)), ("p_bits_equal", json!(p_eq)), ("a_bits_equal", json!(a_eq)),
                         ("hs_bits_equal", json!(hs_eq)), ("fill_diag_zero", json!(fill_zero)), ("soc_aux_ok", json!(soc_ok)),
                         ("dsigns", json!(v.dsigns)), ("dsigns_tail", json!(tail)), ("expected_tail", json!(exp_tail)),
                         ("static_reg", json!(st.static_regularization_enable && updates >= 1)),
                         ("eps", fj(v.diagonal_regularizer)), ("eps_obs", fj(eps_obs)), ("hz", json!(hz)), ("hop", json!(hop)), ("iterations", json!(iters)),
                         ("updates", json!(updates)),
                         ("ldl_reg_known", json!(v.ldl_reg.is_some())), ("ldl_eps", fj(v.ldl_reg.map(|r| r.1).unwrap_or(0.0))), ("ldl_delta", fj(v.ldl_reg.map(|r| r.2).unwrap_or(0.0))),
                         ("set_eps", fj(st.dynamic_regularization_eps)), ("set_delta", fj(st.dynamic_regularization_delta))] {
            m.insert(kk.to_string(), val);
        }
        Value::Object(m)
    }));
    let _ = run_ipm as fn(usize, &Problem, &RunOpts) -> crate::rec_ipm::RunOut;
    match res { Ok(v) => v, Err(e) => json!({"ev": "Panic", "id": id, "msg": crate::rec_ipm::panic_msg(e)}) }
}

/// One direct solve of the solver's current KKT system through the hook, with the refinement log on.
fn solve_event(id: usize, sub: usize, solver: &mut DefaultSolver<f64>, rhsx: &[f64], rhsz: &[f64]) -> Value {
    use clarabel::verif;
    let st = solver.settings.clone();
    verif::set_refine_log(true);
    verif::start();
    let (ok, x, b) = solver.kktsystem.verif_solve(rhsx, rhsz, &st);
    let evs = verif::take();
    verif::set_refine_log(false);
    let v = solver.kktsystem.verif_kkt_view().expect("direct solver");
    let dim = v.dim;
    // observer: residual of the returned vector against the (unregularised) KKT copy, dense symmetric expansion
    let mut res = 0.0f64;
    let mut scale = 0.0f64;
    if x.len() == dim && b.len() == dim {
        let mut kx = vec![0.0f64; dim];
        let mut ax = vec![0.0f64; dim];
        for j in 0..dim { for kk in v.colptr[j]..v.colptr[j + 1] {
            let (i, val) = (v.rowval[kk], v.nzval[kk]);
            kx[i] += val * x[j]; ax[i] += (val * x[j]).abs();
            if i != j { kx[j] += val * x[i]; ax[j] += (val * x[i]).abs(); }
        } }
        for i in 0..dim { res = res.max((b[i] - kx[i]).abs()); scale = scale.max(ax[i] + b[i].abs()); }
    }
    let rho = 16.0 * (dim as f64 + 4.0) * f64::EPSILON * scale;
    let normb = b.iter().fold(0.0f64, |a, t| a.max(t.abs()));
    let start = evs.iter().find(|e| e.name == "RefineStart");
    let steps: Vec<Value> = evs.iter().filter(|e| e.name == "RefineIter").map(|e|
        json!({"swapped": e.i[0] != 0, "brk": e.i[1] != 0, "last": fj(e.f[0]), "norme": fj(e.f[1]), "ratio": fj(e.f[2])})).collect();
    let end_ok = evs.iter().find(|e| e.name == "RefineEnd").map(|e| e.i[0] != 0);
    let thr = st.iterative_refinement_abstol + st.iterative_refinement_reltol * normb;
    let thr_ok = match start { None => true, Some(s) => s.f[0].to_bits() == normb.to_bits() && s.f[2] == st.iterative_refinement_abstol
        && s.f[3] == st.iterative_refinement_reltol && s.f[4] == st.iterative_refinement_stop_ratio && s.i[0] == st.iterative_refinement_max_iter as i64 };
    json!({"ev": "KKTSolve", "id": id, "sub": sub, "ir_enabled": st.iterative_refinement_enable, "ok": ok, "has_start": start.is_some(),
           "maxiter": st.iterative_refinement_max_iter, "norme0": fj(start.map(|s| s.f[1]).unwrap_or(0.0)), "thr": fj(thr), "thr_ok": thr_ok,
           "stopratio": fj(st.iterative_refinement_stop_ratio), "steps": steps, "converged": evs.iter().any(|e| e.name == "RefineConverged"),
           "end_ok": end_ok.unwrap_or(ok), "has_end": end_ok.is_some(), "obs_lo": fj((res - rho).max(0.0)), "obs_hi": fj(res + rho),
           "x_finite": x.iter().all(|t| t.is_finite()), "dim": dim, "p": v.p, "normb": fj(normb)})
}

/// The factorisation is that of the regularised matrix K + eps * diag(recorded signs): with refinement switched off for
/// this one call the direct solve returns x0 = (K + eps S)^-1 b, so the residual against the unregularised copy must be
/// b - K x0 = eps * S x0, component by component.
fn reg_event(id: usize, solver: &mut DefaultSolver<f64>, rhsx: &[f64], rhsz: &[f64]) -> Option<Value> {
    let mut st = solver.settings.clone();
    // (only where the shift is large enough to stand out from the rounding of a factorisation whose (1,1) pivots may be
    //  as small as the shift itself: element growth ~ 1/eps)
    if !st.static_regularization_enable || st.static_regularization_constant < 1e-4 { return None; }
    st.iterative_refinement_enable = false;
    let (ok, x, b) = solver.kktsystem.verif_solve(rhsx, rhsz, &st);
    let v = solver.kktsystem.verif_kkt_view().expect("direct solver");
    let dim = v.dim;
    if !ok || x.len() != dim || !x.iter().all(|t| t.is_finite()) { return None; }
    let eps = v.diagonal_regularizer;
    let mut kx = vec![0.0f64; dim];
    let mut ax = vec![0.0f64; dim];
    for j in 0..dim { for kk in v.colptr[j]..v.colptr[j + 1] {
        let (i, val) = (v.rowval[kk], v.nzval[kk]);
        kx[i] += val * x[j]; ax[i] += (val * x[j]).abs();
        if i != j { kx[j] += val * x[i]; ax[j] += (val * x[i]).abs(); }
    } }
    let xmax = x.iter().fold(0.0f64, |a, t| a.max(t.abs()));
    let mut rows = vec![];
    for i in 0..dim {
        let r = b[i] - kx[i];
        let want = eps * (v.dsigns[i] as f64) * x[i];
        // rounding of the factorisation / substitutions (backward error relative to the largest entries) and of the observer
        let tol = 1e-3 * eps * x[i].abs() + 64.0 * (dim as f64) * f64::EPSILON * (ax[i] + b[i].abs() + xmax) * (1.0f64).max(1.0 / eps) + 1e-300;
        rows.push(json!([fj(r), fj(want - tol), fj(want + tol)]));
    }
    if std::env::var("VH_DEBUG_REG").is_ok() {
        eprintln!("x = {:?}\nb = {:?}\nr = {:?}\ndsigns = {:?}\nK = {:?} {:?} {:?}", x, b, (0..dim).map(|i| b[i] - kx[i]).collect::<Vec<_>>(), v.dsigns, v.colptr, v.rowval, v.nzval);
    }
    Some(json!({"ev": "KKTReg", "id": id, "eps": fj(eps), "rows": rows, "dim": dim}))
}

/// KKT solves on real solver states: refinement settings lattice x right-hand sides of several magnitudes
pub fn record_solves(seed: u64, count: usize) -> (Vec<Value>, Vec<Value>) {
    let mut rng = StdRng::seed_from_u64(seed ^ 0x50f7);
    let mut lines = vec![];
    let mut cases = vec![];
    for id in 0..count {
        let o = GenOpts { nmax: 6, max_cones: 3, soc_max: 7, psd_max: 3, allow_nonsym: id % 3 == 0, ..Default::default() };
        let mut p = gen::planted_feasible(&mut rng, &o);
        let mut s = serde_json::Map::new();
        s.insert("direct_solve_method".into(), json!("qdldl"));
        s.insert("iterative_refinement_enable".into(), json!(rng.gen::<f64>() < 0.85));
        s.insert("iterative_refinement_max_iter".into(), json!([0u32, 1, 2, 10, 10][rng.gen_range(0..5)]));
        s.insert("iterative_refinement_reltol".into(), json!([1e-13, 1e-10, 1e-30][rng.gen_range(0..3)]));
        s.insert("iterative_refinement_abstol".into(), json!([1e-12, 1e-30][rng.gen_range(0..2)]));
        s.insert("iterative_refinement_stop_ratio".into(), json!([1.0, 2.0, 5.0][rng.gen_range(0..3)]));
        // a large static regulariser makes the factors inexact, so that refinement has real work to do
        s.insert("static_regularization_constant".into(), json!([1e-8, 1e-4, 1e-2][rng.gen_range(0..3)]));
        if rng.gen::<f64>() < 0.2 { s.insert("static_regularization_enable".into(), json!(false)); }
        if rng.gen::<f64>() < 0.25 { s.insert("equilibrate_enable".into(), json!(false)); }
        let k = [0u32, 2, 5, 200][rng.gen_range(0..4)];
        s.insert("max_iter".into(), json!(k));
        p.settings = Value::Object(s);
        let rseed: u64 = rng.gen();
        lines.extend(solve_events_of(id, &p, rseed));
        cases.push(json!({"run": id, "problem": p, "rseed": rseed, "solves": true}));
    }
    (lines, cases)
}

pub fn solve_events_of(id: usize, p: &Problem, rseed: u64) -> Vec<Value> {
    let st = p.settings();
    let (P, A) = (p.P.to_clarabel(), p.A.to_clarabel());
    let res = catch_unwind(AssertUnwindSafe(|| {
        let mut rng = StdRng::seed_from_u64(rseed);
        let mut solver = DefaultSolver::new(&P, &p.q, &A, &p.b, &p.clarabel_cones(), st.clone());
        solver.solve();
        let (n, m) = (solver.data.n, solver.data.m);
        let mut out = vec![];
        // without a numeric factorisation (nonsymmetric problem stopped before its first KKT update) the solver
        // itself never solves: outside the contract
        if solver.solution.iterations == 0 && !p.is_symmetric() { return out; }
        for sub in 0..4usize {
            let mag = [1.0, 1e10, 1e-10, 1e300, 0.0][if sub == 0 { 0 } else { rng.gen_range(0..5) }];
            let rx: Vec<f64> = (0..n).map(|_| (rng.gen::<f64>() - 0.5) * mag).collect();
            let rz: Vec<f64> = (0..m).map(|_| (rng.gen::<f64>() - 0.5) * mag).collect();
            out.push(solve_event(id, sub, &mut solver, &rx, &rz));
            if sub == 0 && solver.solution.iterations <= 5 { if let Some(e) = reg_event(id, &mut solver, &rx, &rz) { out.push(e); } }
        }
        out
    }));
    match res { Ok(v) => v, Err(e) => vec![json!({"ev": "Panic", "id": id, "msg": crate::rec_ipm::panic_msg(e)})] }
}

pub fn record_states(seed: u64, count: usize) -> (Vec<Value>, Vec<Value>) {
    let mut rng = StdRng::seed_from_u64(seed);
    let mut lines = vec![];
    let mut cases = vec![];
    for id in 0..count {
        let o = GenOpts { nmax: 5, max_cones: 3, soc_max: 7, psd_max: 3, allow_nonsym: id % 3 == 0, ..Default::default() };
        let mut p = gen::planted_feasible(&mut rng, &o);
        let mut s = serde_json::Map::new();
        if rng.gen::<f64>() < 0.25 { s.insert("static_regularization_enable".into(), json!(false)); }
        if rng.gen::<f64>() < 0.25 { s.insert("iterative_refinement_enable".into(), json!(false)); }
        if rng.gen::<f64>() < 0.25 { s.insert("equilibrate_enable".into(), json!(false)); }
        // second-order cones whose rows are tiny (no equilibration): slack << multiplier, so the scaling has eta^2 far below
        // 1e-8 - the regime in which a floor or a regulariser on one side of the expansion would show
        if rng.gen::<f64>() < 0.2 && p.cones.iter().any(|c| matches!(c, ConeSpec::Soc(d) if *d > 4)) {
            let f = [1e-5, 1e-6, 1e-7][rng.gen_range(0..3)];
            let mut a = p.A.to_dense();
            let mut off = 0;
            for c in &p.cones {
                let d = c.numel();
                if matches!(c, ConeSpec::Soc(dd) if *dd > 4) { for i in off..off + d { for v in a[i].iter_mut() { *v *= f; } p.b[i] *= f; } }
                off += d;
            }
            p.A = Csc::from_dense(&a, p.m(), p.n());
            s.insert("equilibrate_enable".into(), json!(false));
            p.tag.push_str("+tinysoc");
        }
        if rng.gen::<f64>() < 0.12 { p.tag.push_str("+failed"); }
        if !p.is_symmetric() && rng.gen::<f64>() < 0.4 { p.tag.push_str("+switch"); }
        p.settings = Value::Object(s);
        let mut k = [0u32, 1, 2, 3, 5, 8, 200][rng.gen_range(0..7)];
        // (tiny cones are looked at on the way, not at convergence: there the slack of an active cone is ~1e-30 and the rank-two
        //  expansion cancels to nothing in double precision - no statement about its entries survives)
        if p.tag.contains("+tinysoc") && k > 8 { k = 8; }
        let first = if rng.gen::<f64>() < 0.4 { Some([1u32, 3, 200][rng.gen_range(0..3)]) } else { None };
        lines.push(state_event_hist(id, &p, k, first));
        cases.push(json!({"run": id, "problem": p, "k": k, "first": first}));
    }
    (lines, cases)
}
