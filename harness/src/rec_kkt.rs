//! impl -> spec recorder for KKT.tla (C11): structural layouts through the assembly wrapper (both
//! triangles) and value-layer states read from real solvers after real KKT updates.
#![allow(non_snake_case)]
use crate::fenc::*;
use crate::gen::{self, GenOpts};
use crate::problem::*;
use crate::rec_ipm::{run_ipm, RunOpts};
use clarabel::solver::*;
use clarabel::verif::KKTView;
use rand::rngs::StdRng;
use rand::{Rng, SeedableRng};
use serde_json::{json, Value};
use std::panic::{catch_unwind, AssertUnwindSafe};

fn cone_layout(cones: &[ConeSpec]) -> (Vec<Value>, Vec<usize>) {
    // returns cone records and, for each sparse-expandable cone in order, its 1-based cone index
    let mut out = vec![];
    let mut sparse_idx = vec![];
    let mut off = 0;
    for (k, c) in cones.iter().enumerate() {
        let d = c.numel();
        let (diag, sparse) = match c {
            ConeSpec::Zero(_) | ConeSpec::Nonneg(_) => (true, false),
            ConeSpec::Soc(n) => (*n > 4, *n > 4),
            ConeSpec::GenPow(_, _) => (true, true),
            _ => (false, false),
        };
        // the Hs block of a PSD cone has dimension numel x numel (svec space)
        out.push(json!({"kind": c.tag(), "lo": off, "hi": off + d - 1, "diag": diag}));
        if sparse { sparse_idx.push(k + 1); }
        off += d;
    }
    (out, sparse_idx)
}

fn structure_fields(v: &KKTView, P: &Csc, A: &Csc, cones: &[ConeSpec], triu: bool) -> serde_json::Map<String, Value> {
    let (layout, sparse_idx) = cone_layout(cones);
    let mut pi = vec![]; let mut pj = vec![];
    for j in 0..P.n { for k in P.colptr[j]..P.colptr[j + 1] { pi.push(P.rowval[k]); pj.push(j); } }
    let mut ar = vec![]; let mut ac = vec![];
    for j in 0..A.n { for k in A.colptr[j]..A.colptr[j + 1] { ar.push(A.rowval[k]); ac.push(j); } }
    let sparse: Vec<Value> = v.sparse.iter().enumerate().map(|(s, sm)| json!({"cone": sparse_idx.get(s).copied().unwrap_or(0), "kind": sm.kind,
        "vecs": sm.vecs, "D": sm.D, "dsigns": sm.dsigns})).collect();
    let mut m = serde_json::Map::new();
    for (k, val) in [("triu", json!(triu)), ("n", json!(v.n)), ("m", json!(v.m)), ("p", json!(v.p)), ("dim", json!(v.dim)),
                     ("colptr", json!(v.colptr)), ("rowval", json!(v.rowval)), ("map_P", json!(v.map_P)), ("map_A", json!(v.map_A)),
                     ("map_Hs", json!(v.map_Hs)), ("diagP", json!(v.diagP)), ("diag_full", json!(v.diag_full)), ("sparse", json!(sparse)),
                     ("Pi", json!(pi)), ("Pj", json!(pj)), ("Ar", json!(ar)), ("Ac", json!(ac)), ("cones", json!(layout))] {
        m.insert(k.to_string(), val);
    }
    m
}

pub fn assembled_event(id: usize, P: &Csc, A: &Csc, cones: &[ConeSpec], triu: bool) -> Value {
    let cc: Vec<_> = cones.iter().map(|c| c.to_clarabel()).collect();
    let (Pc, Ac) = (P.to_clarabel(), A.to_clarabel());
    match catch_unwind(AssertUnwindSafe(|| clarabel::verif::assemble_kkt(&Pc, &Ac, &cc, triu))) {
        Ok(v) => {
            let mut m = structure_fields(&v, P, A, cones, triu);
            m.insert("ev".into(), json!("Assembled"));
            m.insert("id".into(), json!(id));
            Value::Object(m)
        }
        Err(e) => json!({"ev": "Panic", "id": id, "msg": crate::rec_ipm::panic_msg(e), "cones": format!("{:?}", cones)}),
    }
}

fn cone_lists() -> Vec<Vec<ConeSpec>> {
    use ConeSpec::*;
    vec![
        vec![], vec![Nonneg(2)], vec![Zero(1), Nonneg(1)], vec![Soc(3)], vec![Soc(5)], vec![Nonneg(1), Soc(6), Zero(1)],
        vec![Soc(5), Soc(3), Soc(5)], vec![Exp], vec![Pow(0.5), Nonneg(1)], vec![GenPow(vec![0.5, 0.5], 1)],
        vec![GenPow(vec![0.25, 0.25, 0.5], 2), Soc(5)], vec![Psd(2)], vec![Nonneg(1), Psd(2), Exp], vec![Soc(2), GenPow(vec![0.3, 0.7], 1), Psd(2)],
    ]
}

fn pattern(rng: &mut StdRng, m: usize, n: usize, mask: Option<u64>, density: f64, triu_only: bool) -> Csc {
    let mut d = vec![vec![0.0; n]; m];
    let mut bit = 0;
    for j in 0..n { for i in 0..m {
        if triu_only && i > j { continue; }
        let on = match mask { Some(mk) => mk >> bit & 1 == 1, None => rng.gen::<f64>() < density };
        bit += 1;
        if on { d[i][j] = 1.0 + (i + 2 * j) as f64; }
    } }
    Csc::from_dense(&d, m, n)
}

pub fn record_structure(seed: u64, thorough: bool) -> Vec<Value> {
    let mut rng = StdRng::seed_from_u64(seed);
    let mut out = vec![];
    let mut id = 0;
    let lists = cone_lists();
    for cones in &lists {
        let m: usize = cones.iter().map(|c| c.numel()).sum();
        for n in 1..=3usize {
            let np = n * (n + 1) / 2;
            for pmask in 0..(1u64 << np) {
                // A patterns: exhaustive when small, sampled otherwise
                let cells = m * n;
                let amasks: Vec<Option<u64>> = if cells <= 6 && thorough { (0..(1u64 << cells)).map(Some).collect() }
                    else { (0..if thorough { 6 } else { 1 }).map(|_| None).collect() };
                for am in amasks {
                    if !thorough && rng.gen::<f64>() > 0.35 { continue; }
                    let P = pattern(&mut rng, n, n, Some(pmask), 0.0, true);
                    let A = pattern(&mut rng, m, n, am, 0.5, false);
                    for triu in [true, false] {
                        out.push(assembled_event(id, &P, &A, cones, triu));
                        id += 1;
                    }
                }
            }
        }
    }
    out
}

fn schur_block(v: &KKTView, dense: &dyn Fn(usize, usize) -> f64, rows: &[usize], aux: &[usize]) -> Vec<Vec<f64>> {
    // H = -(K_RR - K_RC K_CC^-1 K_CR), K_CC diagonal
    let d = rows.len();
    let mut h = vec![vec![0.0; d]; d];
    for (a, &ra) in rows.iter().enumerate() { for (b, &rb) in rows.iter().enumerate() {
        let mut val = dense(ra, rb);
        for &c in aux { val -= dense(ra, c) * dense(rb, c) / dense(c, c); }
        h[a][b] = -val;
    } }
    let _ = v;
    h
}

pub fn state_event(id: usize, p: &Problem, k: u32) -> Value {
    state_event_hist(id, p, k, None)
}

/// `first`: an earlier solve on the same object with that budget (history), before the solve with budget k
pub fn state_event_hist(id: usize, p: &Problem, k: u32, first: Option<u32>) -> Value {
    let mut pk = p.clone();
    if !pk.settings.is_object() { pk.settings = json!({}); }
    pk.settings["max_iter"] = json!(k);
    pk.settings["direct_solve_method"] = json!("qdldl");
    pk.settings["presolve_enable"] = json!(false);
    pk.settings["chordal_decomposition_enable"] = json!(false);
    let st = pk.settings();
    let (P, A) = (pk.P.to_clarabel(), pk.A.to_clarabel());
    let res = catch_unwind(AssertUnwindSafe(|| {
        let mut solver = DefaultSolver::new(&P, &pk.q, &A, &pk.b, &pk.clarabel_cones(), st.clone());
        if let Some(k1) = first {
            solver.settings.max_iter = k1;
            solver.solve();
            solver.settings.max_iter = k;
        }
        clarabel::verif::set_detail(1_000_000);
        clarabel::verif::start();
        solver.solve();
        let evs = clarabel::verif::take();
        let v = solver.kktsystem.verif_kkt_view().expect("direct solver");
        let icones: Vec<ConeSpec> = solver.data.cones.iter().map(ConeSpec::from_clarabel).collect();
        let Pint = Csc::from_clarabel(&solver.data.P);
        let Aint = Csc::from_clarabel(&solver.data.A);
        let mut m = structure_fields(&v, &Pint, &Aint, &icones, true);
        let p_eq = v.map_P.iter().enumerate().all(|(i, &idx)| v.nzval[idx].to_bits() == solver.data.P.nzval[i].to_bits());
        let a_eq = v.map_A.iter().enumerate().all(|(i, &idx)| v.nzval[idx].to_bits() == solver.data.A.nzval[i].to_bits());
        let hs_eq = v.map_Hs.iter().enumerate().all(|(i, &idx)| v.nzval[idx].to_bits() == v.hsblocks[i].to_bits());
        let mut pdiag = vec![false; v.n];
        for j in 0..Pint.n { for kk in Pint.colptr[j]..Pint.colptr[j + 1] { if Pint.rowval[kk] == j { pdiag[j] = true; } } }
        let fill_zero = (0..v.n).all(|j| pdiag[j] || v.nzval[v.diag_full[j]] == 0.0);
        // (only meaningful once the KKT values have been written: in the loop, or at the default start of a symmetric problem)
        let n_updates = evs.iter().filter(|e| e.name == "KKTUpdate").count();
        let written = n_updates >= 1 || pk.is_symmetric();
        let soc_ok = !written || v.sparse.iter().all(|sm| sm.kind != "soc" || (v.nzval[sm.D[1]] > 0.0 && v.nzval[sm.D[0]] == -v.nzval[sm.D[1]]));
        let tail: Vec<i8> = v.dsigns[(v.n + v.m)..].to_vec();
        let exp_tail: Vec<i8> = v.sparse.iter().flat_map(|sm| sm.dsigns.clone()).collect();
        let maxdiag = v.diag_full.iter().map(|&i| v.nzval[i].abs()).fold(0.0f64, f64::max);
        let eps_obs = st.static_regularization_constant + st.static_regularization_proportional * maxdiag;
        // dense accessor into the (upper-triangular) KKT copy
        let dim = v.dim;
        let mut dd = vec![vec![0.0; dim]; dim];
        for j in 0..dim { for kk in v.colptr[j]..v.colptr[j + 1] { dd[v.rowval[kk]][j] = v.nzval[kk]; dd[j][v.rowval[kk]] = v.nzval[kk]; } }
        let dense = |a: usize, b: usize| dd[a][b];
        // iterate used by the last KKT update: LoopTop with iter = iterations - 1
        let iters = solver.solution.iterations;
        let mut hz = vec![];
        let updates = evs.iter().filter(|e| e.name == "KKTUpdate").count();
        if iters >= 1 && updates >= 1 && pk.is_symmetric() {
            if let Some(lt) = evs.iter().filter(|e| e.name == "LoopTop" && e.i[0] == (iters as i64 - 1)).last() {
                let (s, z) = (&lt.v[1], &lt.v[2]);
                let mut off = 0;
                let mut pcol = v.n + v.m;
                let mut sp = 0;
                for c in &icones {
                    let d = c.numel();
                    let rows: Vec<usize> = (0..d).map(|t| v.n + off + t).collect();
                    let sparse = matches!(c, ConeSpec::Soc(nn) if *nn > 4) || matches!(c, ConeSpec::GenPow(_, _));
                    let aux: Vec<usize> = if sparse { let na = v.sparse[sp].D.len(); let a = (pcol..pcol + na).collect(); pcol += na; sp += 1; a } else { vec![] };
                    if !matches!(c, ConeSpec::Zero(_)) {
                        let h = schur_block(&v, &dense, &rows, &aux);
                        // magnitude of the terms that cancel in the elimination (rounding scale of the observer's own arithmetic)
                        let absd = |a: usize, b: usize| dense(a, b).abs();
                        let mut r2 = 0.0;
                        let mut s2 = 0.0;
                        let mut c2 = 0.0;
                        for a in 0..d {
                            let hz_a: f64 = (0..d).map(|b| h[a][b] * z[off + b]).sum();
                            let mag_a: f64 = (0..d).map(|b| {
                                let mut t = absd(rows[a], rows[b]);
                                for &c in &aux { t += absd(rows[a], c) * absd(rows[b], c) / absd(c, c); }
                                t * z[off + b].abs()
                            }).sum();
                            r2 += (hz_a - s[off + a]).powi(2);
                            s2 += s[off + a].powi(2);
                            c2 += mag_a * mag_a;
                        }
                        hz.push(json!([fj(r2.sqrt()), fj(1e-4 * s2.sqrt() + 1e-10 * c2.sqrt() + 1e-300)]));
                    }
                    off += d;
                }
            }
        }
        // at the default start of a symmetric problem (no loop update yet) every cone block is the identity scaling
        let mut identity_ok = true;
        if updates == 0 && pk.is_symmetric() {
            let mut off = 0;
            let mut pcol = v.n + v.m;
            let mut sp = 0;
            for c in &icones {
                let d = c.numel();
                let rows: Vec<usize> = (0..d).map(|t| v.n + off + t).collect();
                let sparse = matches!(c, ConeSpec::Soc(nn) if *nn > 4);
                let aux: Vec<usize> = if sparse { let na = v.sparse[sp].D.len(); let a = (pcol..pcol + na).collect(); pcol += na; sp += 1; a } else { vec![] };
                if !matches!(c, ConeSpec::Zero(_)) {
                    let h = schur_block(&v, &dense, &rows, &aux);
                    for a in 0..d { for b in 0..d {
                        let want = if a == b { 1.0 } else { 0.0 };
                        if (h[a][b] - want).abs() > 1e-12 { identity_ok = false; }
                    } }
                }
                off += d;
            }
        }
        for (kk, val) in [("ev", json!("KKTState")), ("identity_ok", json!(identity_ok)), ("id", json!(id)), ("p_bits_equal", json!(p_eq)), ("a_bits_equal", json!(a_eq)),
                         ("hs_bits_equal", json!(hs_eq)), ("fill_diag_zero", json!(fill_zero)), ("soc_aux_ok", json!(soc_ok)),
                         ("dsigns", json!(v.dsigns)), ("dsigns_tail", json!(tail)), ("expected_tail", json!(exp_tail)),
                         ("static_reg", json!(st.static_regularization_enable && updates >= 1)),
                         ("eps", fj(v.diagonal_regularizer)), ("eps_obs", fj(eps_obs)), ("hz", json!(hz)), ("iterations", json!(iters)),
                         ("updates", json!(updates))] {
            m.insert(kk.to_string(), val);
        }
        Value::Object(m)
    }));
    let _ = run_ipm as fn(usize, &Problem, &RunOpts) -> crate::rec_ipm::RunOut;
    match res { Ok(v) => v, Err(e) => json!({"ev": "Panic", "id": id, "msg": crate::rec_ipm::panic_msg(e)}) }
}

pub fn record_states(seed: u64, count: usize) -> (Vec<Value>, Vec<Value>) {
    let mut rng = StdRng::seed_from_u64(seed);
    let mut lines = vec![];
    let mut cases = vec![];
    for id in 0..count {
        let o = GenOpts { nmax: 5, max_cones: 3, soc_max: 7, psd_max: 3, allow_nonsym: id % 3 == 0, ..Default::default() };
        let mut p = gen::planted_feasible(&mut rng, &o);
        let mut s = serde_json::Map::new();
        if rng.gen::<f64>() < 0.25 { s.insert("static_regularization_enable".into(), json!(false)); }
        if rng.gen::<f64>() < 0.25 { s.insert("iterative_refinement_enable".into(), json!(false)); }
        if rng.gen::<f64>() < 0.25 { s.insert("equilibrate_enable".into(), json!(false)); }
        p.settings = Value::Object(s);
        let k = [0u32, 1, 2, 3, 5, 8, 200][rng.gen_range(0..7)];
        let first = if rng.gen::<f64>() < 0.4 { Some([1u32, 3, 200][rng.gen_range(0..3)]) } else { None };
        lines.push(state_event_hist(id, &p, k, first));
        cases.push(json!({"run": id, "problem": p, "k": k, "first": first}));
    }
    (lines, cases)
}
