//! impl -> spec recorder for ConeBarrier.tla (C14): barrier calculus of the nonsymmetric cones.  The real cone objects are
//! evaluated through one hook at generated interior pairs (s, z); the observer differentiates the cone's OWN barrier values
//! and gradients numerically (central differences) and forms <<error, tolerance>> pairs; TLC decides.
use crate::fenc::*;
use crate::gen;
use crate::observer;
use crate::problem::*;
use clarabel::verif::{self, NonsymBattery};
use rand::rngs::StdRng;
use rand::{Rng, SeedableRng};
use serde_json::{json, Value};
use std::panic::{catch_unwind, AssertUnwindSafe};

fn dot(a: &[f64], b: &[f64]) -> f64 { a.iter().zip(b).map(|(x, y)| x * y).sum() }
fn norm(a: &[f64]) -> f64 { dot(a, a).sqrt() }
fn dist(a: &[f64], b: &[f64]) -> f64 { if a.len() != b.len() || a.is_empty() { return f64::INFINITY; } a.iter().zip(b).map(|(x, y)| (x - y) * (x - y)).sum::<f64>().sqrt() }
fn fro(m: &[Vec<f64>]) -> f64 { m.iter().map(|r| dot(r, r)).sum::<f64>().sqrt() }
fn matvec(m: &[Vec<f64>], v: &[f64]) -> Vec<f64> { m.iter().map(|r| dot(r, v)).collect() }

/// solve M u = b by Gaussian elimination with partial pivoting (M small)
fn solve(m: &[Vec<f64>], b: &[f64]) -> Vec<f64> {
    let n = b.len();
    let mut a: Vec<Vec<f64>> = (0..n).map(|i| { let mut r = m[i].clone(); r.push(b[i]); r }).collect();
    for k in 0..n {
        let p = (k..n).max_by(|&i, &j| a[i][k].abs().partial_cmp(&a[j][k].abs()).unwrap()).unwrap();
        a.swap(k, p);
        for i in k + 1..n { let f = a[i][k] / a[k][k]; for j in k..=n { a[i][j] -= f * a[k][j]; } }
    }
    let mut u = vec![0.0; n];
    for k in (0..n).rev() { u[k] = (a[k][n] - (k + 1..n).map(|j| a[k][j] * u[j]).sum::<f64>()) / a[k][k]; }
    u
}

/// Cholesky succeeds <=> symmetric positive definite
fn is_pd(m: &[Vec<f64>]) -> bool {
    let n = m.len();
    let mut l = vec![vec![0.0; n]; n];
    for i in 0..n { for j in 0..=i {
        let s: f64 = (0..j).map(|k| l[i][k] * l[j][k]).sum();
        if i == j { let d = m[i][i] - s; if !(d > 0.0) { return false; } l[i][j] = d.sqrt(); } else { l[i][j] = (m[i][j] - s) / l[j][j]; }
    } }
    true
}

fn bat(c: &ConeSpec, s: &[f64], z: &[f64], ds: &[f64], dz: &[f64], mu: f64) -> Option<NonsymBattery> {
    let cc = c.to_clarabel();
    catch_unwind(AssertUnwindSafe(|| verif::nonsym_cone_battery(&cc, s, z, ds, dz, mu))).ok()
}

pub fn event(id: usize, c: &ConeSpec, s: &[f64], z: &[f64], ds: &[f64], dz: &[f64], family: &str) -> Value {
    let n = s.len();
    let degree = match c { ConeSpec::GenPow(al, _) => al.len() + 1, _ => 3 } as f64;
    let mu = dot(s, z) / degree;
    let b0 = match bat(c, s, z, ds, dz, mu) { Some(b) => b, None => return json!({"ev": "Panic", "id": id, "run": id, "cone": c.tag()}) };
    let mut ids = serde_json::Map::new();
    let mut pd_mode = "none";
    let mut put = |name: &str, err: f64, tol: f64| { ids.insert(name.into(), json!([fj(err), fj(tol + 1e-300)])); };
    let three_d = !matches!(c, ConeSpec::GenPow(_, _));
    if b0.primal_feasible && b0.dual_feasible && b0.scaled_dual_ok {
        let zs = norm(z);
        let h = 1e-6 * zs;
        // gradient of the dual barrier = central differences of the cone's own barrier value
        let mut gfd = vec![0.0; n];
        let mut hfd = vec![vec![0.0; n]; n];
        let mut fd_ok = true;
        for i in 0..n {
            let (mut zp, mut zm) = (z.to_vec(), z.to_vec());
            zp[i] += h; zm[i] -= h;
            match (bat(c, s, &zp, ds, dz, mu), bat(c, s, &zm, ds, dz, mu)) {
                (Some(p), Some(m)) if p.dual_feasible && m.dual_feasible && !p.grad_dual.is_empty() && !m.grad_dual.is_empty() => {
                    gfd[i] = (p.barrier_dual - m.barrier_dual) / (2.0 * h);
                    for j in 0..n { hfd[j][i] = (p.grad_dual[j] - m.grad_dual[j]) / (2.0 * h); }
                }
                _ => fd_ok = false,
            }
        }
        let hn = fro(&b0.h_dual);
        if fd_ok && family != "near_boundary_dual" {
            put("grad_is_derivative", dist(&b0.grad_dual, &gfd), 1e-5 * (norm(&b0.grad_dual) + 1.0 / zs));
            let mut e2 = 0.0; for i in 0..n { for j in 0..n { e2 += (b0.h_dual[i][j] - hfd[i][j]).powi(2); } }
            put("hessian_is_derivative", e2.sqrt(), 1e-5 * hn);
        }
        let mut asym = 0.0f64; for i in 0..n { for j in 0..n { asym = asym.max((b0.h_dual[i][j] - b0.h_dual[j][i]).abs()); } }
        put("hessian_symmetric", asym, 1e-12 * hn);
        // logarithmic homogeneity of a nu-barrier: <g(z), z> = -nu,  H(z) z = -g(z)
        // (rounding in zeta = (dual cone's defining difference) is amplified by 1 / (relative distance of z to the boundary))
        let zm = observer::margin(c, z, true).max(1e-12);
        let alg = 1e-9 + 1e-13 / zm;
        put("grad_dot_z", (dot(&b0.grad_dual, z) + degree).abs(), alg * degree);
        let hz = matvec(&b0.h_dual, z);
        put("hess_z_is_minus_grad", dist(&hz, &b0.grad_dual.iter().map(|v| -v).collect::<Vec<_>>()), alg * norm(&b0.grad_dual));
        {
            // primal gradient: derivative of the primal barrier, and the conjugate map  g*(-g(s)) = -s
            let ss = norm(s);
            let hs = 1e-6 * ss;
            let mut gp = vec![0.0; n];
            let mut ok = true;
            for i in 0..n {
                let (mut sp, mut sm) = (s.to_vec(), s.to_vec());
                sp[i] += hs; sm[i] -= hs;
                match (bat(c, &sp, z, ds, dz, mu), bat(c, &sm, z, ds, dz, mu)) {
                    (Some(p), Some(m)) if p.primal_feasible && m.primal_feasible => gp[i] = (p.barrier_primal - m.barrier_primal) / (2.0 * hs),
                    _ => ok = false,
                }
            }
            // (next to the boundary a finite-difference stencil of this width is not inside the region where it means anything)
            if ok && family != "near_boundary" { put("primal_grad_is_derivative", dist(&b0.grad_primal, &gp), 1e-5 * (norm(&b0.grad_primal) + 1.0 / ss)); }
            let zt: Vec<f64> = b0.grad_primal.iter().map(|v| -v).collect();
            if let Some(b1) = bat(c, s, &zt, ds, dz, mu) {
                if b1.dual_feasible && !b1.grad_dual.is_empty() {
                    put("conjugate_map", dist(&b1.grad_dual, &s.iter().map(|v| -v).collect::<Vec<_>>()), 1e-6 * ss);
                    // the primal barrier is the Legendre conjugate of the dual barrier:  f(s) + f*(-g(s)) + nu = 0
                    // (the value the cone reports for f(s), not only its derivative; margins as for the algebraic laws)
                    let sm = observer::margin(c, s, false).max(1e-12);
                    put("primal_barrier_is_conjugate", (b0.barrier_primal + b1.barrier_dual + degree).abs(),
                        (1e-8 + 1e-12 / sm) * (b0.barrier_primal.abs() + b1.barrier_dual.abs() + degree));
                } else { put("conjugate_map", f64::INFINITY, 0.0); put("primal_barrier_is_conjugate", f64::INFINITY, 0.0); }
            }
        }
        if three_d {
            let ss = norm(s); let _ = ss;
            // third-order correction: eta = 1/2 * D^3 f*(z)[dz, H^-1 ds]  (central difference of the Hessian along dz)
            let hd = 1e-5 * zs / norm(dz).max(1e-300);
            let (zp, zm): (Vec<f64>, Vec<f64>) = ((0..n).map(|i| z[i] + hd * dz[i]).collect(), (0..n).map(|i| z[i] - hd * dz[i]).collect());
            if let (Some(p), Some(m)) = (bat(c, s, &zp, ds, dz, mu), bat(c, s, &zm, ds, dz, mu)) {
                if p.dual_feasible && m.dual_feasible && !p.h_dual.is_empty() && !m.h_dual.is_empty() && family != "near_boundary_dual" {
                    let u = solve(&b0.h_dual, ds);
                    let t: Vec<f64> = (0..n).map(|i| (0..n).map(|j| (p.h_dual[i][j] - m.h_dual[i][j]) / (2.0 * hd) * u[j]).sum::<f64>()).collect();
                    let want: Vec<f64> = t.iter().map(|v| 0.5 * v).collect();
                    // (both sides solve with H: their rounding differs by cond(H) * eps)
                    let hinv: Vec<Vec<f64>> = (0..n).map(|i| { let mut e = vec![0.0; n]; e[i] = 1.0; solve(&b0.h_dual, &e) }).collect();
                    let cond = hn * fro(&hinv);
                    put("third_order", dist(&b0.eta, &want), (1e-4 + 1e-13 * cond) * (norm(&want) + norm(&b0.eta)) + 1e-9 * hn * norm(&u)
                        + 1e-14 * norm(&b0.grad_dual));      // (the hook reads eta as a difference of two shifts of the size of the gradient)
                }
            }
        } else {
            put("no_third_order", norm(&b0.eta), 0.0);
        }
        // scaling matrix under the primal-dual strategy: symmetric positive definite; either the secant equations
        // Hs z = s and Hs z~ = s~ (shadow points z~ = -g(s), s~ = -g*(z)) hold, or it is the fallback mu * H
        if b0.scaled_pd_ok && !b0.hs_pd.is_empty() {
            let hsn = fro(&b0.hs_pd);
            let mut asym = 0.0f64; for i in 0..n { for j in 0..n { asym = asym.max((b0.hs_pd[i][j] - b0.hs_pd[j][i]).abs()); } }
            put("scaling_symmetric", asym, 1e-10 * hsn);
            put("scaling_positive_definite", if is_pd(&b0.hs_pd) { 0.0 } else { 1.0 }, 0.5);
            let mut fb = 0.0; for i in 0..n { for j in 0..n { fb += (b0.hs_pd[i][j] - mu * b0.h_dual[i][j]).powi(2); } }
            let fallback = fb.sqrt() <= 1e-9 * hsn;
            let sec1 = dist(&matvec(&b0.hs_pd, z), s);
            let sec2 = if !b0.grad_primal.is_empty() {
                let zt: Vec<f64> = b0.grad_primal.iter().map(|v| -v).collect();
                let st: Vec<f64> = b0.grad_dual.iter().map(|v| -v).collect();
                dist(&matvec(&b0.hs_pd, &zt), &st) / norm(&st).max(1e-300)
            } else { f64::INFINITY };
            let secant = sec1 <= 1e-7 * norm(s) && sec2 <= 1e-6;
            put("scaling_secant_or_fallback", if secant || fallback { 0.0 } else { 1.0 }, 0.5);
            pd_mode = if fallback { "fallback" } else if secant { "secant" } else { "neither" };
            if !three_d { put("genpow_uses_dual_scaling", if fallback { 0.0 } else { 1.0 }, 0.5); }
        } else { put("scaling_symmetric", f64::INFINITY, 0.0); }
    }
    // the starting point is the central point with mu = 1:  s = -g*(z),  <s, z> = nu
    if let Some(bu) = bat(c, &b0.unit_s, &b0.unit_z, ds, dz, 1.0) {
        if bu.primal_feasible && bu.dual_feasible && !bu.grad_dual.is_empty() {
            put("start_is_central", dist(&b0.unit_s, &bu.grad_dual.iter().map(|v| -v).collect::<Vec<_>>()), 1e-7 * norm(&b0.unit_s)); // (the exponential cone's start is a ten-digit constant)
            // (mu is formed with the barrier parameter the cone itself reports; that parameter is 3, or the number of exponents + 1)
            put("start_mu_is_one", (dot(&b0.unit_s, &b0.unit_z) / (b0.degree as f64) - 1.0).abs(), 1e-9);
            put("degree_is_barrier_parameter", (b0.degree as f64 - degree).abs(), 0.5);
        } else { put("start_is_central", f64::INFINITY, 0.0); }
    }
    json!({"ev": "NonsymCone", "id": id, "run": id, "cone": c.tag(), "cone_spec": serde_json::to_value(c).unwrap(), "three_d": three_d,
           "family": family, "interior_accepted": b0.primal_feasible && b0.dual_feasible, "scaled_ok": b0.scaled_dual_ok, "pd_mode": pd_mode, "ids": Value::Object(ids),
           "s": s, "z": z, "ds": ds, "dz": dz})
}

/// membership predicates against the observer's definition of the cones, on points well inside / well outside
pub fn membership_event(id: usize, c: &ConeSpec, v: &[f64]) -> Value {
    let b = bat(c, v, v, v, v, 1.0);
    let (mp, md) = (observer::margin(c, v, false), observer::margin(c, v, true));
    match b {
        None => json!({"ev": "Panic", "id": id, "run": id, "cone": c.tag()}),
        Some(b) => json!({"ev": "Membership", "id": id, "run": id, "cone": c.tag(), "cone_spec": serde_json::to_value(c).unwrap(), "v": v,
                          "primal_code": b.primal_feasible, "dual_code": b.dual_feasible,
                          "primal_clear": mp.abs() > 1e-6, "primal_obs": mp > 0.0, "dual_clear": md.abs() > 1e-6, "dual_obs": md > 0.0}),
    }
}

/// membership on an integer lattice with rational exponents p_i / q: the spec decides the cone definitions in exact integer
/// arithmetic (s1^p1 ... >= |s3|^q etc.); points exactly on the boundary may be answered either way
pub fn lattice_events(id0: usize, rng: &mut StdRng, count: usize) -> Vec<Value> {
    let mut out = vec![];
    let pow_exps: [(i64, i64); 5] = [(1, 2), (1, 4), (3, 4), (1, 3), (2, 3)];
    let gp_exps: [&[i64]; 4] = [&[1, 3], &[2, 2], &[1, 1, 2], &[3, 1]];
    for k in 0..count {
        let id = id0 + k;
        let (c, ps, q, v): (ConeSpec, Vec<i64>, i64, Vec<i64>) = if k % 2 == 0 {
            let (p, q) = pow_exps[rng.gen_range(0..pow_exps.len())];
            let v: Vec<i64> = vec![rng.gen_range(-1..=6), rng.gen_range(-1..=6), rng.gen_range(-6..=6)];
            (ConeSpec::Pow(p as f64 / q as f64), vec![p, q - p], q, v)
        } else {
            let ps = gp_exps[rng.gen_range(0..gp_exps.len())].to_vec();
            let d2 = rng.gen_range(1..=2usize);
            let mut v: Vec<i64> = ps.iter().map(|_| rng.gen_range(-1..=3)).collect();
            for _ in 0..d2 { v.push(rng.gen_range(-3..=3)); }
            (ConeSpec::GenPow(ps.iter().map(|&p| p as f64 / 4.0).collect(), d2), ps, 4, v)
        };
        out.push(lattice_event(id, &c, &ps, q, &v));
    }
    out
}

pub fn lattice_event(id: usize, c: &ConeSpec, ps: &[i64], q: i64, v: &[i64]) -> Value {
    let vf: Vec<f64> = v.iter().map(|&x| x as f64).collect();
    let nu = if matches!(c, ConeSpec::Pow(_)) { 2 } else { ps.len() };
    match bat(c, &vf, &vf, &vf, &vf, 1.0) {
        None => json!({"ev": "Panic", "id": id, "run": id, "cone": c.tag()}),
        Some(b) => json!({"ev": "Lattice", "id": id, "run": id, "cone": c.tag(), "cone_spec": serde_json::to_value(c).unwrap(), "p": ps, "q": q,
                          "u": v[..nu].to_vec(), "w": v[nu..].to_vec(), "vi": v, "primal_code": b.primal_feasible, "dual_code": b.dual_feasible}),
    }
}

pub fn exact_boundary_event(id: usize, c: &ConeSpec, v: &[f64], side: &str) -> Value {
    let code = match bat(c, v, v, v, v, 1.0) { Some(b) => if side == "primal" { b.primal_feasible } else { b.dual_feasible }, None => true };
    json!({"ev": "ExactBoundary", "id": id, "run": id, "cone": c.tag(), "cone_spec": serde_json::to_value(c).unwrap(),
           "side": side, "code_says_interior": code, "v": v})
}

pub fn record(seed: u64, count: usize) -> (Vec<Value>, Value) {
    let mut rng = StdRng::seed_from_u64(seed ^ 0xc14);
    let mut out = vec![];
    let mut fam = std::collections::BTreeMap::<String, usize>::new();
    for id in 0..count {
        let c = match rng.gen_range(0..5) { 0 | 1 => ConeSpec::Exp, 2 | 3 => ConeSpec::Pow((rng.gen_range(80..950) as f64) / 1024.0),
                                            _ => { let k = rng.gen_range(2..=3); ConeSpec::GenPow(gen::genpow_alpha(&mut rng, k), rng.gen_range(1..=3)) } };
        if id % 4 == 3 {
            // arbitrary points for the membership predicates
            let n = c.numel();
            let v: Vec<f64> = (0..n).map(|_| gen::normal(&mut rng) * 10f64.powf(gen::unif(&mut rng, -1.0, 1.0))).collect();
            out.push(membership_event(id, &c, &v));
            *fam.entry(format!("{}:membership", c.tag())).or_default() += 1;
            continue;
        }
        let mut s = gen::interior(&c, &mut rng, false);
        let mut z = gen::interior(&c, &mut rng, true);
        let (a, b) = (10f64.powf(gen::unif(&mut rng, -6.0, 6.0)), 10f64.powf(gen::unif(&mut rng, -6.0, 6.0)));
        for v in s.iter_mut() { *v *= a; }
        for v in z.iter_mut() { *v *= b; }
        let n = s.len();
        let mut family = "calculus";
        if id % 8 == 1 {
            // a point of the central path, s = -mu0 * g*(z): the primal-dual scaling must fall back to mu * H there
            if let Some(b) = bat(&c, &s, &z, &s, &z, 1.0) {
                if b.grad_dual.len() == n {
                    let mu0 = 10f64.powf(gen::unif(&mut rng, -2.0, 2.0));
                    for i in 0..n { s[i] = -mu0 * b.grad_dual[i]; }
                    family = "central";
                }
            }
        }
        if id % 8 == 5 {
            // s at relative distance 1e-2 .. 1e-7 from the boundary of K (the conjugate map and the scaling still have to close)
            let rel = 10f64.powf(gen::unif(&mut rng, -7.0, -2.0));
            match &c {
                ConeSpec::Exp => { let lim = s[1] * (s[0] / s[1]).exp(); s[2] = lim * (1.0 + rel); }
                ConeSpec::Pow(al) => { let lim = (s[0] / a).powf(*al) * (s[1] / a).powf(1.0 - al) * a; s[2] = if s[2] < 0.0 { -lim * (1.0 - rel) } else { lim * (1.0 - rel) }; }
                ConeSpec::GenPow(al, _) => {
                    let k = al.len();
                    let lim: f64 = (0..k).map(|i| s[i].powf(al[i])).product();
                    let nw = norm(&s[k..]).max(1e-300);
                    for i in k..n { s[i] *= lim * (1.0 - rel) / nw; }
                }
                _ => {}
            }
            family = "near_boundary";
        }
        if id % 16 == 6 {
            // z at relative distance 1e-2 .. 1e-7 from the boundary of K*: the algebraic laws of the dual barrier still hold there
            let rel = 10f64.powf(gen::unif(&mut rng, -7.0, -2.0));
            match &c {
                ConeSpec::Exp => { let lim = -z[0] * (z[1] / z[0]).exp() / std::f64::consts::E; z[2] = lim * (1.0 + rel); }
                ConeSpec::Pow(al) => { let lim = (z[0] / al).powf(*al) * (z[1] / (1.0 - al)).powf(1.0 - al); z[2] = if z[2] < 0.0 { -lim * (1.0 - rel) } else { lim * (1.0 - rel) }; }
                ConeSpec::GenPow(al, _) => {
                    let k = al.len();
                    let lim: f64 = (0..k).map(|i| (z[i] / al[i]).powf(al[i])).product();
                    let nw = norm(&z[k..]).max(1e-300);
                    for i in k..n { z[i] *= lim * (1.0 - rel) / nw; }
                }
                _ => {}
            }
            family = "near_boundary_dual";
        }
        if id % 16 == 10 && !matches!(c, ConeSpec::Exp) {
            // the last block of s exactly zero (the branch the power cones take when |w| <= eps); interior as long as p > 0
            let k = match &c { ConeSpec::GenPow(al, _) => al.len(), _ => 2 };
            for i in k..n { s[i] = 0.0; }
            family = "zero_tail";
        }
        let a = if family == "central" { norm(&s) } else { a };
        let ds: Vec<f64> = (0..n).map(|_| gen::normal(&mut rng) * 0.3 * a).collect();
        let dz: Vec<f64> = (0..n).map(|_| gen::normal(&mut rng) * 0.3 * b).collect();
        *fam.entry(format!("{}:{}", c.tag(), family)).or_default() += 1;
        out.push(event(id, &c, &s, &z, &ds, &dz, family));
    }
    // points that lie on the boundary exactly in floating point (every intermediate of the predicates is exact there:
    // a / a = 1, log 1 = 0, exp 0 = 1, 1^x = 1): an interior test must reject them
    for j in 0..(count / 40).max(6) {
        let a = 10f64.powf(gen::unif(&mut rng, -5.0, 5.0));
        let al = (rng.gen_range(80..950) as f64) / 1024.0;
        let k = rng.gen_range(2..=3);
        let ga = gen::genpow_alpha(&mut rng, k);
        let d2 = rng.gen_range(1..=3);
        let sign = if rng.gen::<bool>() { 1.0 } else { -1.0 };
        let mut gp = vec![1.0; k + d2]; for i in k..k + d2 { gp[i] = 0.0; } gp[k + rng.gen_range(0..d2)] = sign;
        let mut gd: Vec<f64> = ga.clone(); gd.extend(vec![0.0; d2]); gd[k + rng.gen_range(0..d2)] = sign;
        let pts: Vec<(ConeSpec, Vec<f64>, &str)> = vec![
            (ConeSpec::Exp, vec![0.0, a, a], "primal"),                       // s3 = s2 exp(s1 / s2)
            (ConeSpec::Exp, vec![-a, -a, a], "dual"),                         // z3 = -z1 exp(z2 / z1 - 1)
            (ConeSpec::Pow(al), vec![1.0, 1.0, sign], "primal"),              // s1^a s2^(1-a) = |s3|
            (ConeSpec::Pow(al), vec![al, 1.0 - al, sign], "dual"),            // (z1/a)^a (z2/(1-a))^(1-a) = |z3|
            (ConeSpec::GenPow(ga.clone(), d2), gp.clone(), "primal"),
            (ConeSpec::GenPow(ga.clone(), d2), gd.clone(), "dual"),
        ];
        for (c, v, side) in pts {
            *fam.entry(format!("{}:exact_boundary", c.tag())).or_default() += 1;
            out.push(exact_boundary_event(count + 10_000_000 + j, &c, &v, side));
        }
    }
    let lat = lattice_events(count, &mut rng, count / 2);
    fam.insert("lattice_membership".into(), lat.len());
    out.extend(lat);
    let secant = out.iter().filter(|e| e["pd_mode"] == "secant").count();
    let fallback = out.iter().filter(|e| e["pd_mode"] == "fallback" && e["three_d"] == true).count();
    (out.clone(), json!({"events": out.len(), "by_family": fam, "pd_secant": secant, "pd_fallback": fallback}))
}
