//! Independent observer (DESIGN D3): plain dense arithmetic that shares no code with
//! clarabel::algebra.  It only produces values; which values are compared with what,
//! under which status, is stated in the TLA+ trace specifications.
#![allow(non_snake_case)]
use crate::problem::{ConeSpec, Csc, Problem};

pub fn norm2(v: &[f64]) -> f64 {
    // scaled accumulation to avoid overflow on extreme data
    let mx = v.iter().fold(0.0f64, |a, x| a.max(x.abs()));
    if mx == 0.0 || !mx.is_finite() {
        return mx;
    }
    let mut acc = 0.0;
    for x in v {
        let t = x / mx;
        acc += t * t;
    }
    mx * acc.sqrt()
}
pub fn norminf(v: &[f64]) -> f64 {
    v.iter().fold(0.0f64, |a, x| a.max(x.abs()))
}
pub fn dot(a: &[f64], b: &[f64]) -> f64 {
    let mut acc = 0.0;
    for i in 0..a.len() {
        acc += a[i] * b[i];
    }
    acc
}
pub fn absdot(a: &[f64], b: &[f64]) -> f64 {
    let mut acc = 0.0;
    for i in 0..a.len() {
        acc += (a[i] * b[i]).abs();
    }
    acc
}

/// y = A x and |A||x| (componentwise rounding scale)
pub fn mul(A: &Csc, x: &[f64]) -> (Vec<f64>, Vec<f64>) {
    let mut y = vec![0.0; A.m];
    let mut ya = vec![0.0; A.m];
    for j in 0..A.n {
        for k in A.colptr[j]..A.colptr[j + 1] {
            let t = A.nzval[k] * x[j];
            y[A.rowval[k]] += t;
            ya[A.rowval[k]] += t.abs();
        }
    }
    (y, ya)
}
/// y = A' z and |A|'|z|
pub fn mul_t(A: &Csc, z: &[f64]) -> (Vec<f64>, Vec<f64>) {
    let mut y = vec![0.0; A.n];
    let mut ya = vec![0.0; A.n];
    for j in 0..A.n {
        for k in A.colptr[j]..A.colptr[j + 1] {
            let t = A.nzval[k] * z[A.rowval[k]];
            y[j] += t;
            ya[j] += t.abs();
        }
    }
    (y, ya)
}
/// Symmetric P given either as upper triangle or as full symmetric matrix.
/// Returns the full dense symmetric matrix.
pub fn sym_dense(P: &Csc) -> Vec<Vec<f64>> {
    let n = P.n;
    let mut d = vec![vec![0.0; n]; n];
    let mut has_lower = false;
    for j in 0..n {
        for k in P.colptr[j]..P.colptr[j + 1] {
            if P.rowval[k] > j {
                has_lower = true;
            }
        }
    }
    for j in 0..n {
        for k in P.colptr[j]..P.colptr[j + 1] {
            let i = P.rowval[k];
            if has_lower {
                // full symmetric input: use the upper triangle only (as the solver does)
                if i <= j {
                    d[i][j] = P.nzval[k];
                    d[j][i] = P.nzval[k];
                }
            } else {
                d[i][j] = P.nzval[k];
                d[j][i] = P.nzval[k];
            }
        }
    }
    d
}
pub fn dense_mul(D: &[Vec<f64>], x: &[f64]) -> (Vec<f64>, Vec<f64>) {
    let n = D.len();
    let mut y = vec![0.0; n];
    let mut ya = vec![0.0; n];
    for i in 0..n {
        for j in 0..x.len() {
            let t = D[i][j] * x[j];
            y[i] += t;
            ya[i] += t.abs();
        }
    }
    (y, ya)
}

/// eigenvalues of a small dense symmetric matrix (cyclic Jacobi)
pub fn jacobi_eigs(a0: &[Vec<f64>]) -> Vec<f64> {
    let n = a0.len();
    let mut a: Vec<Vec<f64>> = a0.to_vec();
    for _sweep in 0..100 {
        let mut off = 0.0;
        for i in 0..n {
            for j in (i + 1)..n {
                off += a[i][j] * a[i][j];
            }
        }
        let mut diag = 0.0;
        for i in 0..n {
            diag += a[i][i] * a[i][i];
        }
        if off <= 1e-32 * (diag + off) || off == 0.0 {
            break;
        }
        for p in 0..n {
            for q in (p + 1)..n {
                if a[p][q] == 0.0 {
                    continue;
                }
                let theta = (a[q][q] - a[p][p]) / (2.0 * a[p][q]);
                let t = theta.signum() / (theta.abs() + (theta * theta + 1.0).sqrt());
                let t = if theta == 0.0 { 1.0 } else { t };
                let c = 1.0 / (t * t + 1.0).sqrt();
                let s = t * c;
                for k in 0..n {
                    let akp = a[k][p];
                    let akq = a[k][q];
                    a[k][p] = c * akp - s * akq;
                    a[k][q] = s * akp + c * akq;
                }
                for k in 0..n {
                    let apk = a[p][k];
                    let aqk = a[q][k];
                    a[p][k] = c * apk - s * aqk;
                    a[q][k] = s * apk + c * aqk;
                }
            }
        }
    }
    (0..n).map(|i| a[i][i]).collect()
}

/// svec (upper triangle, column-major, off-diagonals scaled by sqrt 2) -> dense symmetric
pub fn smat(v: &[f64], n: usize) -> Vec<Vec<f64>> {
    let mut m = vec![vec![0.0; n]; n];
    let isq2 = std::f64::consts::FRAC_1_SQRT_2;
    let mut k = 0;
    for j in 0..n {
        for i in 0..=j {
            if i == j {
                m[i][j] = v[k];
            } else {
                m[i][j] = v[k] * isq2;
                m[j][i] = v[k] * isq2;
            }
            k += 1;
        }
    }
    m
}

/// Membership margin of `v` in the cone (dual = false) or its dual (dual = true),
/// relative to the size of the block: positive inside, negative outside.
/// For the zero cone the primal margin is -max|v| (0 when exactly zero) and the dual is +inf.
pub fn margin(c: &ConeSpec, v: &[f64], dual: bool) -> f64 {
    let scale = 1.0 + norminf(v);
    let raw = match c {
        ConeSpec::Zero(_) => {
            if dual {
                f64::INFINITY
            } else {
                -norminf(v)
            }
        }
        ConeSpec::Nonneg(_) => v.iter().fold(f64::INFINITY, |a, x| a.min(*x)),
        ConeSpec::Soc(_) => {
            if v.is_empty() {
                f64::INFINITY
            } else {
                v[0] - norm2(&v[1..])
            }
        }
        ConeSpec::Exp => {
            if !dual {
                let (x, y, z) = (v[0], v[1], v[2]);
                if y > 0.0 {
                    y.min(z - y * (x / y).exp())
                } else {
                    // closure part: x <= 0, y = 0, z >= 0
                    (-x).min(z).min(y)
                }
            } else {
                let (u, vv, w) = (v[0], v[1], v[2]);
                if u < 0.0 {
                    (-u).min(std::f64::consts::E * w + u * (vv / u).exp())
                } else {
                    (-u).min(vv).min(w)
                }
            }
        }
        ConeSpec::Pow(a) => {
            let (x, y, z) = (v[0], v[1], v[2]);
            if x < 0.0 || y < 0.0 {
                x.min(y)
            } else if !dual {
                x.min(y).min(x.powf(*a) * y.powf(1.0 - a) - z.abs())
            } else {
                x.min(y).min((x / a).powf(*a) * (y / (1.0 - a)).powf(1.0 - a) - z.abs())
            }
        }
        ConeSpec::GenPow(al, _d) => {
            let k = al.len();
            let mn = v[..k].iter().fold(f64::INFINITY, |a, x| a.min(*x));
            if mn < 0.0 {
                mn
            } else {
                let mut lp = 0.0;
                for i in 0..k {
                    let base = if dual { v[i] / al[i] } else { v[i] };
                    lp += al[i] * base.ln();
                }
                mn.min(lp.exp() - norm2(&v[k..]))
            }
        }
        ConeSpec::Psd(n) => {
            let m = smat(v, *n);
            jacobi_eigs(&m).iter().fold(f64::INFINITY, |a, x| a.min(*x))
        }
    };
    raw / scale
}

pub struct ConeMargins {
    pub s: Vec<f64>,
    pub z: Vec<f64>,
}

pub fn cone_margins(cones: &[ConeSpec], s: &[f64], z: &[f64]) -> ConeMargins {
    let mut out = ConeMargins { s: vec![], z: vec![] };
    let mut off = 0;
    for c in cones {
        let k = c.numel();
        out.s.push(margin(c, &s[off..off + k], false));
        out.z.push(margin(c, &z[off..off + k], true));
        off += k;
    }
    out
}

/// Everything the C01/C02/C03 invariants need, evaluated on the user's original data.
#[derive(Debug, Clone, Default)]
pub struct Obs {
    pub pres: f64,      // ||Ax+s-b||_2 / max(1, ||b||inf + ||x|| + ||s||), kept rows
    pub pres_rho: f64,  // rounding scale of pres
    pub dres: f64,      // ||Px+A'z+q||_2 / max(1, ||q||inf + ||x|| + ||z||)
    pub dres_rho: f64,
    pub pobj: f64,
    pub dobj: f64,
    pub obj_rho: f64,   // 64 eps sum|terms|
    pub gap_abs: f64,
    pub gap_rel: f64,
    pub bz: f64,
    pub bz_rho: f64,
    pub qx: f64,
    pub qx_rho: f64,
    pub norm_Atz: f64,
    pub norm_Atz_rho: f64,
    pub norm_Px: f64,
    pub norm_Px_rho: f64,
    pub norm_Axs: f64,
    pub norm_Axs_rho: f64,
    pub normx: f64,
    pub norms: f64,
    pub normz: f64,
    pub smin: f64, // smallest relative cone margin of s in K over cones (kept rows only)
    pub zmin: f64,
    pub dropped: Vec<usize>,
    pub dropped_ok: bool, // z = 0 and s = bound at dropped rows
}

const EPS: f64 = f64::EPSILON;

/// `dropped[i]`: row i was removed as an infinite bound (by the property's rule); `bound` is the
/// infinity bound in force at build time; b entries are capped at it.
pub fn observe(p: &Problem, x: &[f64], s: &[f64], z: &[f64], dropped: &[bool], bound: f64) -> Obs {
    let m = p.m();
    let n = p.n();
    let mut o = Obs::default();
    let beff: Vec<f64> = p.b.iter().map(|v| v.min(bound)).collect();
    let keep: Vec<usize> = (0..m).filter(|i| !dropped[*i]).collect();
    o.dropped = (0..m).filter(|i| dropped[*i]).collect();
    o.dropped_ok = o.dropped.iter().all(|&i| z[i] == 0.0 && s[i] == bound);

    let (ax, axa) = mul(&p.A, x);
    let mut r = vec![];
    let mut ra = vec![];
    let mut sk = vec![];
    let mut zk = vec![];
    let mut bk = vec![];
    let mut axs = vec![];
    let mut axsa = vec![];
    for &i in &keep {
        r.push(ax[i] + s[i] - beff[i]);
        ra.push(axa[i] + s[i].abs() + beff[i].abs());
        axs.push(ax[i] + s[i]);
        axsa.push(axa[i] + s[i].abs());
        sk.push(s[i]);
        zk.push(z[i]);
        bk.push(beff[i]);
    }
    o.normx = norm2(x);
    o.norms = norm2(&sk);
    o.normz = norm2(&zk);
    let den_p = 1.0f64.max(norminf(&bk) + o.normx + o.norms);
    o.pres = norm2(&r) / den_p;
    o.pres_rho = 64.0 * EPS * norm2(&ra) / den_p;
    o.norm_Axs = norm2(&axs);
    o.norm_Axs_rho = 64.0 * EPS * norm2(&axsa);

    let Pd = sym_dense(&p.P);
    let (px, pxa) = dense_mul(&Pd, x);
    // A'z over kept rows only (z is zero at dropped rows anyway)
    let mut zfull = vec![0.0; m];
    for &i in &keep {
        zfull[i] = z[i];
    }
    let (atz, atza) = mul_t(&p.A, &zfull);
    let mut g = vec![0.0; n];
    let mut ga = vec![0.0; n];
    for j in 0..n {
        g[j] = px[j] + atz[j] + p.q[j];
        ga[j] = pxa[j] + atza[j] + p.q[j].abs();
    }
    let den_d = 1.0f64.max(norminf(&p.q) + o.normx + o.normz);
    o.dres = norm2(&g) / den_d;
    o.dres_rho = 64.0 * EPS * norm2(&ga) / den_d;
    o.norm_Atz = norm2(&atz);
    o.norm_Atz_rho = 64.0 * EPS * norm2(&atza);
    o.norm_Px = norm2(&px);
    o.norm_Px_rho = 64.0 * EPS * norm2(&pxa);

    let xpx = dot(x, &px);
    let xpxa = absdot(x, &pxa);
    o.qx = dot(&p.q, x);
    o.qx_rho = 64.0 * EPS * absdot(&p.q, x);
    o.bz = dot(&bk, &zk);
    o.bz_rho = 64.0 * EPS * absdot(&bk, &zk);
    o.pobj = 0.5 * xpx + o.qx;
    o.dobj = -o.bz - 0.5 * xpx;
    o.obj_rho = 64.0 * EPS * (0.5 * xpxa + absdot(&p.q, x) + absdot(&bk, &zk));
    o.gap_abs = (o.pobj - o.dobj).abs();
    o.gap_rel = o.gap_abs / 1.0f64.max(o.pobj.abs().min(o.dobj.abs()));

    // cone membership on the user's cone list, skipping dropped rows inside NN cones
    let mut off = 0;
    o.smin = f64::INFINITY;
    o.zmin = f64::INFINITY;
    for c in &p.cones {
        let k = c.numel();
        let idx: Vec<usize> = (off..off + k).filter(|i| !dropped[*i]).collect();
        let sv: Vec<f64> = idx.iter().map(|&i| s[i]).collect();
        let zv: Vec<f64> = idx.iter().map(|&i| z[i]).collect();
        // only cones that collapse to nonnegative cones can lose rows
        let ceff = if idx.len() < k { ConeSpec::Nonneg(idx.len()) } else { c.clone() };
        if !idx.is_empty() {
            o.smin = o.smin.min(margin(&ceff, &sv, false));
            o.zmin = o.zmin.min(margin(&ceff, &zv, true));
        }
        off += k;
    }
    o
}
