//! Further IPM-level recorders: degenerate-shape enumeration (C04), family G (C06), print routing (C20).
#![allow(non_snake_case)]
use crate::fenc::*;
use crate::gen::{self, GenOpts};
use crate::problem::*;
use crate::rec_ipm::{self, RunOpts, STATUS_NAMES};
use clarabel::solver::*;
use rand::rngs::StdRng;
use rand::{Rng, SeedableRng};
use serde_json::{json, Value};
use std::panic::{catch_unwind, AssertUnwindSafe};
use std::sync::{Arc, Mutex};

// ------------------------------------------------------------------ watchdog
pub struct Watchdog {
    pub state: Arc<Mutex<(std::time::Instant, String)>>,
}
impl Watchdog {
    /// kills the process with exit code 3 (after writing the current case to `path`) when no
    /// progress was signalled for `secs` seconds: a hang in the code under test is data
    pub fn start(path: String, secs: u64) -> Watchdog {
        let state = Arc::new(Mutex::new((std::time::Instant::now(), String::new())));
        let st = state.clone();
        std::thread::spawn(move || loop {
            std::thread::sleep(std::time::Duration::from_millis(500));
            let g = st.lock().unwrap();
            if g.0.elapsed().as_secs() >= secs && !g.1.is_empty() {
                let _ = std::fs::write(&path, &g.1);
                std::process::exit(3);
            }
        });
        Watchdog { state }
    }
    pub fn tick(&self, case: &Value) {
        let mut g = self.state.lock().unwrap();
        g.0 = std::time::Instant::now();
        g.1 = case.to_string();
    }
}

// ------------------------------------------------------------------ C04 shapes
fn cone_menu() -> Vec<ConeSpec> {
    vec![ConeSpec::Zero(0), ConeSpec::Zero(1), ConeSpec::Zero(2), ConeSpec::Nonneg(0), ConeSpec::Nonneg(1),
         ConeSpec::Nonneg(2), ConeSpec::Soc(1), ConeSpec::Soc(2), ConeSpec::Soc(3), ConeSpec::Exp,
         ConeSpec::Pow(0.5), ConeSpec::Pow(0.3), ConeSpec::GenPow(vec![0.5, 0.5], 1),
         ConeSpec::GenPow(vec![0.25, 0.75], 2), ConeSpec::Psd(1), ConeSpec::Psd(2)]
}

pub fn all_cone_lists(max_len: usize, max_m: usize) -> Vec<Vec<ConeSpec>> {
    let menu = cone_menu();
    let mut out: Vec<Vec<ConeSpec>> = vec![vec![]];
    let mut frontier: Vec<Vec<ConeSpec>> = vec![vec![]];
    for _ in 0..max_len {
        let mut next = vec![];
        for l in &frontier {
            let m: usize = l.iter().map(|c| c.numel()).sum();
            for c in &menu {
                if m + c.numel() <= max_m {
                    let mut l2 = l.clone();
                    l2.push(c.clone());
                    next.push(l2);
                }
            }
        }
        out.extend(next.iter().cloned());
        frontier = next;
    }
    out
}

pub fn shape_problem(cones: &[ConeSpec], n: usize, variant: u32, rng: &mut StdRng) -> Problem {
    let m: usize = cones.iter().map(|c| c.numel()).sum();
    let mut a = vec![vec![0.0; n]; m];
    let mut b = vec![0.0; m];
    let mut q = vec![0.0; n];
    let mut pd = vec![vec![0.0; n]; n];
    let ri = |rng: &mut StdRng| rng.gen_range(-2i32..=2) as f64;
    match variant {
        0 => {} // everything zero
        1 => {
            for i in 0..m { for j in 0..n { a[i][j] = ri(rng); } b[i] = ri(rng); }
            for j in 0..n { q[j] = ri(rng); pd[j][j] = rng.gen_range(0..=2) as f64; }
        }
        2 => { // duplicate rows, zero column
            let row: Vec<f64> = (0..n).map(|j| if j == 0 { 1.0 } else { 0.0 }).collect();
            for i in 0..m { a[i] = row.clone(); b[i] = 1.0; }
            q[0] = 1.0;
        }
        3 => { // extreme magnitudes
            for i in 0..m { for j in 0..n { a[i][j] = ri(rng) * if (i + j) % 2 == 0 { 1e12 } else { 1e-12 }; } b[i] = ri(rng) * 1e12; }
            for j in 0..n { q[j] = ri(rng) * 1e-12; pd[j][j] = 1e12; }
        }
        6 | 7 => { // magnitude ladder up to the ends of the finite range (products and squares overflow / underflow)
            let ladder: &[i32] = if variant == 6 { &[0, 100, 150, 155, 160, 200, 300] } else { &[0, -100, -150, -155, -160, -200, -300] };
            let mut pick = |rng: &mut StdRng| 10f64.powi(ladder[rng.gen_range(0..ladder.len())]);
            let (ea, eb, eq, ep) = (pick(rng), pick(rng), pick(rng), pick(rng));
            let nz = |rng: &mut StdRng| { let v = ri(rng); if v == 0.0 { 1.0 } else { v } };
            for i in 0..m { for j in 0..n { a[i][j] = nz(rng) * ea; } b[i] = ri(rng) * eb; }
            for j in 0..n { q[j] = nz(rng) * eq; pd[j][j] = rng.gen_range(0..=2) as f64 * ep; }
        }
        4 => { // infeasible-looking right-hand sides
            for i in 0..m { for j in 0..n { a[i][j] = 0.0; } b[i] = -1.0; }
            for j in 0..n { q[j] = 1.0; }
        }
        _ => { // unbounded direction
            for j in 0..n { q[j] = -1.0; }
            for i in 0..m { b[i] = 1.0; }
        }
    }
    let mut pdu = pd.clone();
    for i in 0..n { for j in 0..i { pdu[i][j] = 0.0; } }
    Problem { P: Csc::from_dense(&pdu, n, n), q, A: Csc::from_dense(&a, m, n), b, cones: cones.to_vec(),
              settings: json!({}), tag: format!("shape v{}", variant) }
}

pub struct ShapeStats {
    pub runs: usize,
    pub panics: usize,
    pub distinct: std::collections::HashSet<String>,
    pub status_hist: std::collections::HashMap<String, usize>,
}

/// enumerate (or sample, when `sample` > 0) degenerate shapes; returns trace lines + cases
pub fn shapes(seed: u64, sample: usize, max_len: usize, max_m: usize, wd: &Watchdog) -> (Vec<Value>, Vec<Value>, ShapeStats) {
    let mut rng = StdRng::seed_from_u64(seed);
    let lists = all_cone_lists(max_len, max_m);
    let mut combos = vec![];
    for (li, _) in lists.iter().enumerate() {
        for n in 1..=2usize {
            for variant in 0..8u32 {
                for &mi in &[0u32, 1, 2, 200] {
                    combos.push((li, n, variant, mi));
                }
            }
        }
    }
    if sample > 0 && sample < combos.len() {
        // seeded sample without replacement
        for i in 0..sample {
            let j = rng.gen_range(i..combos.len());
            combos.swap(i, j);
        }
        combos.truncate(sample);
    }
    let mut lines = vec![];
    let mut cases = vec![];
    let mut stats = ShapeStats { runs: 0, panics: 0, distinct: Default::default(), status_hist: Default::default() };
    for (run, (li, n, variant, mi)) in combos.into_iter().enumerate() {
        let mut p = shape_problem(&lists[li], n, variant, &mut rng);
        let mut s = serde_json::Map::new();
        s.insert("max_iter".into(), json!(mi));
        match rng.gen_range(0..8) {
            0 => { s.insert("time_limit".into(), json!(0.0)); }
            1 => { s.insert("time_limit".into(), json!(1e-9)); }
            // finite but far beyond anything a clock can count (the limit is printed in the banner and compared every pass)
            2 => { s.insert("time_limit".into(), json!([1e19, 1e20, 1e300, f64::MAX][rng.gen_range(0..4)])); }
            _ => {}
        }
        if rng.gen::<f64>() < 0.3 { s.insert("presolve_enable".into(), json!(false)); }
        if rng.gen::<f64>() < 0.3 { s.insert("equilibrate_enable".into(), json!(false)); }
        if rng.gen::<f64>() < 0.25 { s.insert("static_regularization_enable".into(), json!(false)); }
        if rng.gen::<f64>() < 0.25 { s.insert("dynamic_regularization_enable".into(), json!(false)); }
        if rng.gen::<f64>() < 0.15 { s.insert("iterative_refinement_enable".into(), json!(false)); }
        if rng.gen::<f64>() < 0.15 { s.insert("direct_solve_method".into(), json!("qdldl")); }
        p.settings = Value::Object(s);
        // every third run prints (to a buffer): the status table formats whatever magnitudes occur
        if run % 3 == 0 { p.tag.push_str("+print"); }
        let case = json!({"run": run, "problem": p});
        wd.tick(&case);
        let out = rec_ipm::run_ipm(run, &p, &RunOpts { capture_print: run % 3 == 0, ..Default::default() });
        stats.runs += 1;
        cases.push(case);
        match (&out.result, &out.panic) {
            (Some(r), _) => {
                *stats.status_hist.entry(STATUS_NAMES[r.status].to_string()).or_default() += 1;
                stats.distinct.insert(format!("{:?}|{}|{}|{}", p.cones, n, variant, mi));
                lines.extend(out.lines);
            }
            (None, Some(m)) => {
                stats.panics += 1;
                lines.push(json!({"ev": "Panic", "run": run, "msg": m,
                                  "cones": format!("{:?}", p.cones)}));
            }
            _ => unreachable!(),
        }
    }
    // generalised power cones with many equal exponents 1/k (geometric means): their floating-point sum misses 1 by a few
    // ulps for most k, which the constructor's tolerance is there to accept
    let mut run = stats.runs;
    for k in [3usize, 5, 6, 7, 9, 10, 11, 13, 14, 17, 20] {
        for d2 in [1usize, 2] {
            let o = crate::gen::GenOpts { nmax: 3, ..Default::default() };
            let mut p = crate::gen::planted_with_cones(&mut rng, &o, 2, vec![ConeSpec::GenPow(vec![1.0 / k as f64; k], d2), ConeSpec::Nonneg(1)]);
            p.settings = json!({"max_iter": 50});
            p.tag.push_str("+geomean");
            let case = json!({"run": run, "problem": p});
            wd.tick(&case);
            let out = rec_ipm::run_ipm(run, &p, &RunOpts::default());
            stats.runs += 1;
            cases.push(case);
            match (&out.result, &out.panic) {
                (Some(r), _) => { *stats.status_hist.entry(STATUS_NAMES[r.status].to_string()).or_default() += 1; lines.extend(out.lines); }
                (None, Some(m)) => { stats.panics += 1; lines.push(json!({"ev": "Panic", "run": run, "msg": m, "cones": format!("{:?}", p.cones)})); }
                _ => unreachable!(),
            }
            run += 1;
        }
    }
    (lines, cases, stats)
}

/// all single-field perturbations of a consistent dimension tuple; the constructor must panic with a
/// documented message, and must not panic on the consistent tuple
pub fn dimension_cases() -> Vec<Value> {
    let mut out = vec![];
    let msgs = ["A and b incompatible dimensions.", "Constraint dimensions inconsistent with size of cones.",
                "A and q incompatible dimensions.", "P and q incompatible dimensions.", "P not square."];
    let mut id = 0;
    for n in 1..=3usize {
        for m in 0..=3usize {
            // (P rows, P cols, q len, A rows, A cols, b len, cone total)
            let base = [n, n, n, m, n, m, m];
            let mut tuples = vec![base];
            for f in 0..7 {
                for d in [-1i64, 1] {
                    let mut t = base;
                    let v = t[f] as i64 + d;
                    if v < 0 { continue; }
                    t[f] = v as usize;
                    tuples.push(t);
                }
            }
            for t in tuples {
                let P = clarabel::algebra::CscMatrix::<f64>::zeros((t[0], t[1]));
                let A = clarabel::algebra::CscMatrix::<f64>::zeros((t[3], t[4]));
                let q = vec![0.0; t[2]];
                let b = vec![0.0; t[5]];
                let cones = vec![SupportedConeT::NonnegativeConeT(t[6])];
                let mut st = DefaultSettings::<f64>::default();
                st.verbose = false;
                let res = catch_unwind(AssertUnwindSafe(|| {
                    let mut s = DefaultSolver::new(&P, &q, &A, &b, &cones, st);
                    s.solve();
                    s.solution.status as usize
                }));
                let preds = [t[5] == t[3], t[6] == t[5], t[2] == t[4], t[2] == t[1], t[0] == t[1]];
                let (outcome, msg) = match res {
                    Ok(s) => (STATUS_NAMES[s].to_string(), String::new()),
                    Err(e) => ("panic".to_string(), rec_ipm::panic_msg(e)),
                };
                let documented = msgs.iter().position(|x| *x == msg).map(|k| k as i64).unwrap_or(-1);
                out.push(json!({"ev": "New", "id": id, "dims": t, "preds": preds, "outcome": outcome,
                                "msg": msg, "documented": documented}));
                id += 1;
            }
        }
    }
    out
}

// ------------------------------------------------------------------ C06 family G
pub fn family_g(rng: &mut StdRng) -> Problem {
    let n = rng.gen_range(1..=60usize);
    let mut o = GenOpts { nmax: n, max_cones: 4, soc_max: 8, psd_max: 0, density: 0.6, mag_exp: 3.0, ..Default::default() };
    o.allow_zero = n >= 4;
    // planted interior point with m >= 2n+2 rows: add nonnegative rows until large enough
    // every twelfth problem has a planted solution far from the origin (norm of a few hundred): small data entries, the planted
    // primal point moved along a random direction with b and q adjusted so that the same (s0, z0) stay strictly feasible
    let far = rng.gen::<f64>() < 0.08;
    if far { o.mag_exp = 0.3; }
    let mut p = gen::planted_feasible_n(rng, &o, n, 2 * n + 2);
    if far {
        let u: Vec<f64> = (0..n).map(|_| gen::normal(rng)).collect();
        let un = u.iter().map(|v| v * v).sum::<f64>().sqrt().max(1e-9);
        let ad = p.A.to_dense();
        let pd = crate::observer::sym_dense(&p.P);
        let au: Vec<f64> = ad.iter().map(|r| r.iter().zip(&u).map(|(a, b)| a * b).sum::<f64>() / un).collect();
        let pu: Vec<f64> = pd.iter().map(|r| r.iter().zip(&u).map(|(a, b)| a * b).sum::<f64>() / un).collect();
        let big = au.iter().chain(pu.iter()).fold(1e-9f64, |m, v| m.max(v.abs()));
        let t = (800.0 / big).min(600.0);          // keeps every entry of b and q within 1e3
        for i in 0..p.b.len() { p.b[i] += t * au[i]; }
        for j in 0..n { p.q[j] -= t * pu[j]; }
    }
    p.tag = if far { "G+far".into() } else { "G".into() };
    p
}

pub fn dist_lines(seed: u64, count: usize) -> (Vec<Value>, Vec<Value>, Vec<Value>) {
    let mut rng = StdRng::seed_from_u64(seed);
    let mut lines = vec![];
    let mut cases = vec![];
    let mut summary = vec![];
    for run in 0..count {
        let p = family_g(&mut rng);
        let out = rec_ipm::run_ipm(run, &p, &RunOpts::default());
        cases.push(json!({"run": run, "problem": p}));
        match (&out.result, &out.panic) {
            (Some(r), _) => {
                summary.push(json!({"ev": "Run", "run": run, "status": STATUS_NAMES[r.status], "iterations": r.iterations,
                                    "sym": p.is_symmetric()}));
                lines.extend(out.lines);
            }
            (None, Some(m)) => {
                summary.push(json!({"ev": "Run", "run": run, "status": "Panic", "iterations": 0, "sym": p.is_symmetric()}));
                lines.push(json!({"ev": "Panic", "run": run, "msg": m}));
            }
            _ => unreachable!(),
        }
    }
    (lines, cases, summary)
}

// ------------------------------------------------------------------ C20 print routing
#[derive(Clone)]
struct SharedBuf(Arc<Mutex<Vec<u8>>>);
impl std::io::Write for SharedBuf {
    fn write(&mut self, b: &[u8]) -> std::io::Result<usize> {
        self.0.lock().unwrap().extend_from_slice(b);
        Ok(b.len())
    }
    fn flush(&mut self) -> std::io::Result<()> { Ok(()) }
}

#[derive(Clone)]
struct ShortBuf(Arc<Mutex<Vec<u8>>>);
impl std::io::Write for ShortBuf {
    fn write(&mut self, b: &[u8]) -> std::io::Result<usize> {
        let k = b.len().min(7);
        self.0.lock().unwrap().extend_from_slice(&b[..k]);
        Ok(k)
    }
    fn flush(&mut self) -> std::io::Result<()> { Ok(()) }
}

fn mask_time(s: &str) -> String {
    s.lines().map(|l| if l.starts_with("solve time") { "solve time = <masked>" } else { l }).collect::<Vec<_>>().join("\n")
}

fn parse_config(buf: &str) -> Value {
    let mut m = serde_json::Map::new();
    let grab = |l: &str, key: &str| -> Option<i64> {
        let t = l.trim();
        t.strip_prefix(key).and_then(|r| r.trim().strip_prefix('=')).and_then(|r| r.trim().trim_end_matches(',').parse::<i64>().ok())
    };
    for l in buf.lines() {
        for (key, name) in [("variables", "n"), ("constraints", "m"), ("nnz(P)", "nnzP"), ("nnz(A)", "nnzA"), ("cones (total)", "ncones")] {
            if let Some(v) = grab(l, key) { m.insert(name.into(), json!(v)); }
        }
        if let Some(r) = l.trim().strip_prefix("presolve: removed ") {
            if let Some(k) = r.split_whitespace().next().and_then(|x| x.parse::<i64>().ok()) { m.insert("removed".into(), json!(k)); }
        }
        let t = l.trim();
        if let Some(r) = t.strip_prefix(": ") {
            // ": Nonnegative = 1,  numel = 3"  or ": SecondOrder = 2,  numel = (3,4)"
            let name = r.split('=').next().unwrap_or("").trim().to_string();
            let cnt = r.split('=').nth(1).and_then(|x| x.split(',').next()).and_then(|x| x.trim().parse::<i64>().ok());
            if let Some(c) = cnt { m.insert(format!("cone_{}", name), json!(c)); }
            // the dimensions as shown: a single number, or a parenthesised list, possibly with an ellipsis
            if let Some(txt) = r.split("numel =").nth(1) {
                let txt = txt.trim().trim_start_matches('(').trim_end_matches(')');
                let ell = txt.contains("...");
                let list: Vec<i64> = txt.split(',').filter_map(|x| x.trim().parse::<i64>().ok()).collect();
                m.insert(format!("dims_{}", name), json!({"list": list, "ellipsis": ell}));
            }
        }
        if let Some(r) = t.strip_prefix("max iter = ").filter(|_| !m.contains_key("max_iter")) {
            if let Some(k) = r.split(',').next().and_then(|x| x.trim().parse::<i64>().ok()) { m.insert("max_iter".into(), json!(k)); }
        }
    }
    // "  linear algebra: direct / qdldl, precision: 64 bit (1 thread)"
    for l in buf.lines() {
        if let Some(r) = l.trim().strip_prefix("linear algebra:") {
            let kind = r.split('/').next().unwrap_or("").trim().to_string();
            let name = r.split('/').nth(1).and_then(|x| x.split(',').next()).unwrap_or("").trim().to_string();
            let prec = r.split("precision:").nth(1).and_then(|x| x.trim().split_whitespace().next()).unwrap_or("").to_string();
            let thr = if let Some(t) = r.split('(').nth(1) { t.split_whitespace().next().and_then(|x| x.parse::<i64>().ok()).unwrap_or(-1) } else { 0 };
            m.insert("linalg".into(), json!({"kind": kind, "name": name, "precision": prec, "threads": thr}));
        }
    }
    // chordal decomposition block
    {
        let mut ch = serde_json::Map::new();
        let mut inblk = false;
        for l in buf.lines() {
            if l.starts_with("chordal decomposition:") { inblk = true; continue; }
            if inblk {
                if l.trim().is_empty() { break; }
                for piece in l.split(',') {
                    if let Some((k, v)) = piece.split_once('=') { ch.insert(k.trim().to_string(), json!(v.trim())); }
                }
            }
        }
        if inblk { m.insert("chordal".into(), Value::Object(ch)); }
    }
    // the settings block as an ordered list of (key, value) pairs exactly as printed
    let mut pairs: Vec<Value> = vec![];
    let mut in_settings = false;
    for l in buf.lines() {
        if l.starts_with("settings:") { in_settings = true; continue; }
        if in_settings {
            if l.trim().is_empty() { break; }
            for piece in l.split(',') {
                let piece = piece.trim();
                if let Some((k, v)) = piece.split_once(" = ") {
                    pairs.push(json!([k.trim(), v.trim()]));
                } else if let Some((k, v)) = piece.split_once(':') {
                    let v = v.trim();
                    if v == "on" || v == "false" { pairs.push(json!([k.trim(), v])); }
                }
            }
        }
    }
    m.insert("settings".into(), Value::Array(pairs));
    Value::Object(m)
}

fn last_row(buf: &str) -> Option<Vec<String>> {
    let mut in_rows = false;
    let mut last = None;
    for l in buf.lines() {
        let t = l.trim();
        if t.starts_with("iter ") && t.contains("pcost") { in_rows = true; continue; }
        if t.starts_with("Terminated") { in_rows = false; }
        if in_rows && !t.starts_with("---") && !t.is_empty() {
            last = Some(t.split_whitespace().map(|x| x.to_string()).collect());
        }
    }
    last
}

/// One problem, solved with verbose on into Buffer, Stream and File targets, with verbose off into a
/// buffer, and with the Sink target.  Emits one `PrintCase` event.
pub fn print_case(run: usize, p: &Problem, dir: &str) -> Value {
    use clarabel::io::ConfigurablePrintTarget;
    let P = p.P.to_clarabel();
    let A = p.A.to_clarabel();
    let cones = p.clarabel_cones();
    let mk = |verbose: bool| {
        let mut st = p.settings();
        st.verbose = verbose;
        DefaultSolver::new(&P, &p.q, &A, &p.b, &cones, st)
    };
    let res = catch_unwind(AssertUnwindSafe(|| {
        // buffer
        let mut s1 = mk(true);
        s1.print_to_buffer();
        s1.solve();
        let b1 = s1.get_print_buffer().unwrap();
        let b1_again = s1.get_print_buffer().unwrap();       // reading the buffer does not consume it
        let clone_same = s1.info.clone().get_print_buffer().map(|c| c == b1).unwrap_or(false);   // a copy of the info object carries the log
        // stream
        let shared = SharedBuf(Arc::new(Mutex::new(vec![])));
        let mut s2 = mk(true);
        s2.print_to_stream(Box::new(shared.clone()));
        let getbuf_stream_err = s2.get_print_buffer().is_err();
        s2.solve();
        let b2 = String::from_utf8_lossy(&shared.0.lock().unwrap()).to_string();
        // a second solve on both: each target then holds both logs
        s1.solve();
        s2.solve();
        let b1_two = s1.get_print_buffer().unwrap();
        let b2_two = String::from_utf8_lossy(&shared.0.lock().unwrap()).to_string();
        // selecting the buffer again starts a fresh capture: it then holds the log of the next solve only
        s1.print_to_buffer();
        s1.solve();
        let b1_fresh = s1.get_print_buffer().unwrap();
        // file
        let path = format!("{}/print_{}.txt", dir, run);
        let f = std::fs::File::create(&path).unwrap();
        let mut s3 = mk(true);
        s3.print_to_file(f);
        let getbuf_file_err = s3.get_print_buffer().is_err();
        s3.solve();
        drop(s3);
        let b3 = std::fs::read_to_string(&path).unwrap();
        let _ = std::fs::remove_file(&path);
        // a stream that takes at most 7 bytes per write call: the same bytes must arrive
        let short = ShortBuf(Arc::new(Mutex::new(vec![])));
        let mut s7 = mk(true);
        s7.print_to_stream(Box::new(short.clone()));
        s7.solve();
        let b7 = String::from_utf8_lossy(&short.0.lock().unwrap()).to_string();
        // verbose off: buffer and stream stay empty
        let mut s4 = mk(false);
        s4.print_to_buffer();
        s4.solve();
        let b4 = s4.get_print_buffer().unwrap();
        let shared5 = SharedBuf(Arc::new(Mutex::new(vec![])));
        let mut s5 = mk(false);
        s5.print_to_stream(Box::new(shared5.clone()));
        s5.solve();
        let b5len = shared5.0.lock().unwrap().len();
        // sink, then switch to buffer: nothing from the sink era appears
        let mut s6 = mk(true);
        s6.print_to_sink();
        let getbuf_sink_err = s6.get_print_buffer().is_err();
        s6.solve();
        s6.print_to_buffer();
        let b6 = s6.get_print_buffer().unwrap();
        // internal facts for the configuration header
        let d = &s1.data;
        let mut ccount = std::collections::HashMap::new();
        let mut cdims = std::collections::HashMap::<String, Vec<usize>>::new();
        for c in &d.cones {
            let name = match ConeSpec::from_clarabel(c) {
                ConeSpec::Zero(_) => "Zero", ConeSpec::Nonneg(_) => "Nonnegative", ConeSpec::Soc(_) => "SecondOrder",
                ConeSpec::Exp => "Exponential", ConeSpec::Pow(_) => "Power", ConeSpec::GenPow(_, _) => "GenPower",
                ConeSpec::Psd(_) => "PSDTriangle",
            };
            *ccount.entry(name.to_string()).or_insert(0i64) += 1;
            cdims.entry(name.to_string()).or_default().push(ConeSpec::from_clarabel(c).numel());
        }
        // chordal decomposition facts from the read-only view (None: not decomposed)
        let chordal_int: Value = match clarabel::verif::chordal_view(d) {
            None => json!({}),
            Some(v) => {
                let st = p.settings();
                let onoff = |b: bool| if b { "on" } else { "false" };
                let npsd = |cs: &[SupportedConeT<f64>]| cs.iter().filter(|c| matches!(c, SupportedConeT::PSDTriangleConeT(_))).count();
                json!({"compact format": onoff(st.chordal_decomposition_compact), "dual completion": onoff(st.chordal_decomposition_complete_dual),
                       "merge method": st.chordal_decomposition_merge_method, "PSD cones initial": format!("{}", npsd(&v.init_cones)),
                       "PSD cones decomposable": format!("{}", v.trees.len()), "PSD cones after merges": format!("{}", npsd(&d.cones))})
            }
        };
        let removed = clarabel::verif::presolve_view(d).map(|v| v.keep.iter().filter(|k| !**k).count() as i64).unwrap_or(0);
        let sol = &s1.solution;
        let lr = last_row(&b1);
        let tok = |k: usize| -> f64 { lr.as_ref().and_then(|r| r.get(k)).and_then(|x| x.parse::<f64>().ok()).unwrap_or(f64::NAN) };
        let band = |v: f64| -> (Value, Value) { let a = 6e-5 * v.abs() + 1e-300; (fj(v - a), fj(v + a)) };
        let band2 = |v: f64| -> (Value, Value) { let a = 6e-3 * v.abs() + 1e-300; (fj(v - a), fj(v + a)) };
        // (infeasibility verdicts report NaN objectives; for every other status the last row's costs are the solution's)
        let infeas = STATUS_NAMES[sol.status as usize].contains("Infeasible");
        json!({"ev": "PrintCase", "run": run,
            "same_stream": mask_time(&b1) == mask_time(&b2), "same_file": mask_time(&b1) == mask_time(&b3),
            "same_short_stream": mask_time(&b1) == mask_time(&b7),
            "reread_same": b1 == b1_again, "clone_same": clone_same, "rebuffer_fresh": mask_time(&b1_fresh) == mask_time(&b1),
            "two_solves_same": mask_time(&b1_two) == mask_time(&b2_two) && b1_two.starts_with(&b1) && b1_two.len() > b1.len(),
            "len_buffer": b1.len(), "len_quiet_buffer": b4.len(), "len_quiet_stream": b5len, "len_after_sink": b6.len(),
            "getbuf_err": [getbuf_stream_err, getbuf_file_err, getbuf_sink_err],
            "parsed": rec_ipm::parse_print(&b1), "config": parse_config(&b1),
            "internal": {"n": d.n, "m": d.m, "nnzP": d.P.nnz(), "nnzA": d.A.nnz(), "ncones": d.cones.len(),
                         "removed": removed, "has_presolver": removed > 0, "cones": ccount, "dims": cdims,
                         "chordal": chordal_int, "chordal_active": chordal_int.as_object().map(|o| !o.is_empty()).unwrap_or(false),
                         "linalg": {"kind": if s1.info.linsolver.direct { "direct" } else { "indirect" }, "name": s1.info.linsolver.name,
                                    "precision": "64", "threads": s1.info.linsolver.threads},
                         "max_iter": p.settings().max_iter, "settings": expected_settings(&p.settings())},
            "status": STATUS_NAMES[sol.status as usize], "iterations": sol.iterations,
            "last": {"has": lr.is_some(), "iter": lr.as_ref().and_then(|r| r.first()).and_then(|x| x.parse::<i64>().ok()).unwrap_or(-1),
                     "pcost": fj(tok(1)), "dcost": fj(tok(2)), "pres": fj(tok(4)), "dres": fj(tok(5)),
                     "gap": fj(tok(3)), "gap_lo": band2(f64::min(s1.info.gap_abs, s1.info.gap_rel)).0, "gap_hi": band2(f64::min(s1.info.gap_abs, s1.info.gap_rel)).1,
                     "infeas": infeas,
                     "step_dashes": lr.as_ref().and_then(|r| r.last()).map(|x| x.starts_with("--")).unwrap_or(false),
                     "step": fj(tok(8)), "step_lo": band2(s1.info.step_length).0, "step_hi": band2(s1.info.step_length).1,
                     "pcost_lo": band(sol.obj_val).0, "pcost_hi": band(sol.obj_val).1,
                     "dcost_lo": band(sol.obj_val_dual).0, "dcost_hi": band(sol.obj_val_dual).1,
                     "pres_lo": band2(sol.r_prim).0, "pres_hi": band2(sol.r_prim).1,
                     "dres_lo": band2(sol.r_dual).0, "dres_hi": band2(sol.r_dual).1}})
    }));
    match res {
        Ok(v) => v,
        Err(e) => json!({"ev": "Panic", "run": run, "msg": rec_ipm::panic_msg(e)}),
    }
}

/// The header of a single-precision solve: the solver is generic over the float type and the header names the precision in use.
pub fn print_case_f32(run: usize) -> Value {
    use clarabel::io::ConfigurablePrintTarget;
    let res = catch_unwind(AssertUnwindSafe(|| {
        let A = clarabel::algebra::CscMatrix::<f32>::new(3, 2, vec![0, 2, 4], vec![0, 1, 0, 2], vec![1.0, 1.0, 1.0, 1.0]);
        let P = clarabel::algebra::CscMatrix::<f32>::new(2, 2, vec![0, 1, 2], vec![0, 1], vec![1.0, 2.0]);
        let st = clarabel::solver::DefaultSettingsBuilder::<f32>::default().verbose(true).build().unwrap();
        let mut s = clarabel::solver::DefaultSolver::<f32>::new(&P, &[1.0f32, -1.0], &A, &[2.0f32, 1.0, 1.0], &[clarabel::solver::SupportedConeT::NonnegativeConeT(3)], st);
        s.print_to_buffer();
        s.solve();
        let b = s.get_print_buffer().unwrap();
        let c = parse_config(&b);
        json!({"ev": "PrintF32", "run": run, "precision": c["linalg"]["precision"], "n": c["n"], "m": c["m"], "parsed": rec_ipm::parse_print(&b),
               "status": STATUS_NAMES[rec_ipm::status_code(s.solution.status)], "iterations": s.solution.iterations})
    }));
    match res { Ok(v) => v, Err(e) => json!({"ev": "Panic", "run": run, "msg": rec_ipm::panic_msg(e)}) }
}

/// the settings block as the documented formats print it (ordered key/value pairs)
pub fn expected_settings(s: &DefaultSettings<f64>) -> Value {
    let onoff = |b: bool| if b { "on" } else { "false" };
    let tl = if s.time_limit.is_infinite() { "Inf".to_string() } else { format!("{:?}", s.time_limit) };
    json!([
        ["max iter", format!("{}", s.max_iter)], ["time limit", tl], ["max step", format!("{:.3}", s.max_step_fraction)],
        ["tol_feas", format!("{:.1e}", s.tol_feas)], ["tol_gap_abs", format!("{:.1e}", s.tol_gap_abs)],
        ["tol_gap_rel", format!("{:.1e}", s.tol_gap_rel)],
        ["static reg", onoff(s.static_regularization_enable)], ["ϵ1", format!("{:.1e}", s.static_regularization_constant)],
        ["ϵ2", format!("{:.1e}", s.static_regularization_proportional)],
        ["dynamic reg", onoff(s.dynamic_regularization_enable)], ["ϵ", format!("{:.1e}", s.dynamic_regularization_eps)],
        ["δ", format!("{:.1e}", s.dynamic_regularization_delta)],
        ["iter refine", onoff(s.iterative_refinement_enable)], ["reltol", format!("{:.1e}", s.iterative_refinement_reltol)],
        ["abstol", format!("{:.1e}", s.iterative_refinement_abstol)],
        ["max iter", format!("{}", s.iterative_refinement_max_iter)], ["stop ratio", format!("{:.1}", s.iterative_refinement_stop_ratio)],
        ["equilibrate", onoff(s.equilibrate_enable)], ["min_scale", format!("{:.1e}", s.equilibrate_min_scaling)],
        ["max_scale", format!("{:.1e}", s.equilibrate_max_scaling)], ["max iter", format!("{}", s.equilibrate_max_iter)],
    ])
}
