//! impl -> spec recorder for VecMath.tla: the dense vector kernels on an enumeration of small integer inputs.
//! Every logged result is in quarter units (4 * value) so that dyadic results stay integral.
use clarabel::algebra::*;
use rand::rngs::StdRng;
use rand::{Rng, SeedableRng};
use serde_json::{json, Value};
use std::panic::{catch_unwind, AssertUnwindSafe};

fn q(x: f64) -> Value {
    if x.is_nan() { return json!("nan"); }
    if x == f64::INFINITY { return json!("inf"); }
    if x == f64::NEG_INFINITY { return json!("-inf"); }
    let v = x * 4.0;
    if v.fract() == 0.0 && v.abs() < 1e9 { json!(v as i64) } else { json!(format!("nonquarter:{}", x)) }
}
fn qv(v: &[f64]) -> Value { Value::Array(v.iter().map(|x| q(*x)).collect()) }
fn iv(v: &[f64]) -> Value { Value::Array(v.iter().map(|x| json!(*x as i64)).collect()) }

fn guarded<F: FnOnce() -> Value>(op: &str, f: F) -> Value {
    match catch_unwind(AssertUnwindSafe(f)) {
        Ok(v) => v,
        Err(e) => json!({"op": op, "kind": "scalar", "panic": crate::rec_ipm::panic_msg(e)}),
    }
}

fn all_vectors(vals: &[f64], maxlen: usize) -> Vec<Vec<f64>> {
    let mut out = vec![vec![]];
    let mut frontier: Vec<Vec<f64>> = vec![vec![]];
    for _ in 0..maxlen {
        let mut next = vec![];
        for v in &frontier { for x in vals { let mut w = v.clone(); w.push(*x); next.push(w); } }
        out.extend(next.iter().cloned());
        frontier = next;
    }
    out
}

fn is_square(v: f64) -> bool { let r = v.sqrt().round(); r * r == v }

pub fn record(seed: u64, thorough: bool) -> Vec<Value> {
    let mut rng = StdRng::seed_from_u64(seed);
    let mut out = vec![];
    let vals = [-2.0, -1.0, 0.0, 1.0, 2.0];
    let mut unary = all_vectors(&vals, 3);
    if thorough { unary.extend(all_vectors(&[-3.0, 0.0, 3.0, 4.0], 4)); }
    // a few longer ones (mean needs power-of-two lengths to stay dyadic)
    for _ in 0..40 { let n = [4usize, 8][rng.gen_range(0..2)]; unary.push((0..n).map(|_| rng.gen_range(-3i32..=3) as f64).collect()); }
    for x in &unary {
        let xi = iv(x);
        let n = x.len();
        let sc = |op: &str, r: f64| json!({"op": op, "kind": "scalar", "x": xi, "res": q(r)});
        out.push(guarded("sum", || sc("sum", x.sum())));
        out.push(guarded("sumsq", || sc("sumsq", x.sumsq())));
        out.push(guarded("norm_one", || sc("norm_one", x.norm_one())));
        out.push(guarded("norm_inf", || sc("norm_inf", x.norm_inf())));
        out.push(guarded("minimum", || sc("minimum", x.minimum())));
        out.push(guarded("maximum", || sc("maximum", x.maximum())));
        if n == 0 || n.is_power_of_two() && n <= 4 { out.push(guarded("mean", || sc("mean", x.mean()))); }
        if is_square(x.sumsq()) {
            out.push(guarded("norm", || sc("norm", x.norm())));
            out.push(guarded("normalize", || { let mut w = x.clone(); let r = w.normalize();
                let o = if r == 0.0 { qv(&w) } else { json!([]) };
                json!({"op": "normalize", "kind": "scalar", "x": xi, "res": q(r), "out": o}) }));
        }
        out.push(guarded("is_finite", || json!({"op": "is_finite", "kind": "scalar", "x": xi, "res": x.is_finite()})));
        let vc = |op: &str, w: &[f64], extra: Value| { let mut e = json!({"op": op, "kind": "vector", "x": xi, "out": qv(w)}); for (k, v) in extra.as_object().unwrap() { e[k] = v.clone(); } e };
        for c in [-2.0, 0.0, 3.0] {
            out.push(guarded("translate", || { let mut w = x.clone(); w.translate(c); vc("translate", &w, json!({"c": c as i64})) }));
            out.push(guarded("set", || { let mut w = x.clone(); w.set(c); vc("set", &w, json!({"c": c as i64})) }));
            out.push(guarded("scale", || { let mut w = x.clone(); w.scale(c); vc("scale", &w, json!({"c": c as i64})) }));
        }
        out.push(guarded("negate", || { let mut w = x.clone(); w.negate(); vc("negate", &w, json!({})) }));
        for (lo, hi) in [(-1.0, 1.0), (0.0, 0.0), (-2.0, 1.0)] {
            out.push(guarded("clip", || { let mut w = x.clone(); w.clip(lo, hi); vc("clip", &w, json!({"lo": lo as i64, "hi": hi as i64})) }));
        }
        out.push(guarded("scalarop", || { let mut w = x.clone(); w.scalarop(|t| 2.0 * t + 1.0); vc("scalarop", &w, json!({})) }));
        for mask in 0..(1u32 << n.min(4)) {
            if n > 4 { break; }
            let mv: Vec<bool> = (0..n).map(|i| mask >> i & 1 == 1).collect();
            out.push(guarded("select", || { let w = x.select(&mv); vc("select", &w, json!({"mask": mv})) }));
        }
    }
    // kernels with restricted domains
    for x in all_vectors(&[-4.0, -2.0, -1.0, 1.0, 2.0, 4.0], 2) {
        out.push(guarded("recip", || { let mut w = x.clone(); w.recip(); json!({"op": "recip", "kind": "vector", "x": iv(&x), "out": qv(&w)}) }));
    }
    for x in all_vectors(&[0.0, 1.0, 4.0, 9.0, 16.0], 2) {
        out.push(guarded("sqrt", || { let mut w = x.clone(); VectorMath::sqrt(&mut w[..]); json!({"op": "sqrt", "kind": "vector", "x": iv(&x), "out": qv(&w)}) }));
    }
    for x in all_vectors(&[1.0, 4.0, 16.0], 3) {
        out.push(guarded("rsqrt", || { let mut w = x.clone(); w.rsqrt(); json!({"op": "rsqrt", "kind": "vector", "x": iv(&x), "out": qv(&w)}) }));
    }
    // pairs
    let small = all_vectors(&[-2.0, 0.0, 1.0], 3);
    for x in &small { for y in &small {
        if x.len() != y.len() { continue; }
        let (xi, yi) = (iv(x), iv(y));
        let sc = |op: &str, r: f64| json!({"op": op, "kind": "scalar", "x": xi, "y": yi, "res": q(r)});
        out.push(guarded("dot", || sc("dot", x.dot(y))));
        out.push(guarded("norm_inf_scaled", || sc("norm_inf_scaled", x.norm_inf_scaled(y))));
        out.push(guarded("norm_one_scaled", || sc("norm_one_scaled", x.norm_one_scaled(y))));
        out.push(guarded("norm_inf_diff", || sc("norm_inf_diff", x.norm_inf_diff(y))));
        let d2: f64 = x.iter().zip(y).map(|(a, b)| (a - b) * (a - b)).sum();
        if is_square(d2) { out.push(guarded("dist", || sc("dist", x.dist(y)))); }
        let s2: f64 = x.iter().zip(y).map(|(a, b)| (a * b) * (a * b)).sum();
        if is_square(s2) { out.push(guarded("norm_scaled", || sc("norm_scaled", x.norm_scaled(y)))); }
        let vc = |op: &str, w: &[f64], extra: Value| { let mut e = json!({"op": op, "kind": "vector", "x": xi, "y": yi, "out": qv(w)}); for (k, v) in extra.as_object().unwrap() { e[k] = v.clone(); } e };
        out.push(guarded("hadamard", || { let mut w = x.clone(); w.hadamard(y); vc("hadamard", &w, json!({})) }));
        out.push(guarded("copy_from", || { let mut w = x.clone(); w.copy_from(y); vc("copy_from", &w, json!({})) }));
        out.push(guarded("scalarop_from", || { let mut w = x.clone(); w.scalarop_from(|t| 2.0 * t + 1.0, y); vc("scalarop_from", &w, json!({})) }));
        for (a, b) in [(1.0, 0.0), (2.0, -1.0), (0.0, 3.0), (-1.0, 1.0)] {
            out.push(guarded("axpby", || { let mut w = x.clone(); w.axpby(a, y, b); vc("axpby", &w, json!({"a": a as i64, "b": b as i64})) }));
        }
    } }
    // three and four vector kernels, sampled
    for _ in 0..if thorough { 4000 } else { 600 } {
        let n = rng.gen_range(0..=4usize);
        let mut rv = |rng: &mut StdRng| -> Vec<f64> { (0..n).map(|_| rng.gen_range(-3i32..=3) as f64).collect() };
        let (x, y, w0, z) = (rv(&mut rng), rv(&mut rng), rv(&mut rng), rv(&mut rng));
        let (a, b) = (rng.gen_range(-2i32..=2) as f64, rng.gen_range(-2i32..=2) as f64);
        out.push(guarded("waxpby", || { let mut w = x.clone(); w.waxpby(a, &y, b, &w0);
            json!({"op": "waxpby", "kind": "vector", "x": iv(&x), "y": iv(&y), "w": iv(&w0), "a": a as i64, "b": b as i64, "out": qv(&w)}) }));
        out.push(guarded("dot_shifted", || { let r = <[f64] as VectorMath<f64>>::dot_shifted(&x, &y, &w0, &z, a);
            json!({"op": "dot_shifted", "kind": "scalar", "x": iv(&x), "z": iv(&x), "s": iv(&y), "dz": iv(&w0), "ds": iv(&z), "a": a as i64, "res": q(r)}) }));
    }
    // non-finite inputs
    for k in 0..3usize {
        let mut x = vec![1.0, -7.0, 2.0];
        x[k] = f64::NAN;
        out.push(guarded("norm_inf_nan", || json!({"op": "norm_inf_nan", "kind": "special", "res": q(x.norm_inf())})));
        out.push(guarded("is_finite_bad", || json!({"op": "is_finite_bad", "kind": "special", "res": x.is_finite()})));
        x[k] = f64::NEG_INFINITY;
        out.push(guarded("is_finite_bad", || json!({"op": "is_finite_bad", "kind": "special", "res": x.is_finite()})));
    }
    out
}
