//! spec -> impl replay for Presolve.tla (C09).
#![allow(non_snake_case)]
use crate::gen;
use crate::observer;
use crate::problem::*;
use clarabel::solver::*;
use rand::rngs::StdRng;
use rand::{Rng, SeedableRng};
use serde_json::{json, Value};
use std::panic::{catch_unwind, AssertUnwindSafe};

fn cone_of(kind: &str, d: usize) -> ConeSpec {
    match kind {
        "Zero" => ConeSpec::Zero(d),
        "NN" => ConeSpec::Nonneg(d),
        "SOC" => ConeSpec::Soc(d),
        "Exp" => ConeSpec::Exp,
        "Pow" => ConeSpec::Pow(0.5),
        "GenPow" => ConeSpec::GenPow(vec![0.5, 0.5], 1),
        "PSD" => ConeSpec::Psd(if d == 1 { 1 } else { 2 }),
        _ => panic!("kind"),
    }
}
fn kind_of(c: &ConeSpec) -> (String, usize) {
    let k = match c {
        ConeSpec::Zero(_) => "Zero", ConeSpec::Nonneg(_) => "NN", ConeSpec::Soc(_) => "SOC", ConeSpec::Exp => "Exp",
        ConeSpec::Pow(_) => "Pow", ConeSpec::GenPow(_, _) => "GenPow", ConeSpec::Psd(_) => "PSD",
    };
    (k.to_string(), c.numel())
}
/// the bound is a process-wide setting: half of the time it is set from another thread than the one that builds the solver
fn set_inf_somewhere(v: f64, salt: usize) {
    if salt % 2 == 0 { clarabel::set_infinity(v); } else { std::thread::spawn(move || clarabel::set_infinity(v)).join().unwrap(); }
}
fn bound_val(s: &str) -> f64 { if s == "1e10" { 1e10 } else { 1e20 } }

pub fn replay_one(b: &Value, rng: &mut StdRng) -> Option<String> {
    let cones: Vec<ConeSpec> = b["cones"].as_array().unwrap().iter()
        .map(|c| cone_of(c[0].as_str().unwrap(), c[1].as_u64().unwrap() as usize)).collect();
    let m: usize = cones.iter().map(|c| c.numel()).sum();
    let bcls: Vec<&str> = b["bcls"].as_array().unwrap().iter().map(|v| v.as_str().unwrap()).collect();
    let presolve = b["presolve"].as_bool().unwrap();
    let exp = &b["expect"];
    let n = 2usize;
    // planted feasible problem; vacuous (non-finite) rows carry z0 = 0
    let x0: Vec<f64> = (0..n).map(|_| gen::normal(rng)).collect();
    let a: Vec<Vec<f64>> = (0..m).map(|_| (0..n).map(|_| rng.gen_range(-2i32..=2) as f64).collect()).collect();
    let mut s0 = vec![];
    let mut z0 = vec![];
    for c in &cones { s0.extend(gen::interior(c, rng, false)); z0.extend(gen::interior(c, rng, true)); }
    let mut bb = vec![0.0; m];
    for i in 0..m {
        bb[i] = match bcls[i] { "fin" => s0[i] + (0..n).map(|j| a[i][j] * x0[j]).sum::<f64>(), // "at or above": half of the instances sit exactly at the bound
            "big" => if rng.gen::<bool>() { 1e15 } else { 1e10 }, "neg" => if rng.gen::<bool>() { -1e30 } else { -1e20 },
            // (at or above the bound: exactly at it, far above it, the largest finite number, IEEE infinity)
            _ => [1e30, 1e20, 1e20, f64::MAX, f64::INFINITY][rng.gen_range(0..5)] };
        if bcls[i] != "fin" { z0[i] = 0.0; }
    }
    // now and then an infeasible instance (a vacuous-looking row 0'x + s = -1 in a nonnegative cone): dropped rows are
    // reinstated in the same way whatever the verdict
    let mut a = a;
    if rng.gen::<f64>() < 0.2 {
        let mut off = 0;
        for c in &cones {
            if let ConeSpec::Nonneg(d) = c { if let Some(i) = (off..off + d).find(|i| bcls[*i] == "fin") { for j in 0..n { a[i][j] = 0.0; } bb[i] = -1.0; break; } }
            off += c.numel();
        }
    }
    let mut q = vec![0.0; n];
    for j in 0..n { q[j] = -(0..m).map(|i| a[i][j] * z0[i]).sum::<f64>() - x0[j]; } // P = I: q = -(x0 + A'z0)
    let mut pid = vec![vec![0.0; n]; n];
    for j in 0..n { pid[j][j] = 1.0; }
    let p = Problem { P: Csc::from_dense(&pid, n, n), q, A: Csc::from_dense(&a, m, n), b: bb.clone(), cones: cones.clone(),
                      settings: json!({"presolve_enable": presolve, "equilibrate_enable": false}), tag: "presolve".into() };
    let hist = b["hist"].as_array().unwrap();
    let res = catch_unwind(AssertUnwindSafe(|| -> Option<String> {
        clarabel::default_infinity();
        let mut k = 0;
        while hist[k]["op"] != "new" {
            set_inf_somewhere(bound_val(hist[k]["v"].as_str().unwrap()), m + k);
            k += 1;
        }
        let bound = bound_val(exp["bound"].as_str().unwrap());
        let (P, A) = (p.P.to_clarabel(), p.A.to_clarabel());
        let mut solver = DefaultSolver::new(&P, &p.q, &A, &p.b, &p.clarabel_cones(), p.settings());
        k += 1;
        while hist[k]["op"] != "solve" {
            set_inf_somewhere(bound_val(hist[k]["v"].as_str().unwrap()), m + k);
            k += 1;
        }
        // --- after construction
        let keep_exp: Vec<bool> = exp["keep"].as_array().unwrap().iter().map(|v| v.as_bool().unwrap()).collect();
        let view = clarabel::verif::presolve_view(&solver.data);
        let reduced = exp["reduced"].as_bool().unwrap();
        match (&view, reduced) {
            (None, true) => return Some("model drops rows but no presolver is active".into()),
            (Some(_), false) => return Some("a presolver is active but the model drops no row".into()),
            _ => {}
        }
        if let Some(v) = &view {
            if v.keep != keep_exp { return Some(format!("keep map {:?} but model says {:?}", v.keep, keep_exp)); }
            if v.mreduced != exp["mreduced"].as_u64().unwrap() as usize || v.mfull != m { return Some("mreduced/mfull differ from the model".into()); }
            // (the bound the presolver works with is observed through behaviour below: s at dropped rows and the capped b)
        }
        let rc: Vec<(String, usize)> = solver.data.cones.iter().map(|c| kind_of(&ConeSpec::from_clarabel(c))).collect();
        let rc_exp: Vec<(String, usize)> = exp["rcones"].as_array().unwrap().iter()
            .map(|c| (c[0].as_str().unwrap().to_string(), c[1].as_u64().unwrap() as usize)).collect();
        if rc != rc_exp { return Some(format!("internal cone list {:?} but model says {:?}", rc, rc_exp)); }
        if solver.data.m != exp["mreduced"].as_u64().unwrap() as usize { return Some("internal m differs from the number of kept rows".into()); }
        let kept: Vec<usize> = (0..m).filter(|i| keep_exp[*i]).collect();
        for (pos, &i) in kept.iter().enumerate() {
            let want = bb[i].min(bound);
            if solver.data.b[pos].to_bits() != want.to_bits() {
                return Some(format!("internal b[{}] = {} but min(b, bound at build) = {}", pos, solver.data.b[pos], want));
            }
            // and the internal row of A is the user's row
            for j in 0..n {
                let got = solver.data.A.get_entry((pos, j)).unwrap_or(0.0);
                if got != a[i][j] { return Some(format!("internal A row {} is not user row {}", pos, i)); }
            }
        }
        // --- solve: only when every non-finite row is a dropped nonnegative row
        let solvable = (0..m).all(|i| bcls[i] == "fin" || !keep_exp[i]);
        if !solvable { return None; }
        // (now and then the switch is flipped on the live object first: it was consumed by the constructor - the rows are
        //  gone or kept for good - so the solve and the restored vectors must not depend on it any more)
        if rng.gen::<f64>() < 0.25 { solver.settings.presolve_enable = !solver.settings.presolve_enable; }
        solver.solve();
        let sol = &solver.solution;
        if sol.x.len() != n || sol.s.len() != m || sol.z.len() != m { return Some("returned vectors do not have the user's lengths".into()); }
        for i in 0..m {
            if !keep_exp[i] && !(sol.z[i] == 0.0 && sol.s[i] == bound) {
                return Some(format!("dropped row {}: z = {}, s = {} (bound at build {})", i, sol.z[i], sol.s[i], bound));
            }
        }
        // (whether a planted problem ends Solved is C06's business; here the verdict only has to be the one of the
        //  hand-reduced problem, whose internal data are identical)
        // the kept entries solve the problem with the dropped rows deleted by hand (built from the MODEL's keep map)
        let mut cones_red = vec![];
        let mut off = 0;
        let collapsed: Vec<(String, usize)> = exp["collapsed"].as_array().unwrap().iter()
            .map(|c| (c[0].as_str().unwrap().to_string(), c[1].as_u64().unwrap() as usize)).collect();
        let _ = collapsed;
        for c in &cones {
            let k = c.numel();
            let nk = (off..off + k).filter(|i| keep_exp[*i]).count();
            if nk == k { cones_red.push(c.clone()); } else if nk > 0 { cones_red.push(ConeSpec::Nonneg(nk)); }
            off += k;
        }
        let a_red: Vec<Vec<f64>> = kept.iter().map(|&i| a[i].clone()).collect();
        let p_red = Problem { P: p.P.clone(), q: p.q.clone(), A: Csc::from_dense(&a_red, kept.len(), n),
                              b: kept.iter().map(|&i| bb[i]).collect(), cones: cones_red,
                              settings: json!({"presolve_enable": false, "equilibrate_enable": false}), tag: "hand-reduced".into() };
        let (P2, A2) = (p_red.P.to_clarabel(), p_red.A.to_clarabel());
        let mut s2 = DefaultSolver::new(&P2, &p_red.q, &A2, &p_red.b, &p_red.clarabel_cones(), p_red.settings());
        s2.solve();
        if s2.solution.status != sol.status || s2.solution.iterations != sol.iterations {
            return Some(format!("ends {:?} after {} iterations but the hand-reduced problem (same internal data) ends {:?} after {}",
                                sol.status, sol.iterations, s2.solution.status, s2.solution.iterations));
        }
        // ... and so are the figures reported about it (residual normalisation included)
        let same_bits = |a: f64, b: f64| a.to_bits() == b.to_bits() || (a.is_nan() && b.is_nan());
        if !(same_bits(sol.r_prim, s2.solution.r_prim) && same_bits(sol.r_dual, s2.solution.r_dual) && same_bits(sol.obj_val, s2.solution.obj_val)
             && same_bits(sol.obj_val_dual, s2.solution.obj_val_dual)) {
            return Some(format!("reported (r_prim, r_dual, obj, obj_dual) = ({:e}, {:e}, {}, {}) but the hand-reduced problem (same internal data) reports ({:e}, {:e}, {}, {})",
                                sol.r_prim, sol.r_dual, sol.obj_val, sol.obj_val_dual, s2.solution.r_prim, s2.solution.r_dual, s2.solution.obj_val, s2.solution.obj_val_dual));
        }
        if sol.status != SolverStatus::Solved { return None; }
        let s_red: Vec<f64> = kept.iter().map(|&i| sol.s[i]).collect();
        let z_red: Vec<f64> = kept.iter().map(|&i| sol.z[i]).collect();
        let o = observer::observe(&p_red, &sol.x, &s_red, &z_red, &vec![false; kept.len()], f64::INFINITY);
        if !(o.pres < 1e-6 && o.dres < 1e-6 && o.gap_rel < 1e-6 && o.smin > -1e-9 && o.zmin > -1e-9) {
            return Some(format!("kept entries are not a solution of the hand-reduced problem: pres {:e} dres {:e} gap {:e} smin {:e} zmin {:e}",
                                o.pres, o.dres, o.gap_rel, o.smin, o.zmin));
        }
        let (o1, o2) = (sol.obj_val, s2.solution.obj_val);
        if (o1 - o2).abs() > 1e-6 * (1.0 + o1.abs().max(o2.abs())) {
            return Some(format!("objective {} differs from the hand-reduced problem's {}", o1, o2));
        }
        None
    }));
    clarabel::default_infinity();
    match res {
        Ok(r) => r,
        Err(e) => Some(format!("panic: {}", crate::rec_ipm::panic_msg(e))),
    }
}

/// Histories of the module-level bound that the model's two values do not cover: an infinite bound set after a small one.
fn infinite_bound_histories() -> Vec<String> {
    let mut bad = vec![];
    let res = catch_unwind(AssertUnwindSafe(|| {
        let mut out = vec![];
        let a = Csc::from_dense(&[vec![1.0], vec![1.0], vec![1.0]], 3, 1);
        let pm = Csc::from_dense(&[vec![1.0]], 1, 1);
        let p = Problem { P: pm, q: vec![1.0], A: a, b: vec![50.0, f64::INFINITY, 1e30], cones: vec![ConeSpec::Nonneg(3)],
                          settings: json!({"presolve_enable": true, "equilibrate_enable": false}), tag: "infbound".into() };
        let (P, A) = (p.P.to_clarabel(), p.A.to_clarabel());
        // (with an infinite bound nothing lies strictly above the contracted bound: every row is kept, the code's reading)
        let inf = f64::INFINITY;
        for (hist, want_m, want_b) in [(vec![10.0, inf], 3usize, vec![50.0, inf, 1e30]), (vec![inf, 10.0], 0, vec![]), (vec![inf], 3, vec![50.0, inf, 1e30]), (vec![10.0, 1e25], 1, vec![50.0])] {
            clarabel::default_infinity();
            for v in &hist { clarabel::set_infinity(*v); }
            let solver = DefaultSolver::new(&P, &p.q, &A, &p.b, &p.clarabel_cones(), p.settings());
            if clarabel::get_infinity().to_bits() != hist.last().unwrap().to_bits() { out.push(format!("after set_infinity{:?} the bound in force is {}", hist, clarabel::get_infinity())); }
            if solver.data.m != want_m || solver.data.b != want_b { out.push(format!("after set_infinity{:?}: internal rows {:?} but the rows below the bound are {:?}", hist, solver.data.b, want_b)); }
        }
        clarabel::default_infinity();
        out
    }));
    clarabel::default_infinity();
    match res { Ok(v) => bad.extend(v), Err(e) => bad.push(format!("panic: {}", crate::rec_ipm::panic_msg(e))) }
    bad
}

/// The same rule in single precision: the solver is generic over the float type, the bound is a module-level f64.  A row whose
/// right-hand side equals the bound (as the solver's float type sees it) is dropped, one just below it is kept.
fn single_precision_histories() -> Vec<String> {
    let mut bad = vec![];
    let res = catch_unwind(AssertUnwindSafe(|| {
        let mut out = vec![];
        for bound in [1e20f64, 1e6, 4096.0, 1e30] {
            clarabel::default_infinity();
            clarabel::set_infinity(bound);
            let bt = bound as f32;
            let below = bt * 0.999;     // clearly below the bound (the code contracts the bound by 10 machine epsilons of the float type before comparing)
            let b: Vec<f32> = vec![3.0, bt, below, f32::INFINITY, bt * 2.0];
            let want: Vec<bool> = b.iter().map(|v| *v >= bt).collect();   // dropped rows
            let A = clarabel::algebra::CscMatrix::<f32>::new(5, 1, vec![0, 5], vec![0, 1, 2, 3, 4], vec![1.0; 5]);
            let P = clarabel::algebra::CscMatrix::<f32>::new(1, 1, vec![0, 1], vec![0], vec![1.0]);
            let q = vec![1.0f32];
            let st = clarabel::solver::DefaultSettingsBuilder::<f32>::default().verbose(false).presolve_enable(true).equilibrate_enable(false).build().unwrap();
            let mut solver = clarabel::solver::DefaultSolver::<f32>::new(&P, &q, &A, &b, &[clarabel::solver::SupportedConeT::NonnegativeConeT(5)], st);
            let kept = want.iter().filter(|d| !**d).count();
            if solver.data.m != kept { out.push(format!("single precision, bound {}: {} internal rows but {} of the right-hand sides {:?} lie below the bound", bound, solver.data.m, kept, b)); continue; }
            solver.solve();
            let sol = &solver.solution;
            if sol.s.len() != 5 || sol.z.len() != 5 { out.push(format!("single precision, bound {}: returned s / z have lengths {} / {}", bound, sol.s.len(), sol.z.len())); continue; }
            for i in 0..5 {
                if want[i] && !(sol.z[i] == 0.0 && sol.s[i] == bt) { out.push(format!("single precision, bound {}: dropped row {} returns s = {}, z = {} (expected the bound and 0)", bound, i, sol.s[i], sol.z[i])); }
            }
        }
        clarabel::default_infinity();
        out
    }));
    clarabel::default_infinity();
    match res { Ok(v) => bad.extend(v), Err(e) => bad.push(format!("panic: {}", crate::rec_ipm::panic_msg(e))) }
    bad
}

pub fn replay_file(path: &str, out: &str, seed: u64) -> Value {
    let text = std::fs::read_to_string(path).expect("behaviours");
    let mut rng = StdRng::seed_from_u64(seed);
    let mut bad = vec![];
    let (mut n, mut solved_cmp) = (0usize, 0usize);
    let mut distinct = std::collections::HashSet::new();
    for line in text.lines() {
        if line.trim().is_empty() { continue; }
        let b: Value = serde_json::from_str(line).expect("json");
        n += 1;
        if b["expect"]["reduced"].as_bool().unwrap() { distinct.insert(line.to_string()); solved_cmp += 1; }
        if let Some(m) = replay_one(&b, &mut rng) {
            let class = m.split(|c: char| c.is_ascii_digit() || c == '[').next().unwrap_or("").trim().replace(' ', "_");
            bad.push(json!({"behaviour": b, "mismatch": m, "class": class}));
        }
    }
    if n > 1 {
        for m in infinite_bound_histories() {
            bad.push(json!({"behaviour": {"cones": [], "bcls": [], "presolve": true, "hist": [], "expect": {}, "infinite_bound_history": true}, "mismatch": m, "class": "infinite_bound_history"}));
        }
        for m in single_precision_histories() {
            bad.push(json!({"behaviour": {"cones": [], "bcls": [], "presolve": true, "hist": [], "expect": {}, "single_precision_history": true}, "mismatch": m, "class": "single_precision_bound"}));
        }
    }
    crate::write_lines(out, &bad);
    json!({"behaviours": n, "mismatches": bad.len(), "distinct_nontrivial": distinct.len(), "with_reduction": solved_cmp})
}
