//! impl -> spec recorder for Equil.tla (C10): constructs solvers on badly scaled random data and
//! logs the equilibration state found in the public `solver.data`.
#![allow(non_snake_case)]
use crate::fenc::*;
use crate::gen::{self, GenOpts};
use crate::problem::*;
use clarabel::solver::*;
use rand::rngs::StdRng;
use rand::{Rng, SeedableRng};
use serde_json::{json, Value};
use std::panic::{catch_unwind, AssertUnwindSafe};

pub fn equil_problem(rng: &mut StdRng) -> Problem {
    let o = GenOpts { nmax: 6, max_cones: 4, soc_max: 5, psd_max: 3, density: 0.7, ..Default::default() };
    // (a quarter of the problems carry an equality block of several rows: scalar cones keep one factor PER ROW)
    let mut p = if rng.gen::<f64>() < 0.25 {
        let mut cl = vec![ConeSpec::Zero(rng.gen_range(2..=4)), ConeSpec::Nonneg(rng.gen_range(1..=3))];
        if rng.gen::<bool>() { cl.push(ConeSpec::Soc(rng.gen_range(3..=5))); }
        if rng.gen::<bool>() { cl.swap(0, 1); }
        let nn = rng.gen_range(2..=5);
        gen::planted_with_cones(rng, &o, nn, cl)
    } else { gen::planted_feasible(rng, &o) };
    let (m, n) = (p.m(), p.n());
    let mut a = p.A.to_dense();
    let mut pd = crate::observer::sym_dense(&p.P);
    // rows / columns spanning up to 30 orders of magnitude (entry by entry: cones are NOT respected on purpose)
    let span = [0.0, 3.0, 8.0, 15.0][rng.gen_range(0..4)];
    for i in 0..m {
        let s = 10f64.powf(gen::unif(rng, -span, span));
        for j in 0..n { a[i][j] *= s; }
        p.b[i] *= s;
    }
    for j in 0..n {
        let s = 10f64.powf(gen::unif(rng, -span / 2.0, span / 2.0));
        for i in 0..m { a[i][j] *= s; }
        for i in 0..n { pd[i][j] *= s; pd[j][i] *= s; }
        p.q[j] *= s;
    }
    // rows of almost, but not exactly, equal size: the scalings inside a non-scalar cone differ in the fourth digit only
    if rng.gen::<f64>() < 0.15 {
        for i in 0..m {
            let nrm = a[i].iter().fold(0.0f64, |u, v| u.max(v.abs()));
            if nrm > 0.0 { let f = (1.0 + 2e-4 * gen::unif(rng, -1.0, 1.0)) / nrm; for j in 0..n { a[i][j] *= f; } p.b[i] *= f; }
        }
    }
    // a hugely negative finite right-hand side is an ordinary number (only +bound and above are capped)
    if rng.gen::<f64>() < 0.08 && m > 0 { let i = rng.gen_range(0..m); p.b[i] = [-3e24, -1e20, -7.5e30][rng.gen_range(0..3)]; }
    // a right-hand side at or above the infinity bound (presolve is off in this corpus: the entry is capped and kept)
    if rng.gen::<f64>() < 0.12 && m > 0 { let i = rng.gen_range(0..m); p.b[i] = [1e20, 3e25, f64::MAX][rng.gen_range(0..3)]; }
    // zero rows and columns, empty P, zero q
    if rng.gen::<f64>() < 0.4 && m > 0 { let i = rng.gen_range(0..m); for j in 0..n { a[i][j] = 0.0; } }
    if rng.gen::<f64>() < 0.3 && m > 1 { let i = rng.gen_range(0..m); for j in 0..n { a[i][j] = 0.0; } }
    if rng.gen::<f64>() < 0.3 { let j = rng.gen_range(0..n); for i in 0..m { a[i][j] = 0.0; } for i in 0..n { pd[i][j] = 0.0; pd[j][i] = 0.0; } }
    if rng.gen::<f64>() < 0.25 { for i in 0..n { for j in 0..n { pd[i][j] = 0.0; } } }
    if rng.gen::<f64>() < 0.15 { for v in p.q.iter_mut() { *v = 0.0; } }
    for i in 0..n { for j in 0..i { pd[i][j] = 0.0; } }
    p.P = Csc::from_dense(&pd, n, n);
    p.A = Csc::from_dense(&a, m, n);
    let mut s = serde_json::Map::new();
    s.insert("presolve_enable".into(), json!(false));
    s.insert("chordal_decomposition_enable".into(), json!(false));
    if rng.gen::<f64>() < 0.15 { s.insert("equilibrate_enable".into(), json!(false)); }
    s.insert("equilibrate_max_iter".into(), json!([0u32, 1, 3, 10, 10, 25][rng.gen_range(0..6)]));
    // (the last three windows do not contain 1: the bounds are the user's, whatever they are)
    let (mn, mx) = [(1e-4, 1e4), (1.0, 1.0), (1e-2, 1e2), (1e-1, 1e6), (1e-8, 1.0), (1e-4, 0.5), (2.0, 1e4), (3.0, 3.0)][rng.gen_range(0..8)];
    s.insert("equilibrate_min_scaling".into(), json!(mn));
    s.insert("equilibrate_max_scaling".into(), json!(mx));
    p.settings = Value::Object(s);
    p.tag = "equil".into();
    p
}

pub fn event(run: usize, p: &Problem) -> Value {
    let st = p.settings();
    let (P, A) = (p.P.to_clarabel(), p.A.to_clarabel());
    let cones = p.clarabel_cones();
    let res = catch_unwind(AssertUnwindSafe(|| {
        // "+upd": the right-hand side (which no scaling depends on) reaches the solver through the partial update forms, and
        // the cost vector is rewritten with its own values: the stored data must still be the scaled user data
        let bound = clarabel::get_infinity();
        let upd = p.tag.contains("+upd") && p.b.iter().all(|v| v.abs() < bound);
        let solver = if upd {
            let b0: Vec<f64> = p.b.iter().enumerate().map(|(i, v)| 0.5 * v + (i as f64 + 1.0)).collect();
            let mut sv = DefaultSolver::new(&P, &p.q, &A, &b0, &cones, st.clone());
            if sv.is_data_update_allowed() {
                // (half of the time a setup-time switch is flipped on the live object first: it was consumed by the constructor)
                if run % 6 == 1 { sv.settings.equilibrate_enable = !sv.settings.equilibrate_enable; }
                let ib: Vec<usize> = (0..p.b.len()).rev().collect();
                let vb: Vec<f64> = ib.iter().map(|&i| p.b[i]).collect();
                if run % 2 == 0 { sv.update_b(&(ib, vb)).expect("update_b"); } else { sv.update_b(&std::iter::zip(&ib, &vb)).expect("update_b"); }
                let iq: Vec<usize> = (0..p.q.len()).rev().collect();
                let vq: Vec<f64> = iq.iter().map(|&i| p.q[i]).collect();
                if run % 4 < 2 { sv.update_q(&std::iter::zip(&iq, &vq)).expect("update_q"); } else { sv.update_q(&(iq, vq)).expect("update_q"); }
                // the matrices are rewritten with their own values, entry by entry, through the owned (indices, values) form
                let ia: Vec<usize> = (0..A.nzval.len()).rev().collect();
                let va: Vec<f64> = ia.iter().map(|&i| A.nzval[i]).collect();
                if !ia.is_empty() { sv.update_A(&(ia, va)).expect("update_A"); }
                let pt = P.to_triu();
                let ip: Vec<usize> = (0..pt.nzval.len()).rev().collect();
                let vp: Vec<f64> = ip.iter().map(|&i| pt.nzval[i]).collect();
                if !ip.is_empty() && pt.nzval.len() == P.nzval.len() { sv.update_P(&(ip, vp)).expect("update_P"); }
                sv
            } else { DefaultSolver::new(&P, &p.q, &A, &p.b, &cones, st.clone()) }
        } else { DefaultSolver::new(&P, &p.q, &A, &p.b, &cones, st.clone()) };
        // "+again": the (public) equilibration routine is run a second time on the solver's data; it is cumulative - the
        // scalings it records afterwards must still relate the stored data to the user's
        let mut solver = solver;
        if p.tag.contains("+again") {
            use clarabel::solver::traits::ProblemData;
            let (cones_ref, settings_ref) = (&solver.cones, &solver.settings);
            solver.data.equilibrate(cones_ref, settings_ref);
        }
        let d = &solver.data;
        let eq = &d.equilibration;
        let (m, n) = (p.m(), p.n());
        let same_pattern = d.P.colptr == p.P.colptr && d.P.rowval == p.P.rowval && d.A.colptr == p.A.colptr
            && d.A.rowval == p.A.rowval && d.q.len() == n && d.b.len() == m && eq.d.len() == n && eq.e.len() == m;
        let mut pairs: Vec<Value> = vec![];
        if same_pattern {
            for j in 0..n {
                for k in p.P.colptr[j]..p.P.colptr[j + 1] {
                    let i = p.P.rowval[k];
                    pairs.push(json!([fj(d.P.nzval[k]), fj(eq.c * eq.d[i] * p.P.nzval[k] * eq.d[j])]));
                }
                for k in p.A.colptr[j]..p.A.colptr[j + 1] {
                    let i = p.A.rowval[k];
                    pairs.push(json!([fj(d.A.nzval[k]), fj(eq.e[i] * p.A.nzval[k] * eq.d[j])]));
                }
                pairs.push(json!([fj(d.q[j]), fj(eq.c * eq.d[j] * p.q[j])]));
            }
            // (right-hand sides at or above the infinity bound are capped at it before they are scaled)
            for i in 0..m { pairs.push(json!([fj(d.b[i]), fj(eq.e[i] * p.b[i].min(bound))])); }
        }
        // zero rows / columns of the INPUT
        let ad = p.A.to_dense();
        let pdn = crate::observer::sym_dense(&p.P);
        let zero_row: Vec<bool> = (0..m).map(|i| (0..n).all(|j| ad[i][j] == 0.0)).collect();
        let zero_col: Vec<bool> = (0..n).map(|j| (0..m).all(|i| ad[i][j] == 0.0) && (0..n).all(|i| pdn[i][j] == 0.0)).collect();
        // cone layout of the internal (collapsed) cone list
        let mut layout = vec![];
        let mut scalar_row = vec![false; m];
        let mut off = 0;
        for c in d.cones.iter().map(ConeSpec::from_clarabel) {
            let k = c.numel();
            let scalar = matches!(c, ConeSpec::Zero(_) | ConeSpec::Nonneg(_));
            layout.push(json!({"kind": c.tag(), "lo": off + 1, "hi": off + k, "scalar": scalar}));
            for i in off..off + k { scalar_row[i] = scalar; }
            off += k;
        }
        // (the constructor caps right-hand sides at the infinity bound whatever the settings: "untouched" is modulo that cap)
        let bcap: Vec<f64> = p.b.iter().map(|v| v.min(bound)).collect();
        let user_bits = format!("{}|{}|{}|{}", hexv(&p.P.nzval), hexv(&p.A.nzval), hexv(&p.q), hexv(&bcap));
        let int_bits = format!("{}|{}|{}|{}", hexv(&d.P.nzval), hexv(&d.A.nzval), hexv(&d.q), hexv(&d.b));
        json!({"ev": "Equilibrated", "run": run, "enable": st.equilibrate_enable,
               "min": fj(st.equilibrate_min_scaling), "max": fj(st.equilibrate_max_scaling), "iters": st.equilibrate_max_iter,
               "d": fjv(&eq.d), "e": fjv(&eq.e), "c": fj(eq.c), "dinv": fjv(&eq.dinv), "einv": fjv(&eq.einv),
               "recip_d": fjv(&eq.d.iter().map(|x| 1.0 / x).collect::<Vec<_>>()),
               "recip_e": fjv(&eq.e.iter().map(|x| 1.0 / x).collect::<Vec<_>>()),
               "zero_row": zero_row, "zero_col": zero_col, "scalar_row": scalar_row, "cones": layout,
               "pairs": pairs, "same_pattern": same_pattern, "user_bits": user_bits, "int_bits": int_bits})
    }));
    match res {
        Ok(v) => v,
        Err(e) => json!({"ev": "Panic", "run": run, "msg": crate::rec_ipm::panic_msg(e)}),
    }
}

pub fn record(seed: u64, count: usize) -> (Vec<Value>, Vec<Value>, Value) {
    let mut rng = StdRng::seed_from_u64(seed);
    let mut lines = vec![];
    let mut cases = vec![];
    let mut nonsc = 0;
    for run in 0..count {
        let mut p = equil_problem(&mut rng);
        if run % 3 == 1 { p.tag.push_str("+upd"); }
        if run % 10 == 2 { p.tag.push_str("+again"); }
        let e = event(run, &p);
        if e["cones"].as_array().map(|c| c.iter().any(|x| x["scalar"] == false)).unwrap_or(false) && e["enable"] == true { nonsc += 1; }
        lines.push(e);
        cases.push(json!({"run": run, "problem": p}));
    }
    (lines, cases, json!({"runs": count, "with_nonscalar_cone": nonsc}))
}
