//! Ordered-float encoding (DESIGN D2): f64 -> [nan, hi22, mid21, lo21].
use serde_json::{json, Value};

pub fn ford(x: f64) -> [u32; 4] {
    if x.is_nan() {
        return [1, 0, 0, 0];
    }
    let x = if x == 0.0 { 0.0 } else { x }; // canonicalise -0.0
    let b = x.to_bits();
    let u = if b >> 63 == 1 { !b } else { b ^ 0x8000_0000_0000_0000 };
    [0, (u >> 42) as u32, ((u >> 21) & 0x1f_ffff) as u32, (u & 0x1f_ffff) as u32]
}

pub fn fj(x: f64) -> Value {
    let a = ford(x);
    json!([a[0], a[1], a[2], a[3]])
}

pub fn fjv(x: &[f64]) -> Value {
    Value::Array(x.iter().map(|v| fj(*v)).collect())
}

pub fn hex(x: f64) -> String {
    format!("{:016x}", x.to_bits())
}

pub fn hexv(x: &[f64]) -> String {
    let mut s = String::with_capacity(16 * x.len());
    for v in x {
        s.push_str(&hex(*v));
    }
    s
}

/// 64-bit FNV-1a digest of the bit patterns of several vectors (iterate identity).
pub fn digest(parts: &[&[f64]]) -> String {
    let mut h: u64 = 0xcbf29ce484222325;
    for p in parts {
        for v in p.iter() {
            for byte in v.to_bits().to_le_bytes() {
                h ^= byte as u64;
                h = h.wrapping_mul(0x100000001b3);
            }
        }
        h ^= 0xff;
        h = h.wrapping_mul(0x100000001b3);
    }
    format!("{:016x}", h)
}
