//! impl -> spec recorder for the IPM control skeleton (C01-C04, C06, C07, C20):
//! drives one real solve with hooks on and converts hook events into Trace_IPM events.
#![allow(non_snake_case)]
use crate::fenc::*;
use crate::gen;
use rand::rngs::StdRng;
use rand::SeedableRng;
use crate::observer::{self, Obs};
use crate::problem::*;
use clarabel::solver::*;
use clarabel::verif::{self, Event};
use serde_json::{json, Value};
use std::panic::{catch_unwind, AssertUnwindSafe};

pub const STATUS_NAMES: [&str; 11] = [
    "Unsolved", "Solved", "PrimalInfeasible", "DualInfeasible", "AlmostSolved",
    "AlmostPrimalInfeasible", "AlmostDualInfeasible", "MaxIterations", "MaxTime",
    "NumericalError", "InsufficientProgress",
];

pub fn status_code(s: SolverStatus) -> usize {
    s as usize
}

#[derive(Default, Clone)]
pub struct RunOpts {
    pub capture_print: bool,
    pub script: Vec<(String, u32, f64)>,
    pub detail: usize,
    pub solve_twice: bool,
}

pub struct SolveResult {
    pub status: usize,
    pub iterations: u32,
    pub x: Vec<f64>,
    pub s: Vec<f64>,
    pub z: Vec<f64>,
    pub obj: f64,
    pub obj_d: f64,
    pub r_prim: f64,
    pub r_dual: f64,
    pub print: Option<String>,
    pub bound: f64,
    pub tau_post: f64,
    pub time_same: bool,     // solution.solve_time is info.solve_time, bit for bit
    pub iters_same: bool,    // solution.iterations is info.iterations
    pub kappa_post: f64,
}

pub struct RunOut {
    pub lines: Vec<Value>,
    pub result: Option<SolveResult>,
    pub panic: Option<String>,
    pub events: Vec<Event>,
    pub obs: Option<Obs>,
    pub icones: Vec<ConeSpec>,
    pub equil: Option<(Vec<f64>, Vec<f64>, Vec<f64>, f64)>,
}

pub fn panic_msg(e: Box<dyn std::any::Any + Send>) -> String {
    if let Some(s) = e.downcast_ref::<&str>() {
        s.to_string()
    } else if let Some(s) = e.downcast_ref::<String>() {
        s.clone()
    } else {
        "panic".into()
    }
}

/// rows dropped as infinite bounds by the property's rule (C09): presolve on, the row sits in a
/// cone that is a nonnegative orthant (incl. 1-dimensional SOC/PSD), and b >= bound
pub fn dropped_rows(p: &Problem, presolve: bool, bound: f64) -> Vec<bool> {
    let mut d = vec![false; p.m()];
    if !presolve {
        return d;
    }
    let mut off = 0;
    for c in &p.cones {
        let k = c.numel();
        let nn = matches!(c, ConeSpec::Nonneg(_)) || matches!(c, ConeSpec::Soc(1)) || matches!(c, ConeSpec::Psd(1));
        if nn {
            for i in off..off + k {
                if p.b[i] >= bound {
                    d[i] = true;
                }
            }
        }
        off += k;
    }
    d
}

fn tolset(ga: f64, gr: f64, fe: f64, ia: f64, kt: f64) -> Value {
    json!({"gap_abs": fj(ga), "gap_rel": fj(gr), "feas": fj(fe), "neg_infeas_abs": fj(-ia),
           "kt_thresh": fj(kt.recip() * 1000.0)})
}

pub fn begin_event(run: usize, p: &Problem, st: &DefaultSettings<f64>, sym: bool, pd: bool, opts: &RunOpts) -> Value {
    // an injected sleep longer than the time limit: the limit is exceeded during that pass
    let sleep = opts.script.iter().find(|(pt, _, ms)| pt == "sleep" && ms / 1000.0 > st.time_limit);
    json!({"ev": "Begin", "run": run, "tag": p.tag, "c": {
        "sleep_iter": sleep.map(|s| s.1 as i64).unwrap_or(-1),
        "maxiter": st.max_iter, "sym": sym, "pd": pd,
        "full": tolset(st.tol_gap_abs, st.tol_gap_rel, st.tol_feas, st.tol_infeas_abs, st.tol_ktratio),
        "reduced": tolset(st.reduced_tol_gap_abs, st.reduced_tol_gap_rel, st.reduced_tol_feas,
                          st.reduced_tol_infeas_abs, st.reduced_tol_ktratio),
        "eps100": fj(f64::EPSILON * 100.0), "tiny": fj(1e-300),
        "tol_feas100": fj(st.tol_feas * 100.0),
        "time_limit": fj(st.time_limit),
        "min_switch": fj(st.min_switch_step_length),
        "min_term0": fj(f64::max(0.0, st.min_terminate_step_length)),
    }})
}

/// exact check of sigma == (1-alpha)^3 as computed by powi: recompute with the same operation
fn sigma_ok(alpha: f64, sigma: f64) -> bool {
    let t = 1.0 - alpha;
    let cube = t * t * t;
    // powi(3) may be evaluated as t*t*t or (t*t)*t; both orders give the same here; allow 2 ulps
    let d = (cube - sigma).abs();
    d <= 4.0 * f64::EPSILON * cube.abs().max(f64::MIN_POSITIVE) || (cube == sigma)
}

/// strict-interior margins of the internal iterate (s in int K, z in int K*) over the internal cone
/// list: (min over nonnegative cones [exact], min over all other cones, both relative)
pub fn iterate_margins(cones: &[ConeSpec], s: &[f64], z: &[f64]) -> [f64; 4] {
    let mut out = [f64::INFINITY; 4];
    let mut off = 0;
    for c in cones {
        let k = c.numel();
        let (sv, zv) = (&s[off..off + k], &z[off..off + k]);
        match c {
            ConeSpec::Zero(_) => {}
            ConeSpec::Nonneg(_) => {
                // raw smallest entry: exact, no scaling that could itself underflow
                out[0] = out[0].min(sv.iter().fold(f64::INFINITY, |a, x| a.min(*x)));
                out[2] = out[2].min(zv.iter().fold(f64::INFINITY, |a, x| a.min(*x)));
            }
            _ => {
                out[1] = out[1].min(observer::margin(c, sv, false));
                out[3] = out[3].min(observer::margin(c, zv, true));
            }
        }
        off += k;
    }
    out
}

pub fn convert_events(evs: &[Event], st: &DefaultSettings<f64>, icones: &[ConeSpec]) -> Vec<Value> {
    let mut out = vec![];
    for e in evs {
        let v = match e.name {
            "SaveScalars" => json!({"ev": "SaveScalars", "iter": e.i[0]}),
            "LoopTop" => {
                let f = &e.f;
                let (dot_bz, dot_qx) = (f[21], f[22]);
                let has_m = e.v.len() == 3 && icones.iter().map(|c| c.numel()).sum::<usize>() == e.v[1].len();
                let mg = if has_m { iterate_margins(icones, &e.v[1], &e.v[2]) } else { [f64::INFINITY; 4] };
                // complementarity measure over the barrier degree of the cone list (degrees by definition of the cones:
                // nonnegative = dimension, second-order = 1, PSD(n) = n, exponential and power = 3, generalised power = len(alpha) + 1)
                let degree: usize = icones.iter().map(|c| match c { ConeSpec::Zero(_) => 0, ConeSpec::Nonneg(k) => *k, ConeSpec::Soc(_) => 1,
                    ConeSpec::Psd(n) => *n, ConeSpec::Exp | ConeSpec::Pow(_) => 3, ConeSpec::GenPow(al, _) => al.len() + 1 }).sum();
                let mu_obs = (f[23] + f[19] * f[20]) / (degree as f64 + 1.0);
                json!({"ev": "LoopTop", "iter": e.i[0], "e": {
                    "valid": true, "has_margins": has_m,
                    "smin_nn": fj(mg[0]), "smin_o": fj(mg[1]), "zmin_nn": fj(mg[2]), "zmin_o": fj(mg[3]),
                    "interior_floor": fj(-1e-13),
                    "mu": fj(f[0]), "mu_obs": fj(mu_obs), "alpha": fj(f[1]), "alpha_zero": f[1] == 0.0, "sigma": fj(f[2]),
                    "cost_p": fj(f[3]), "cost_d": fj(f[4]), "res_p": fj(f[5]), "res_d": fj(f[6]),
                    "res_pinf": fj(f[7]), "res_dinf": fj(f[8]), "gap_abs": fj(f[9]), "gap_rel": fj(f[10]),
                    "kt": fj(f[11]),
                    "prev_cost_p": fj(f[12]), "prev_cost_d": fj(f[13]),
                    "prev_res_p": fj(f[14]), "prev_res_d": fj(f[15]),
                    "prev_gap_abs": fj(f[16]), "prev_gap_rel": fj(f[17]),
                    "prev_res_p100": fj(f[14] * 100.0), "prev_res_d100": fj(f[15] * 100.0),
                    "time": fj(f[18]), "tau": fj(f[19]), "kappa": fj(f[20]),
                    "dot_bz": fj(dot_bz), "dot_qx": fj(dot_qx),
                    "thr_p": fj(-st.tol_infeas_rel * dot_bz), "thr_d": fj(-st.tol_infeas_rel * dot_qx),
                    "rthr_p": fj(-st.reduced_tol_infeas_rel * dot_bz),
                    "rthr_d": fj(-st.reduced_tol_infeas_rel * dot_qx),
                    "digest": if e.v.len() == 3 { digest(&[&e.v[0], &e.v[1], &e.v[2], &[f[19], f[20]]]) } else { String::new() },
                }, "digest": if e.v.len() == 3 { digest(&[&e.v[0], &e.v[1], &e.v[2], &[f[19], f[20]]]) } else { String::new() }})
            }
            "PrintStatus" => json!({"ev": "PrintStatus", "iter": e.i[0]}),
            "Check" => json!({"ev": "Check", "iter": e.i[0], "status": e.i[1], "iterations": e.i[2]}),
            "Rollback" => json!({"ev": "Rollback", "tau": fj(e.f[0]), "kappa": fj(e.f[1]),
                "cost_p": fj(e.f[2]), "cost_d": fj(e.f[3]), "res_p": fj(e.f[4]), "res_d": fj(e.f[5]), "gap_abs": fj(e.f[6]), "gap_rel": fj(e.f[7]),
                "digest": if e.v.len() == 3 { digest(&[&e.v[0], &e.v[1], &e.v[2], &[e.f[0], e.f[1]]]) } else { String::new() }}),
            "SetStatus" => json!({"ev": "SetStatus", "status": e.i[0]}),
            "Ckpt" => json!({"ev": "Ckpt", "kind": e.i[0], "out": e.i[1]}),
            "Scale" => json!({"ev": "Scale", "iter": e.i[0], "ok": e.i[1] != 0, "dual": e.i[2] != 0}),
            "KKTUpdate" => json!({"ev": "KKTUpdate", "iter": e.i[0], "ok": e.i[1] != 0}),
            "Affine" => json!({"ev": "Affine", "iter": e.i[0], "ok": e.i[1] != 0}),
            "Combined" => json!({"ev": "Combined", "iter": e.i[0], "ok": e.i[1] != 0}),
            "Centering" => json!({"ev": "Centering", "iter": e.i[0], "alpha": fj(e.f[0]), "sigma": fj(e.f[1]),
                                   "m": fj(e.f[2]), "sigma_ok": sigma_ok(e.f[0], e.f[1])}),
            "StepLength" => json!({"ev": "StepLength", "iter": e.i[0], "dual": e.i[1] != 0, "alpha": fj(e.f[0])}),
            "SavePrev" => json!({"ev": "SavePrev"}),
            "AddStep" => json!({"ev": "AddStep", "iter": e.i[0], "alpha": fj(e.f[0])}),
            "LoopExit" => json!({"ev": "LoopExit", "iter": e.i[0], "alpha_zero": e.i[1] != 0}),
            "PostInfo" => json!({"ev": "PostInfo", "before": e.i[0], "after": e.i[1]}),
            "PostSolution" => json!({"ev": "PostSolution", "status": e.i[0], "infeasible": e.i[1] != 0,
                                      "iterations": e.i[2]}),
            "PrintFooter" => json!({"ev": "PrintFooter", "status": e.i[0]}),
            _ => continue,
        };
        out.push(v);
    }
    out
}

/// Tokenise the captured print buffer: iteration column of the progress rows, footer status,
/// and whether the overall shape is Banner Config Header Row+ Footer.
pub fn parse_print(buf: &str) -> Value {
    let lines: Vec<&str> = buf.lines().collect();
    let mut rows: Vec<i64> = vec![];
    let mut step_dashes: Vec<bool> = vec![];       // per row: the step column shows dashes instead of a figure
    let mut footer = String::new();
    let mut stage = 0; // 0 banner, 1 config, 2 rows, 3 footer
    let mut shape_ok = true;
    let mut dashes = 0;
    for ln in &lines {
        let t = ln.trim();
        if t.starts_with("-----") {
            dashes += 1;
            continue;
        }
        if t.starts_with("iter ") && t.contains("pcost") {
            if stage > 1 {
                shape_ok = false;
            }
            stage = 2;
            continue;
        }
        if let Some(rest) = t.strip_prefix("Terminated with status = ") {
            if stage != 2 {
                shape_ok = false;
            }
            stage = 3;
            footer = rest.trim().to_string();
            continue;
        }
        if stage == 2 && !t.is_empty() {
            let first = t.split_whitespace().next().unwrap_or("");
            match first.parse::<i64>() {
                Ok(k) => { rows.push(k); step_dashes.push(t.split_whitespace().last().map(|x| x.starts_with("--")).unwrap_or(false)); }
                Err(_) => shape_ok = false,
            }
            continue;
        }
        if t.starts_with("problem:") && stage == 0 {
            stage = 1;
        }
    }
    if stage != 3 || dashes < 4 || rows.is_empty() {
        shape_ok = false;
    }
    json!({"captured": true, "rows": rows, "step_dashes": step_dashes, "footer": footer, "shape_ok": shape_ok})
}

pub fn done_event(run: usize, p: &Problem, st: &DefaultSettings<f64>, r: &SolveResult,
                  post: Option<&Event>) -> (Value, Obs) {
    let dropped = dropped_rows(p, st.presolve_enable, r.bound);
    let lens_ok = r.x.len() == p.n() && r.s.len() == p.m() && r.z.len() == p.m();
    let o = if lens_ok { observer::observe(p, &r.x, &r.s, &r.z, &dropped, r.bound) } else { Obs::default() };
    let (kappa, cscale) = match post {
        Some(e) => (e.f[1], e.f[2]),
        None => (f64::NAN, f64::NAN),
    };
    let sl = 1.0 + 1e-3;
    let rel = 1e-6;
    let absband = |rep: f64, obs: f64, rho: f64| -> (f64, f64) {
        let a = rel * rep.abs().max(obs.abs()) + rho;
        (obs - a, obs + a)
    };
    let (plo, phi) = absband(r.obj, o.pobj, o.obj_rho);
    let (dlo, dhi) = absband(r.obj_d, o.dobj, o.obj_rho);
    let (rplo, rphi) = absband(r.r_prim, o.pres, o.pres_rho);
    let (rdlo, rdhi) = absband(r.r_dual, o.dres, o.dres_rho);
    let gden = 1.0f64.max(o.pobj.abs().min(o.dobj.abs()));
    // certificate quantities (C02), in the solver's documented normalisation
    let bz_s = cscale * kappa * o.bz;
    let qx_s = cscale * kappa * o.qx;
    let lhs_p = kappa * o.norm_Atz / 1.0f64.max(kappa * o.normz);
    let lhs_p_rho = kappa * o.norm_Atz_rho / 1.0f64.max(kappa * o.normz);
    let lhs_d1 = cscale * kappa * o.norm_Px / 1.0f64.max(kappa * o.normx);
    let lhs_d2 = kappa * o.norm_Axs / 1.0f64.max(kappa * (o.normx + o.norms));
    let lhs_d = lhs_d1.max(lhs_d2);
    let lhs_d_rho = (cscale * kappa * o.norm_Px_rho / 1.0f64.max(kappa * o.normx))
        .max(kappa * o.norm_Axs_rho / 1.0f64.max(kappa * (o.normx + o.norms)));
    let bz_s_rho = (cscale * kappa * o.bz_rho).abs();
    let qx_s_rho = (cscale * kappa * o.qx_rho).abs();
    let cert = |tabs: f64, trel: f64| -> Value {
        json!({
            "neg_abs_p": fj(-tabs * (1.0 - 1e-3) + bz_s_rho),
            "thr_rel_p": fj(-trel * bz_s * sl + lhs_p_rho + trel * bz_s_rho),
            "neg_abs_d": fj(-tabs * (1.0 - 1e-3) + qx_s_rho),
            "thr_rel_d": fj(-trel * qx_s * sl + lhs_d_rho + trel * qx_s_rho),
        })
    };
    let print = match &r.print {
        Some(b) => parse_print(b),
        None => json!({"captured": false}),
    };
    // residual / objective figures are compared only when no chordal decomposition is active and
    // the data are finite and representable (the generator knows; recorded in the problem tag)
    let decomposed = p.tag.contains("decomp");
    let v = json!({"ev": "Done", "run": run, "status": r.status, "iterations": r.iterations,
        "n": p.n(), "m": p.m(), "lens": [r.x.len(), r.s.len(), r.z.len()],
        "obj": fj(r.obj), "obj_d": fj(r.obj_d), "r_prim": fj(r.r_prim), "r_dual": fj(r.r_dual),
        "print": print, "time_same": r.time_same, "iters_same": r.iters_same,
        "obs": {
            "compare_obj": lens_ok && !decomposed, "compare_res": lens_ok && !decomposed,
            "pres": fj(o.pres), "dres": fj(o.dres), "gap_abs": fj(o.gap_abs), "gap_rel": fj(o.gap_rel),
            "smin": fj(o.smin), "zmin": fj(o.zmin), "margin_floor": fj(-1e-10), "dropped_ok": o.dropped_ok,
            "thr_feas_p": fj(st.tol_feas * sl + o.pres_rho), "thr_feas_d": fj(st.tol_feas * sl + o.dres_rho),
            "thr_gap_abs": fj(st.tol_gap_abs * sl + 2.0 * o.obj_rho),
            "thr_gap_rel": fj(st.tol_gap_rel * sl + 2.0 * o.obj_rho / gden),
            "rthr_feas_p": fj(st.reduced_tol_feas * sl + o.pres_rho), "rthr_feas_d": fj(st.reduced_tol_feas * sl + o.dres_rho),
            "rthr_gap_abs": fj(st.reduced_tol_gap_abs * sl + 2.0 * o.obj_rho),
            "rthr_gap_rel": fj(st.reduced_tol_gap_rel * sl + 2.0 * o.obj_rho / gden),
            "pobj_lo": fj(plo), "pobj_hi": fj(phi), "dobj_lo": fj(dlo), "dobj_hi": fj(dhi),
            "pres_lo": fj(rplo), "pres_hi": fj(rphi), "dres_lo": fj(rdlo), "dres_hi": fj(rdhi),
            "bz": fj(o.bz), "qx": fj(o.qx), "bz_rho": fj(o.bz_rho), "qx_rho": fj(o.qx_rho), "bz_s": fj(bz_s), "qx_s": fj(qx_s),
            "lhs_p": fj(lhs_p), "lhs_d": fj(lhs_d),
            "f": cert(st.tol_infeas_abs, st.tol_infeas_rel),
            "r": cert(st.reduced_tol_infeas_abs, st.reduced_tol_infeas_rel),
        }});
    (v, o)
}

/// Build + solve with hooks on.  A panic anywhere is data.
pub fn run_ipm(run: usize, p: &Problem, opts: &RunOpts) -> RunOut {
    let mut st = p.settings();
    if opts.capture_print {
        st.verbose = true;
    }
    let P = p.P.to_clarabel();
    let A = p.A.to_clarabel();
    let cones = p.clarabel_cones();
    let bound = clarabel::get_infinity();
    verif::set_script(opts.script.clone());
    verif::set_detail(opts.detail);
    let st2 = st.clone();
    let res = catch_unwind(AssertUnwindSafe(|| {
        // "+prior": the solver object is built on OTHER data of the same pattern (a strictly feasible planted problem, magnitudes
        // 1e9 / 1 / 1e-9 times those of a unit point), solved once, and only then given the recorded problem's q and b through
        // the update API: everything cached by the first solve (norms, verdict, objective, iterate) must be gone
        let prior = p.tag.contains("+prior") && p.b.iter().all(|v| v.abs() < bound) && p.q.iter().all(|v| v.is_finite());
        let mut solver = if prior {
            let mut r2 = StdRng::seed_from_u64(run as u64 ^ 0x9e37);
            let f = [1e9, 1.0, 1e-9][run % 3];
            let mut b0 = vec![]; let mut z0 = vec![];
            for c in &p.cones { b0.extend(gen::interior(c, &mut r2, false)); z0.extend(gen::interior(c, &mut r2, true)); }
            let (atz, _) = observer::mul_t(&p.A, &z0);
            let q0: Vec<f64> = atz.iter().map(|v| -f * v).collect();
            let b0: Vec<f64> = b0.iter().map(|v| f * v).collect();
            let mut sv = DefaultSolver::new(&P, &q0, &A, &b0, &cones, st2);
            if sv.is_data_update_allowed() {
                sv.solve();
                sv.update_q(&p.q).expect("update_q after a prior solve");
                sv.update_b(&p.b).expect("update_b after a prior solve");
                sv
            } else { DefaultSolver::new(&P, &p.q, &A, &p.b, &cones, st.clone()) }
        } else { DefaultSolver::new(&P, &p.q, &A, &p.b, &cones, st2) };
        // "+flip": a setup-time switch is flipped on the live object; it was consumed by the constructor and must be inert now
        if p.tag.contains("+flip") { solver.settings.equilibrate_enable = !solver.settings.equilibrate_enable; }
        // "+touch": the same q and b are written once more through the update API before the solve (flushes the cached
        // norms and goes through the scaling code of the update path); the problem solved is the same
        if p.tag.contains("+touch") && solver.is_data_update_allowed() && p.b.iter().all(|v| v.abs() < bound) {
            solver.update_q(&p.q).expect("update_q with the same data");
            solver.update_b(&p.b).expect("update_b with the same data");
            // ... and the matrices: whole value vectors first, then every entry once more through the (index, value) form
            // in descending index order (the form whose scaling depends on locating each entry's row and column)
            let pt = P.to_triu();
            solver.update_P(&pt.nzval).expect("update_P with the same values");
            solver.update_A(&A.nzval).expect("update_A with the same values");
            let ia: Vec<usize> = (0..A.nzval.len()).rev().collect();
            let va: Vec<f64> = ia.iter().map(|&i| A.nzval[i]).collect();
            if !ia.is_empty() { solver.update_A(&(ia, va)).expect("partial update_A with the same values"); }
            let ip: Vec<usize> = (0..pt.nzval.len()).rev().collect();
            let vp: Vec<f64> = ip.iter().map(|&i| pt.nzval[i]).collect();
            if !ip.is_empty() { solver.update_P(&(ip, vp)).expect("partial update_P with the same values"); }
            let ib: Vec<usize> = (0..p.b.len()).rev().collect();
            let vb: Vec<f64> = ib.iter().map(|&i| p.b[i]).collect();
            if !ib.is_empty() { solver.update_b(&(ib, vb)).expect("partial update_b with the same values"); }
            let iq: Vec<usize> = (0..p.q.len()).rev().collect();
            let vq: Vec<f64> = iq.iter().map(|&i| p.q[i]).collect();
            if !iq.is_empty() { solver.update_q(&(iq, vq)).expect("partial update_q with the same values"); }
        }
        if opts.capture_print {
            use clarabel::io::ConfigurablePrintTarget;
            solver.print_to_buffer();
        }
        let sym = solver_is_symmetric(p);
        let pd = solver_allows_pd(p);
        let icones: Vec<ConeSpec> = solver.data.cones.iter().map(ConeSpec::from_clarabel).collect();
        let eq = (solver.data.equilibration.d.clone(), solver.data.equilibration.e.clone(),
                  solver.data.equilibration.einv.clone(), solver.data.equilibration.c);
        verif::start();
        solver.solve();
        if opts.solve_twice {
            let _ = verif::take();
            verif::start();
            solver.solve();
        }
        let evs = verif::take();
        let print = if opts.capture_print {
            use clarabel::io::ConfigurablePrintTarget;
            solver.get_print_buffer().ok()
        } else {
            None
        };
        let sol = &solver.solution;
        (SolveResult {
            status: status_code(sol.status), iterations: sol.iterations, x: sol.x.clone(), s: sol.s.clone(),
            z: sol.z.clone(), obj: sol.obj_val, obj_d: sol.obj_val_dual, r_prim: sol.r_prim, r_dual: sol.r_dual,
            print, bound, tau_post: solver.variables.τ, kappa_post: solver.variables.κ,
            time_same: sol.solve_time.to_bits() == solver.info.solve_time.to_bits(), iters_same: sol.iterations == solver.info.iterations,
        }, evs, sym, pd, icones, eq)
    }));
    verif::set_script(vec![]);
    match res {
        Ok((r, evs, sym, pd, icones, eq)) => {
            let mut lines = vec![begin_event(run, p, &st, sym, pd, opts)];
            lines.extend(convert_events(&evs, &st, &icones));
            let post = evs.iter().rev().find(|e| e.name == "PostSolution");
            let (d, o) = done_event(run, p, &st, &r, post);
            lines.push(d);
            RunOut { lines, result: Some(r), panic: None, events: evs, obs: Some(o), icones, equil: Some(eq) }
        }
        Err(e) => {
            let _ = verif::take();
            RunOut { lines: vec![], result: None, panic: Some(panic_msg(e)), events: vec![], obs: None, icones: vec![], equil: None }
        }
    }
}

/// cones.is_symmetric() after collapsing: no exp/pow/genpow cone of positive size
pub fn solver_is_symmetric(p: &Problem) -> bool {
    p.cones.iter().all(|c| c.is_symmetric())
}
/// allows_primal_dual_scaling: every cone except generalised power cones
pub fn solver_allows_pd(p: &Problem) -> bool {
    p.cones.iter().all(|c| !matches!(c, ConeSpec::GenPow(_, _)))
}

/// Budget-independence recording (C07): one long run plus runs with max_iter = k.
/// Per pass the pair [iter, digest of (x,s,z,tau,kappa)] is logged; for the long run also the digest
/// of what `unscale` must return for that iterate (normalised by tau and by kappa).
pub fn budget_lines(run: usize, p: &Problem, kmax: u32) -> (Vec<Value>, Option<String>) {
    let opts = RunOpts { detail: 1_000_000, ..Default::default() };
    let long = run_ipm(run, p, &opts);
    if let Some(m) = long.panic {
        return (vec![json!({"ev": "Panic", "run": run, "msg": m})], None);
    }
    let lr = long.result.as_ref().unwrap();
    let (d, e, einv, c) = long.equil.clone().unwrap();
    let st = p.settings();
    let internal_dims = long.events.iter().find(|e| e.name == "LoopTop").map(|e| (e.i[1] as usize, e.i[2] as usize));
    let same_dims = internal_dims == Some((p.n(), p.m()));
    let passes = |evs: &[Event]| -> Vec<Value> {
        evs.iter().filter(|e| e.name == "LoopTop").map(|ev| {
            let (x, s, z) = (&ev.v[0], &ev.v[1], &ev.v[2]);
            let (tau, kappa) = (ev.f[19], ev.f[20]);
            let ret = |scaleinv: f64| -> String {
                let cinv = 1.0 / c;
                let xr: Vec<f64> = (0..x.len()).map(|i| (x[i] * d[i]) * scaleinv).collect();
                let zr: Vec<f64> = (0..z.len()).map(|i| (z[i] * e[i]) * (scaleinv * cinv)).collect();
                let sr: Vec<f64> = (0..s.len()).map(|i| (s[i] * einv[i]) * scaleinv).collect();
                digest(&[&xr, &sr, &zr])
            };
            json!({"iter": ev.i[0], "digest": digest(&[x, s, z, &[tau, kappa]]),
                   "ret_tau": ret(1.0 / tau), "ret_kappa": ret(1.0 / kappa)})
        }).collect()
    };
    // did the long run end INSIDE its last pass (a failing checkpoint after the scaling update / KKT solve / line search), or at
    // the top of it (termination test, or the lack-of-progress checkpoint that follows it immediately)?
    let last_top = long.events.iter().rposition(|e| e.name == "LoopTop").unwrap_or(0);
    let exit_in_pass = long.events[last_top..].iter().any(|e| (e.name == "Ckpt" && e.i.len() >= 2 && e.i[0] >= 1 && e.i[1] == 2) || (e.name == "Scale" && e.i.len() >= 2 && e.i[1] == 0));
    let mut lines = vec![json!({"ev": "Long", "run": run, "passes": passes(&long.events), "exit_in_pass": exit_in_pass,
        "iterations": lr.iterations, "status": STATUS_NAMES[lr.status], "same_dims": same_dims,
        "ret": digest(&[&lr.x, &lr.s, &lr.z]), "maxiter": st.max_iter})];
    let top = lr.iterations.min(kmax);
    for k in 0..=top {
        let mut pk = p.clone();
        pk.settings["max_iter"] = json!(k);
        let sh = run_ipm(run, &pk, &opts);
        match (&sh.result, &sh.panic) {
            (Some(r), _) => lines.push(json!({"ev": "Short", "run": run, "k": k, "passes": passes(&sh.events),
                "iterations": r.iterations, "status": STATUS_NAMES[r.status],
                "ret": digest(&[&r.x, &r.s, &r.z])})),
            (None, Some(m)) => lines.push(json!({"ev": "Panic", "run": run, "msg": m})),
            _ => unreachable!(),
        }
    }
    (lines, Some(STATUS_NAMES[lr.status].to_string()))
}

/// Same-object histories (C07/C05): solve, solve again, lower max_iter to k and solve again.
/// Emits Long (first solve), Resolve (second solve: must be identical), Short (third, budget k).
pub fn resolve_lines(run: usize, p: &Problem, k: u32) -> Vec<Value> {
    let st = p.settings();
    let P = p.P.to_clarabel();
    let A = p.A.to_clarabel();
    let cones = p.clarabel_cones();
    verif::set_detail(1_000_000);
    let res = catch_unwind(AssertUnwindSafe(|| {
        let mut solver = DefaultSolver::new(&P, &p.q, &A, &p.b, &cones, st.clone());
        let eq = (solver.data.equilibration.d.clone(), solver.data.equilibration.e.clone(),
                  solver.data.equilibration.einv.clone(), solver.data.equilibration.c);
        let mut outs = vec![];
        for round in 0..3 {
            if round == 2 {
                solver.settings.max_iter = k;
            }
            verif::start();
            solver.solve();
            let evs = verif::take();
            let sol = &solver.solution;
            outs.push((evs, sol.status as usize, sol.iterations, digest(&[&sol.x, &sol.s, &sol.z])));
        }
        (outs, eq, solver.data.n, solver.data.m)
    }));
    let (outs, (d, e, einv, c), n_int, m_int) = match res {
        Ok(v) => v,
        Err(e) => return vec![json!({"ev": "Panic", "run": run, "msg": panic_msg(e)})],
    };
    let same_dims = n_int == p.n() && m_int == p.m();
    let passes = |evs: &[Event]| -> Vec<Value> {
        evs.iter().filter(|e| e.name == "LoopTop").map(|ev| {
            let (x, s, z) = (&ev.v[0], &ev.v[1], &ev.v[2]);
            let (tau, kappa) = (ev.f[19], ev.f[20]);
            let ret = |scaleinv: f64| -> String {
                let cinv = 1.0 / c;
                let xr: Vec<f64> = (0..x.len()).map(|i| (x[i] * d[i]) * scaleinv).collect();
                let zr: Vec<f64> = (0..z.len()).map(|i| (z[i] * e[i]) * (scaleinv * cinv)).collect();
                let sr: Vec<f64> = (0..s.len()).map(|i| (s[i] * einv[i]) * scaleinv).collect();
                digest(&[&xr, &sr, &zr])
            };
            json!({"iter": ev.i[0], "digest": digest(&[x, s, z, &[tau, kappa]]),
                   "ret_tau": ret(1.0 / tau), "ret_kappa": ret(1.0 / kappa)})
        }).collect()
    };
    let mut lines = vec![];
    for (round, (evs, status, iters, ret)) in outs.iter().enumerate() {
        let name = ["Long", "Resolve", "Short"][round];
        let last_top = evs.iter().rposition(|e| e.name == "LoopTop").unwrap_or(0);
        let exit_in_pass = evs[last_top..].iter().any(|e| (e.name == "Ckpt" && e.i.len() >= 2 && e.i[0] >= 1 && e.i[1] == 2) || (e.name == "Scale" && e.i.len() >= 2 && e.i[1] == 0));
        lines.push(json!({"ev": name, "run": run, "k": k, "passes": passes(evs), "iterations": iters, "exit_in_pass": exit_in_pass,
            "status": STATUS_NAMES[*status], "same_dims": same_dims, "ret": ret, "maxiter": st.max_iter}));
    }
    lines
}
