//! spec -> impl replay for Qdldl.tla (C12): every behaviour TLC exported is executed on the real
//! QDLDLFactorisation and the engine's outputs are compared with the exact rationals of the model.
#![allow(non_snake_case)]
use clarabel::algebra::CscMatrix;
use clarabel::qdldl::*;
use serde_json::{json, Value};
use std::panic::{catch_unwind, AssertUnwindSafe};

fn rat(v: &Value) -> f64 {
    v[0].as_i64().unwrap() as f64 / v[1].as_i64().unwrap() as f64
}

/// upper-triangular CSC from the model's matrix (rows of strings, "x" = absent)
fn build(a: &Value, n: usize) -> CscMatrix<f64> {
    let mut colptr = vec![0usize];
    let mut rowval = vec![];
    let mut nzval = vec![];
    for j in 0..n {
        for i in 0..=j {
            let s = a[i][j].as_str().unwrap();
            if s != "x" {
                rowval.push(i);
                nzval.push(s.parse::<f64>().unwrap());
            }
        }
        colptr.push(rowval.len());
    }
    CscMatrix::new(n, n, colptr, rowval, nzval)
}

fn errname(e: &QDLDLError) -> &'static str {
    match e {
        QDLDLError::IncompatibleDimension => "IncompatibleDimension",
        QDLDLError::EmptyColumn => "EmptyColumn",
        QDLDLError::NotUpperTriangular => "NotUpperTriangular",
        QDLDLError::ZeroPivot => "ZeroPivot",
        QDLDLError::InvalidPermutation => "InvalidPermutation",
    }
}

fn opts(b: &Value, n: usize) -> QDLDLSettings<f64> {
    let perm: Vec<usize> = b["perm"].as_array().unwrap().iter().map(|v| v.as_u64().unwrap() as usize).collect();
    let signs: Vec<i8> = b["signs"].as_array().unwrap().iter().map(|v| v.as_i64().unwrap() as i8).collect();
    let mut builder = QDLDLSettingsBuilder::<f64>::default();
    builder.perm(perm).Dsigns(signs);
    let reg = b["reg"].as_array().unwrap();
    if reg.is_empty() {
        builder.regularize_enable(false);
    } else {
        builder.regularize_enable(true).regularize_eps(rat(&reg[0])).regularize_delta(rat(&reg[1]));
    }
    let _ = n;
    if b.get("logical").and_then(|v| v.as_bool()).unwrap_or(false) {
        builder.logical(true);
    }
    builder.build().unwrap()
}

fn close(a: f64, b: f64) -> bool {
    (a - b).abs() <= 1e-11 * (1.0 + a.abs().max(b.abs()))
}

/// compare a real factorisation with the model's expectation; returns a description of the first mismatch
fn compare(f: &QDLDLFactorisation<f64>, exp: &Value, n: usize, pattern: Option<&Value>, check_solve: bool) -> Option<String> {
    if exp["err"] == "ZeroPivot" && exp["dyadic"] == false {
        // the exact pivot vanishes but the computation involves non-dyadic values: in floating point it may come out
        // as a tiny nonzero number (the model's Dyadic flag); either outcome is a correct floating-point answer
        return None;
    }
    if exp["err"].as_str().unwrap() != "none" {
        return Some(format!("engine returned Ok, model expects {}", exp["err"]));
    }
    if exp["tie"].as_bool().unwrap() {
        return None; // threshold tie: either side of the comparison is acceptable
    }
    for k in 0..n {
        let d = rat(&exp["D"][k]);
        if !close(f.D[k], d) {
            return Some(format!("D[{}] = {} but exact value is {}", k, f.D[k], d));
        }
        if !close(f.Dinv[k] * d, 1.0) {
            return Some(format!("Dinv[{}] = {} is not the reciprocal of {}", k, f.Dinv[k], d));
        }
    }
    // L: strictly lower part, column compressed
    let mut lden = vec![vec![0.0; n]; n];
    let mut lpat = vec![vec![false; n]; n];
    for j in 0..n {
        for p in f.L.colptr[j]..f.L.colptr[j + 1] {
            let i = f.L.rowval[p];
            if i <= j || i >= n {
                return Some(format!("L has an entry at ({},{}) outside the strict lower triangle", i, j));
            }
            lden[i][j] = f.L.nzval[p];
            lpat[i][j] = true;
        }
    }
    for i in 0..n {
        for j in 0..i {
            let l = rat(&exp["L"][i][j]);
            if !close(lden[i][j], l) {
                return Some(format!("L[{},{}] = {} but exact value is {}", i, j, lden[i][j], l));
            }
        }
    }
    if let Some(pat) = pattern {
        if let Some(cols) = pat.as_array() {
            for (k, col) in cols.iter().enumerate() {
                let want: std::collections::BTreeSet<usize> = col.as_array().unwrap().iter().map(|v| v.as_u64().unwrap() as usize - 1).collect();
                let got: std::collections::BTreeSet<usize> = (0..n).filter(|i| lpat[*i][k]).collect();
                if want != got {
                    return Some(format!("structure of L column {}: engine {:?}, elimination-tree fill {:?}", k, got, want));
                }
            }
        }
    }
    if f.positive_inertia() != exp["inertia"].as_u64().unwrap() as usize {
        return Some(format!("positive_inertia {} but {} positive pivots", f.positive_inertia(), exp["inertia"]));
    }
    if f.regularize_count() != exp["cnt"].as_u64().unwrap() as usize {
        return Some(format!("regularize_count {} but {} pivots fall below the threshold", f.regularize_count(), exp["cnt"]));
    }
    if check_solve {
        if let Some(x) = exp["x"].as_array() {
            if !x.is_empty() {
                // (cannot borrow f mutably here; caller solves)
            }
        }
    }
    None
}

/// raw encodings (QdldlRaw.tla): any dimensions, positions below the diagonal, columns stored in either order
fn replay_raw(b: &Value) -> Option<String> {
    let rows = b["rows"].as_u64().unwrap() as usize;
    let cols = b["cols"].as_u64().unwrap() as usize;
    let (mut colptr, mut rowval, mut nzval) = (vec![0usize], vec![], vec![]);
    let mut dense = vec![vec![0.0f64; cols.max(rows)]; cols.max(rows)];
    let mut all_diag = true;
    for j in 0..cols {
        let col = b["colrows"][j].as_array().unwrap();
        let mut has_diag = false;
        for r in col {
            let i = r.as_u64().unwrap() as usize - 1;
            let v = if i == j { 4.0 } else { 1.0 };
            rowval.push(i);
            nzval.push(v);
            if i == j { has_diag = true; }
            if i <= j { dense[i][j] = v; dense[j][i] = v; }
        }
        all_diag &= has_diag;
        colptr.push(rowval.len());
    }
    // built field by field: the constructor would insist on a canonical encoding
    let A = CscMatrix { m: rows, n: cols, colptr, rowval, nzval };
    let mut builder = QDLDLSettingsBuilder::<f64>::default();
    builder.perm((0..cols).collect()).regularize_enable(false);
    let want = b["err"].as_str().unwrap();
    match QDLDLFactorisation::new(&A, Some(builder.build().unwrap())) {
        Err(e) => {
            let got = errname(&e);
            if want != "none" { if got != want { return Some(format!("raw input: engine error {} but model expects {}", got, want)); } return None; }
            // a structurally valid input may still have a zero pivot (absent diagonal entries), nothing else
            if got != "ZeroPivot" || all_diag { return Some(format!("raw input: structurally valid input rejected with {}", got)); }
            None
        }
        Ok(mut f) => {
            if want != "none" { return Some(format!("raw input: engine returned Ok, model expects {}", want)); }
            if all_diag {
                let n = cols;
                let mut x: Vec<f64> = (0..n).map(|i| (i + 1) as f64).collect();
                f.solve(&mut x);
                for i in 0..n {
                    let ax: f64 = (0..n).map(|j| dense[i][j] * x[j]).sum();
                    if (ax - (i + 1) as f64).abs() > 1e-12 * (1.0 + (i + 1) as f64) {
                        return Some(format!("raw input (columns stored {}): solve does not reproduce b: (A x)[{}] = {}", b["order"], i, ax));
                    }
                }
            }
            None
        }
    }
}

pub fn replay_one(b: &Value) -> Option<String> {
    let n = b["n"].as_u64().unwrap() as usize;
    let kind = b["kind"].as_str().unwrap();
    let res = catch_unwind(AssertUnwindSafe(|| -> Option<String> {
        if kind == "raw" { return replay_raw(b); }
        if kind == "new" {
            let A = build(&b["A"], n);
            let exp = &b["expect"];
            match QDLDLFactorisation::new(&A, Some(opts(b, n))) {
                Err(e) => {
                    if exp["err"].as_str().unwrap() != errname(&e) {
                        return Some(format!("engine error {} but model expects {}", errname(&e), exp["err"]));
                    }
                    None
                }
                Ok(_) if b.get("logical").and_then(|v| v.as_bool()).unwrap_or(false) => {
                    if exp["err"].as_str().unwrap() != "none" {
                        return Some(format!("logical factorisation returned Ok, model expects {}", exp["err"]));
                    }
                    None
                }
                Ok(mut f) => {
                    if let Some(m) = compare(&f, exp, n, Some(&b["pattern"]), true) {
                        return Some(m);
                    }
                    if !exp["tie"].as_bool().unwrap() && exp["err"] == "none" {
                        let x = exp["x"].as_array().unwrap();
                        let mut rhs: Vec<f64> = (0..n).map(|i| (i + 1) as f64).collect();
                        f.solve(&mut rhs);
                        for i in 0..n {
                            if !close(rhs[i], rat(&x[i])) {
                                return Some(format!("solve: x[{}] = {} but exact solution is {}", i, rhs[i], rat(&x[i])));
                            }
                        }
                        // scaling the matrix by a power of two commutes with every operation of the factorisation (no
                        // regularisation thresholds are involved here): same L bit for bit, D scaled, whatever the magnitude
                        if b["reg"].as_array().unwrap().is_empty() {
                            for sc in [2f64.powi(-70), 2f64.powi(70)] {
                                let mut A2 = A.clone();
                                for v in A2.nzval.iter_mut() { *v *= sc; }
                                match QDLDLFactorisation::new(&A2, Some(opts(b, n))) {
                                    Err(e) => return Some(format!("the matrix scaled by {:e} fails with {} although the unscaled matrix factors", sc, errname(&e))),
                                    Ok(f2) => {
                                        if f2.L.nzval.iter().zip(&f.L.nzval).any(|(u, v)| u.to_bits() != v.to_bits()) || f2.D.iter().zip(&f.D).any(|(u, v)| u.to_bits() != (v * sc).to_bits()) {
                                            return Some(format!("the matrix scaled by {:e} does not give the same L and the scaled D", sc));
                                        }
                                    }
                                }
                            }
                        }
                        // the default ordering (AMD, chosen by the engine when no permutation is supplied): without
                        // regularisation the solution of A x = b does not depend on the ordering; an ordering under which
                        // a pivot vanishes is reported as ZeroPivot (legitimately ordering dependent), anything else is wrong
                        if b["reg"].as_array().unwrap().is_empty() {
                            let signs: Vec<i8> = b["signs"].as_array().unwrap().iter().map(|v| v.as_i64().unwrap() as i8).collect();
                            let mut bd = QDLDLSettingsBuilder::<f64>::default();
                            bd.Dsigns(signs).regularize_enable(false);
                            match QDLDLFactorisation::new(&A, Some(bd.build().unwrap())) {
                                Err(QDLDLError::ZeroPivot) => {}
                                Err(e) => return Some(format!("default (AMD) ordering: engine error {} on a matrix that factors under the supplied ordering", errname(&e))),
                                Ok(mut fa) => {
                                    let mut rhs: Vec<f64> = (0..n).map(|i| (i + 1) as f64).collect();
                                    fa.solve(&mut rhs);
                                    // (an intermediate pivot of this ordering may be tiny rather than zero: then the result is non-finite or huge, not comparable)
                                    let dmin = fa.D.iter().fold(f64::INFINITY, |a, d| a.min(d.abs()));
                                    if dmin > 1e-9 {
                                        for i in 0..n {
                                            if !(rhs[i] - rat(&x[i])).abs().le(&(1e-8 * (1.0 + rhs[i].abs().max(rat(&x[i]).abs())))) {
                                                return Some(format!("default (AMD) ordering: solve gives x[{}] = {} but the exact solution is {}", i, rhs[i], rat(&x[i])));
                                            }
                                        }
                                    }
                                }
                            }
                        }
                    }
                    None
                }
            }
        } else {
            // history: factor A0, apply operations; at every refactor compare with the model and with a
            // fresh factorisation of the model's current matrix (bit for bit)
            let mut cur = build(&b["A0"], n);
            let mut f = match QDLDLFactorisation::new(&cur, Some(opts(b, n))) {
                Ok(f) => f,
                Err(e) => return Some(format!("initial factorisation failed with {} on a history the model allows", errname(&e))),
            };
            for op in b["hist"].as_array().unwrap() {
                let name = op["op"].as_str().unwrap();
                if name == "refactor" {
                    let exp = &op["expect"];
                    let r = f.refactor();
                    let mut o2 = opts(b, n);
                    o2.logical = false;
                    let fresh = QDLDLFactorisation::new(&cur, Some(o2));
                    match (r, &fresh) {
                        (Err(e), _) => {
                            if exp["err"].as_str().unwrap() != errname(&e) {
                                return Some(format!("refactor error {} but model expects {}", errname(&e), exp["err"]));
                            }
                            if let Ok(_) = fresh {
                                return Some("refactor failed but a fresh factorisation of the same matrix succeeds".into());
                            }
                            return None; // the model stops a history at an error
                        }
                        (Ok(()), Err(e)) => return Some(format!("refactor succeeded but fresh factorisation fails with {}", errname(e))),
                        (Ok(()), Ok(fr)) => {
                            if let Some(m) = compare(&f, exp, n, None, false) {
                                return Some(format!("after refactor: {}", m));
                            }
                            let same = f.D.iter().zip(&fr.D).all(|(a, b)| a.to_bits() == b.to_bits())
                                && f.L.nzval.iter().zip(&fr.L.nzval).all(|(a, b)| a.to_bits() == b.to_bits())
                                && f.L.rowval == fr.L.rowval && f.L.colptr == fr.L.colptr
                                && f.positive_inertia() == fr.positive_inertia()
                                && f.regularize_count() == fr.regularize_count();
                            if !same {
                                return Some("refactor after value updates is not bit-identical to a fresh factorisation of the updated matrix".into());
                            }
                        }
                    }
                } else {
                    let idx = op["idx"].as_u64().unwrap() as usize;
                    let val = op["val"].as_i64().unwrap() as f64;
                    match name {
                        "update" => {
                            // (every third update is written as ONE call listing every entry, in descending index order, with the
                            //  values the matrix already has except for this one: the engine must honour the index list)
                            cur.nzval[idx] = val;
                            if (idx + val.abs() as usize) % 3 == 0 {
                                let all: Vec<usize> = (0..cur.nzval.len()).rev().collect();
                                let vals: Vec<f64> = all.iter().map(|&i| cur.nzval[i]).collect();
                                f.update_values(&all, &vals);
                            } else { f.update_values(&[idx], &[val]); }
                        }
                        "scale" => { f.scale_values(&[idx], val); cur.nzval[idx] *= val; }
                        "offset" => {
                            let sg = op["sgn"].as_i64().unwrap() as i8;
                            f.offset_values(&[idx], val, &[sg]);
                            if sg > 0 { cur.nzval[idx] += val; } else if sg < 0 { cur.nzval[idx] -= val; }
                        }
                        _ => return Some(format!("unknown op {}", name)),
                    }
                }
            }
            None
        }
    }));
    match res {
        Ok(r) => r,
        Err(e) => Some(format!("engine panicked: {}", crate::rec_ipm::panic_msg(e))),
    }
}

/// stable key of a mismatch class, used for known-finding matching
pub fn mismatch_class(b: &Value, msg: &str) -> String {
    let _ = b;
    msg.split(|c: char| c.is_ascii_digit()).next().unwrap_or("").trim().replace(' ', "_")
}

pub fn replay_file(path: &str, out: &str) -> Value {
    let text = std::fs::read_to_string(path).expect("behaviours");
    let mut bad = vec![];
    let mut n = 0usize;
    let mut nontrivial = std::collections::HashSet::new();
    for line in text.lines() {
        if line.trim().is_empty() {
            continue;
        }
        let b: Value = serde_json::from_str(line).expect("json");
        n += 1;
        let nt = if b["kind"] == "new" { b["expect"]["err"] == "none" } else { true };
        if nt {
            nontrivial.insert(line.len() as u64 * 1_000_003 + fxhash(line));
        }
        if let Some(m) = replay_one(&b) {
            bad.push(json!({"behaviour": b, "mismatch": m, "class": mismatch_class(&b, &m)}));
        }
    }
    crate::write_lines(out, &bad);
    json!({"behaviours": n, "mismatches": bad.len(), "distinct_nontrivial": nontrivial.len()})
}

fn fxhash(s: &str) -> u64 {
    let mut h: u64 = 0xcbf29ce484222325;
    for b in s.bytes() {
        h ^= b as u64;
        h = h.wrapping_mul(0x100000001b3);
    }
    h
}
