//! impl -> spec recorder for Direction.tla / Trace_Direction.tla: every search direction of recorded solves (hook StepSolved,
//! emitted inside DefaultKKTSystem::solve after the step has been composed) is re-evaluated against the block rows of the
//! linearised homogeneous embedding that do not depend on the accuracy of the sparse solve.  The arithmetic is the observer's
//! (own loops over the solver's *internal* data); every comparison reaches TLC as <<|defect|, running rounding bound>>.
#![allow(non_snake_case)]
use crate::fenc::*;
use crate::gen::{self, GenOpts};
use crate::observer;
use crate::problem::*;
use crate::rec_more;
use clarabel::solver::*;
use clarabel::verif;
use rand::rngs::StdRng;
use rand::SeedableRng;
use serde_json::{json, Value};
use std::panic::{catch_unwind, AssertUnwindSafe};

const EPS: f64 = 1.1102230246251565e-16;
const TINY: f64 = 1e-290;

fn finite(v: &[f64]) -> bool { v.iter().all(|x| x.is_finite()) }

/// (|P| u) . v with P symmetric given as dense rows, and the plain product
fn quad(pd: &[Vec<f64>], u: &[f64], v: &[f64]) -> (f64, f64) {
    let (mut acc, mut abs) = (0.0, 0.0);
    for i in 0..u.len() {
        if u[i] == 0.0 { continue; }
        for j in 0..v.len() {
            let t = u[i] * pd[i][j] * v[j];
            acc += t;
            abs += t.abs();
        }
    }
    (acc, abs)
}

/// worst component of |a_i - b_i| against tol_i: returns the pair of the component with the largest excess ratio
fn worst(a: &[f64], b: &[f64], tol: &[f64]) -> (f64, f64) {
    let mut best = (0.0f64, TINY);
    let mut ratio = -1.0f64;
    if a.len() != b.len() { return (f64::NAN, 0.0); }
    for i in 0..a.len() {
        let d = (a[i] - b[i]).abs();
        let r = if d.is_nan() { f64::INFINITY } else { d / tol[i] };
        if r > ratio { ratio = r; best = (d, tol[i]); }
    }
    best
}

struct Internal { pd: Vec<Vec<f64>>, A: Csc, q: Vec<f64>, b: Vec<f64>, u: f64 }

struct Step { dtau: f64, dkappa: f64 }

fn pair(e: f64, t: f64) -> Value { json!([fj(e), fj(t)]) }

/// one StepSolved event -> one Dir line (None when a logged quantity is not finite: the statement is about finite steps)
fn dir_line(run: usize, pass: i64, e: &verif::Event, d: &Internal, aff: Option<&Step>, cen: Option<&[f64]>) -> Option<(Value, Step)> {
    let combined = e.i[0] != 0;
    let (dtau, dkappa, rhs_tau, rhs_kappa, tau, kappa) = (e.f[0], e.f[1], e.f[2], e.f[3], e.f[4], e.f[5]);
    let (x1, z1, x2, z2, dx, dz, _ds, x, z, s, rhs_x, rhs_z) =
        (&e.v[0], &e.v[1], &e.v[2], &e.v[3], &e.v[4], &e.v[5], &e.v[6], &e.v[7], &e.v[8], &e.v[9], &e.v[10], &e.v[11]);
    if !(e.f.iter().all(|v| v.is_finite()) && e.v.iter().all(|v| finite(v))) { return None; }
    let n = x.len();
    let m = z.len();
    let u = d.u;
    let mut checks = serde_json::Map::new();

    // ---- composition of the step from the two reduced solves
    let cx: Vec<f64> = (0..n).map(|i| x1[i] + dtau * x2[i]).collect();
    let tx: Vec<f64> = (0..n).map(|i| 4.0 * EPS * (x1[i].abs() + (dtau * x2[i]).abs()) + TINY).collect();
    let (ex, tlx) = worst(dx, &cx, &tx);
    checks.insert("compose_x".into(), pair(ex, tlx));
    let cz: Vec<f64> = (0..m).map(|i| z1[i] + dtau * z2[i]).collect();
    let tz: Vec<f64> = (0..m).map(|i| 4.0 * EPS * (z1[i].abs() + (dtau * z2[i]).abs()) + TINY).collect();
    let (ez, tlz) = worst(dz, &cz, &tz);
    checks.insert("compose_z".into(), pair(ez, tlz));

    // ---- tau row:  q'dx + b'dz + dkappa + 2 xi'P dx - (xi'P xi) dtau + rhs_tau = 0
    let xi: Vec<f64> = x.iter().map(|v| v / tau).collect();
    let xim: Vec<f64> = (0..n).map(|i| xi[i] - x2[i]).collect();
    let ax1: Vec<f64> = (0..n).map(|i| x1[i].abs() + (dtau * x2[i]).abs()).collect();
    let az1: Vec<f64> = (0..m).map(|i| z1[i].abs() + (dtau * z2[i]).abs()).collect();
    let qdx = observer::dot(&d.q, dx);
    let bdz = observer::dot(&d.b, dz);
    let (xpdx, _) = quad(&d.pd, &xi, dx);
    let (xpx, xpx_abs) = quad(&d.pd, &xi, &xi);
    let defect = qdx + bdz + dkappa + 2.0 * xpdx - xpx * dtau + rhs_tau;
    let aq: f64 = (0..n).map(|i| d.q[i].abs() * ax1[i]).sum();
    let ab: f64 = (0..m).map(|i| d.b[i].abs() * az1[i]).sum();
    let axi: Vec<f64> = xi.iter().map(|v| v.abs()).collect();
    let (_, ap1) = quad(&d.pd, &axi, &ax1);
    let (_, ap2) = quad(&d.pd, &xim, &xim);
    let (_, ap3) = quad(&d.pd, x2, x2);
    let scale = aq + ab + 2.0 * ap1 + dtau.abs() * (ap2 + ap3 + xpx_abs) + rhs_tau.abs() + (rhs_kappa / tau).abs()
        + (kappa / tau * dtau).abs() + dkappa.abs();
    checks.insert("tau_row".into(), pair(defect.abs(), u * scale + TINY));

    // ---- kappa row: tau dkappa + kappa dtau + rhs_kappa = 0
    let dk = tau * dkappa + kappa * dtau + rhs_kappa;
    checks.insert("kappa_row".into(), pair(dk.abs(), 16.0 * EPS * ((tau * dkappa).abs() + (kappa * dtau).abs() + rhs_kappa.abs()) + TINY));

    // ---- right-hand sides: residuals of the embedding at the iterate the call was given
    let (px, pxa) = observer::dense_mul(&d.pd, x);
    let (atz, atza) = observer::mul_t(&d.A, z);
    let (axv, axa) = observer::mul(&d.A, x);
    let (factor, fabs) = match (combined, cen) {
        (true, Some(c)) => (1.0 - c[1], (1.0 - c[1]).abs() + 2.0 * EPS),
        (true, None) => (f64::NAN, 0.0),
        _ => (1.0, 1.0),
    };
    let want_x: Vec<f64> = (0..n).map(|i| factor * (-px[i] - atz[i] - d.q[i] * tau)).collect();
    let tol_x: Vec<f64> = (0..n).map(|i| u * fabs * (pxa[i] + atza[i] + (d.q[i] * tau).abs()) + TINY).collect();
    let (e1, t1) = worst(rhs_x, &want_x, &tol_x);
    checks.insert("rhs_x".into(), pair(e1, t1));
    let want_z: Vec<f64> = (0..m).map(|i| factor * (axv[i] + s[i] - d.b[i] * tau)).collect();
    let tol_z: Vec<f64> = (0..m).map(|i| u * fabs * (axa[i] + s[i].abs() + (d.b[i] * tau).abs()) + TINY).collect();
    let (e2, t2) = worst(rhs_z, &want_z, &tol_z);
    checks.insert("rhs_z".into(), pair(e2, t2));
    let qx = observer::dot(&d.q, x);
    let bz = observer::dot(&d.b, z);
    let xpx_full = observer::dot(x, &px);
    let rtau = qx + bz + kappa + xpx_full / tau;
    let rtau_abs = observer::absdot(&d.q, x) + observer::absdot(&d.b, z) + kappa.abs() + observer::absdot(x, &pxa) / tau.abs();
    checks.insert("rhs_tau".into(), pair((rhs_tau - factor * rtau).abs(), u * fabs * rtau_abs + TINY));
    let (want_k, abs_k) = match (combined, cen, aff) {
        (false, _, _) => (tau * kappa, (tau * kappa).abs()),
        (true, Some(c), Some(a)) => {
            // c = [alpha, sigma, m, mu]
            (-(c[1] * c[3]) + c[2] * a.dtau * a.dkappa + tau * kappa, (c[1] * c[3]).abs() + (c[2] * a.dtau * a.dkappa).abs() + (tau * kappa).abs())
        }
        _ => (f64::NAN, 0.0),
    };
    checks.insert("rhs_kappa".into(), pair((rhs_kappa - want_k).abs(), 16.0 * EPS * abs_k + TINY));

    let line = json!({"ev": "Dir", "run": run, "pass": pass, "dir": if combined { "combined" } else { "affine" },
                      "has_affine": aff.is_some() && cen.is_some(), "n": n, "m": m, "checks": Value::Object(checks)});
    Some((line, Step { dtau, dkappa }))
}

fn problem_for(k: usize, rng: &mut StdRng) -> Problem {
    match k % 10 {
        // family G (with its far-from-origin sub-family)
        0 | 1 => rec_more::family_g(rng),
        // all cone kinds incl. PSD and generalised power cones, random settings (equilibration / regularisation / refinement toggled)
        2 => {
            let o = GenOpts { nmax: 10, ..Default::default() };
            let mut p = gen::planted_feasible(rng, &o);
            p.settings = gen::random_settings(rng, p.is_symmetric());
            p.tag = "dir+settings".into();
            p
        }
        // large quadratic cost as the solver sees it: equilibration off, objective scaled by 10^U(2, 6)
        3 => {
            let o = GenOpts { nmax: 12, psd_max: 0, p_kind: 2, mag_exp: 1.0, ..Default::default() };
            let mut p = gen::planted_feasible(rng, &o);
            let f = 10f64.powf(gen::unif(rng, 2.0, 6.0));
            for v in p.P.nzval.iter_mut() { *v *= f; }
            for v in p.q.iter_mut() { *v *= f; }
            p.settings = json!({"equilibrate_enable": false});
            p.tag = "dir+bigP".into();
            p
        }
        4 => { let mut p = gen::planted_pinf(rng, &GenOpts::default()); p.tag = "dir+pinf".into(); p }
        5 => { let mut p = gen::planted_dinf(rng, &GenOpts::default()); p.tag = "dir+dinf".into(); p }
        // extreme but finite magnitudes, rows / columns spread over decades, objective scaled by 1e+-8, many second-order cones
        6 => crate::gen_family(rng, "extreme", 8),
        7 => crate::gen_family(rng, "badscale", 8),
        8 => crate::gen_family(rng, "objscale", 8),
        _ => crate::gen_family(rng, "socsym", 10),
    }
}

/// lines, cases, meta
pub fn lines(seed: u64, count: usize) -> (Vec<Value>, Vec<Value>, Value) {
    let mut rng = StdRng::seed_from_u64(seed ^ 0xd1ec);
    let mut out = vec![];
    let mut cases = vec![];
    let (mut skipped, mut with_p, mut nonsym, mut panics, mut combined) = (0usize, 0usize, 0usize, 0usize, 0usize);
    for run in 0..count {
        let p = problem_for(run, &mut rng);
        cases.push(json!({"run": run, "problem": p}));
        let (l, st) = run_one(run, &p);
        skipped += st.0; panics += st.1;
        if !l.is_empty() && p.P.nnz() > 0 { with_p += 1; }
        if !l.is_empty() && !p.is_symmetric() { nonsym += 1; }
        combined += l.iter().filter(|e| e["dir"] == "combined").count();
        out.extend(l);
    }
    let meta = json!({"runs": count, "events": out.len(), "combined": combined, "skipped_nonfinite": skipped, "runs_with_P": with_p,
                      "runs_nonsymmetric": nonsym, "panics": panics});
    (out, cases, meta)
}

/// (lines, (skipped, panics))
pub fn run_one(run: usize, p: &Problem) -> (Vec<Value>, (usize, usize)) {
    let st = p.settings();
    let P = p.P.to_clarabel();
    let A = p.A.to_clarabel();
    let cones = p.clarabel_cones();
    let res = catch_unwind(AssertUnwindSafe(|| {
        let mut solver = DefaultSolver::new(&P, &p.q, &A, &p.b, &cones, st);
        let pc = Csc::from_clarabel(&solver.data.P);
        let ac = Csc::from_clarabel(&solver.data.A);
        let size = (pc.n + ac.m + pc.nnz() + ac.nnz() + 8) as f64;
        let d = Internal { pd: observer::sym_dense(&pc), A: ac, q: solver.data.q.clone(), b: solver.data.b.clone(), u: 64.0 * size * EPS };
        verif::set_step_log(true);
        verif::start();
        solver.solve();
        let evs = verif::take();
        verif::set_step_log(false);
        (evs, d)
    }));
    verif::set_step_log(false);
    let (evs, d) = match res {
        Ok(v) => v,
        Err(_) => { let _ = verif::take(); return (vec![], (0, 1)); }    // panics are C04's subject
    };
    let mut out = vec![];
    let mut skipped = 0;
    let mut aff: Option<Step> = None;
    let mut cen: Option<Vec<f64>> = None;
    let mut pass = 0i64;
    let mut aff_skipped = false;
    for e in &evs {
        match e.name {
            "KKTUpdate" => { aff = None; cen = None; aff_skipped = false; pass = e.i[0]; }
            "Centering" => { cen = Some(e.f.clone()); }
            "StepSolved" => {
                let combined = e.i[0] != 0;
                if combined && aff_skipped { skipped += 1; continue; }
                match dir_line(run, pass, e, &d, aff.as_ref(), cen.as_deref()) {
                    Some((l, s)) => { out.push(l); if !combined { aff = Some(s); } }
                    None => { skipped += 1; if !combined { aff = None; aff_skipped = true; } }
                }
            }
            _ => {}
        }
    }
    (out, (skipped, 0))
}
