//! impl -> spec recorder for Direction.tla / Trace_Direction.tla: every search direction of recorded solves (hook StepSolved,
//! emitted inside DefaultKKTSystem::solve after the step has been composed) is re-evaluated against the block rows of the
//! linearised homogeneous embedding that do not depend on the accuracy of the sparse solve.  The arithmetic is the observer's
//! (own loops over the solver's *internal* data); every comparison reaches TLC as <<|defect|, running rounding bound>>.
#![allow(non_snake_case)]
use crate::fenc::*;
use crate::gen::{self, GenOpts};
use crate::observer;
use crate::problem::*;
use crate::rec_more;
use clarabel::solver::*;
use clarabel::verif;
use rand::rngs::StdRng;
use rand::{Rng, SeedableRng};
use serde_json::{json, Value};
use std::panic::{catch_unwind, AssertUnwindSafe};

const EPS: f64 = 1.1102230246251565e-16;
const TINY: f64 = 1e-290;

fn finite(v: &[f64]) -> bool { v.iter().all(|x| x.is_finite()) }

/// (|P| u) . v with P symmetric given as dense rows, and the plain product
fn quad(pd: &[Vec<f64>], u: &[f64], v: &[f64]) -> (f64, f64) {
    let (mut acc, mut abs) = (0.0, 0.0);
    for i in 0..u.len() {
        if u[i] == 0.0 { continue; }
        for j in 0..v.len() {
            let t = u[i] * pd[i][j] * v[j];
            acc += t;
            abs += t.abs();
        }
    }
    (acc, abs)
}

/// worst component of |a_i - b_i| against tol_i: returns the pair of the component with the largest excess ratio
fn worst(a: &[f64], b: &[f64], tol: &[f64]) -> (f64, f64) {
    let mut best = (0.0f64, TINY);
    let mut ratio = -1.0f64;
    if a.len() != b.len() { return (f64::NAN, 0.0); }
    for i in 0..a.len() {
        let d = (a[i] - b[i]).abs();
        let r = if d.is_nan() { f64::INFINITY } else { d / tol[i] };
        if r > ratio { ratio = r; best = (d, tol[i]); }
    }
    best
}

struct Internal { pd: Vec<Vec<f64>>, A: Csc, q: Vec<f64>, b: Vec<f64>, u: f64 }

struct Step { dtau: f64, dkappa: f64 }

fn pair(e: f64, t: f64) -> Value { json!([fj(e), fj(t)]) }

/// one StepSolved event -> one Dir line (None when a logged quantity is not finite: the statement is about finite steps)
fn dir_line(run: usize, pass: i64, e: &verif::Event, d: &Internal, aff: Option<&Step>, cen: Option<&[f64]>) -> Option<(Value, Step)> {
    let combined = e.i[0] != 0;
    let (dtau, dkappa, rhs_tau, rhs_kappa, tau, kappa) = (e.f[0], e.f[1], e.f[2], e.f[3], e.f[4], e.f[5]);
    let (x1, z1, x2, z2, dx, dz, _ds, x, z, s, rhs_x, rhs_z) =
        (&e.v[0], &e.v[1], &e.v[2], &e.v[3], &e.v[4], &e.v[5], &e.v[6], &e.v[7], &e.v[8], &e.v[9], &e.v[10], &e.v[11]);
    if !(e.f.iter().all(|v| v.is_finite()) && e.v.iter().all(|v| finite(v))) { return None; }
    let n = x.len();
    let m = z.len();
    let u = d.u;
    let mut checks = serde_json::Map::new();

    // ---- composition of the step from the two reduced solves
    let cx: Vec<f64> = (0..n).map(|i| x1[i] + dtau * x2[i]).collect();
    let tx: Vec<f64> = (0..n).map(|i| 4.0 * EPS * (x1[i].abs() + (dtau * x2[i]).abs()) + TINY).collect();
    let (ex, tlx) = worst(dx, &cx, &tx);
    checks.insert("compose_x".into(), pair(ex, tlx));
    let cz: Vec<f64> = (0..m).map(|i| z1[i] + dtau * z2[i]).collect();
    let tz: Vec<f64> = (0..m).map(|i| 4.0 * EPS * (z1[i].abs() + (dtau * z2[i]).abs()) + TINY).collect();
    let (ez, tlz) = worst(dz, &cz, &tz);
    checks.insert("compose_z".into(), pair(ez, tlz));

    // ---- tau row:  q'dx + b'dz + dkappa + 2 xi'P dx - (xi'P xi) dtau + rhs_tau = 0
    let xi: Vec<f64> = x.iter().map(|v| v / tau).collect();
    let xim: Vec<f64> = (0..n).map(|i| xi[i] - x2[i]).collect();
    let ax1: Vec<f64> = (0..n).map(|i| x1[i].abs() + (dtau * x2[i]).abs()).collect();
    let az1: Vec<f64> = (0..m).map(|i| z1[i].abs() + (dtau * z2[i]).abs()).collect();
    let qdx = observer::dot(&d.q, dx);
    let bdz = observer::dot(&d.b, dz);
    let (xpdx, _) = quad(&d.pd, &xi, dx);
    let (xpx, xpx_abs) = quad(&d.pd, &xi, &xi);
    let defect = qdx + bdz + dkappa + 2.0 * xpdx - xpx * dtau + rhs_tau;
    let aq: f64 = (0..n).map(|i| d.q[i].abs() * ax1[i]).sum();
    let ab: f64 = (0..m).map(|i| d.b[i].abs() * az1[i]).sum();
    let axi: Vec<f64> = xi.iter().map(|v| v.abs()).collect();
    let (_, ap1) = quad(&d.pd, &axi, &ax1);
    let (_, ap2) = quad(&d.pd, &xim, &xim);
    let (_, ap3) = quad(&d.pd, x2, x2);
    let scale = aq + ab + 2.0 * ap1 + dtau.abs() * (ap2 + ap3 + xpx_abs) + rhs_tau.abs() + (rhs_kappa / tau).abs()
        + (kappa / tau * dtau).abs() + dkappa.abs();
    checks.insert("tau_row".into(), pair(defect.abs(), u * scale + TINY));

    // ---- kappa row: tau dkappa + kappa dtau + rhs_kappa = 0
    let dk = tau * dkappa + kappa * dtau + rhs_kappa;
    checks.insert("kappa_row".into(), pair(dk.abs(), 16.0 * EPS * ((tau * dkappa).abs() + (kappa * dtau).abs() + rhs_kappa.abs()) + TINY));

    // ---- right-hand sides: residuals of the embedding at the iterate the call was given
    let (px, pxa) = observer::dense_mul(&d.pd, x);
    let (atz, atza) = observer::mul_t(&d.A, z);
    let (axv, axa) = observer::mul(&d.A, x);
    let (factor, fabs) = match (combined, cen) {
        (true, Some(c)) => (1.0 - c[1], (1.0 - c[1]).abs() + 2.0 * EPS),
        (true, None) => (f64::NAN, 0.0),
        _ => (1.0, 1.0),
    };
    let want_x: Vec<f64> = (0..n).map(|i| factor * (-px[i] - atz[i] - d.q[i] * tau)).collect();
    let tol_x: Vec<f64> = (0..n).map(|i| u * fabs * (pxa[i] + atza[i] + (d.q[i] * tau).abs()) + TINY).collect();
    let (e1, t1) = worst(rhs_x, &want_x, &tol_x);
    checks.insert("rhs_x".into(), pair(e1, t1));
    let want_z: Vec<f64> = (0..m).map(|i| factor * (axv[i] + s[i] - d.b[i] * tau)).collect();
    let tol_z: Vec<f64> = (0..m).map(|i| u * fabs * (axa[i] + s[i].abs() + (d.b[i] * tau).abs()) + TINY).collect();
    let (e2, t2) = worst(rhs_z, &want_z, &tol_z);
    checks.insert("rhs_z".into(), pair(e2, t2));
    let qx = observer::dot(&d.q, x);
    let bz = observer::dot(&d.b, z);
    let xpx_full = observer::dot(x, &px);
    let rtau = qx + bz + kappa + xpx_full / tau;
    let rtau_abs = observer::absdot(&d.q, x) + observer::absdot(&d.b, z) + kappa.abs() + observer::absdot(x, &pxa) / tau.abs();
    checks.insert("rhs_tau".into(), pair((rhs_tau - factor * rtau).abs(), u * fabs * rtau_abs + TINY));
    let (want_k, abs_k) = match (combined, cen, aff) {
        (false, _, _) => (tau * kappa, (tau * kappa).abs()),
        (true, Some(c), Some(a)) => {
            // c = [alpha, sigma, m, mu]
            (-(c[1] * c[3]) + c[2] * a.dtau * a.dkappa + tau * kappa, (c[1] * c[3]).abs() + (c[2] * a.dtau * a.dkappa).abs() + (tau * kappa).abs())
        }
        _ => (f64::NAN, 0.0),
    };
    checks.insert("rhs_kappa".into(), pair((rhs_kappa - want_k).abs(), 16.0 * EPS * abs_k + TINY));

    let line = json!({"ev": "Dir", "run": run, "pass": pass, "dir": if combined { "combined" } else { "affine" },
                      "has_affine": aff.is_some() && cen.is_some(), "n": n, "m": m, "checks": Value::Object(checks)});
    Some((line, Step { dtau, dkappa }))
}

fn problem_for(k: usize, rng: &mut StdRng) -> Problem {
    match k % 10 {
        // family G (with its far-from-origin sub-family)
        0 | 1 => rec_more::family_g(rng),
        // all cone kinds incl. PSD and generalised power cones, random settings (equilibration / regularisation / refinement toggled)
        2 => {
            let o = GenOpts { nmax: 10, ..Default::default() };
            let mut p = gen::planted_feasible(rng, &o);
            p.settings = gen::random_settings(rng, p.is_symmetric());
            p.tag = "dir+settings".into();
            p
        }
        // large quadratic cost as the solver sees it: equilibration off, objective scaled by 10^U(2, 6)
        3 => {
            let o = GenOpts { nmax: 12, psd_max: 0, p_kind: 2, mag_exp: 1.0, ..Default::default() };
            let mut p = gen::planted_feasible(rng, &o);
            let f = 10f64.powf(gen::unif(rng, 2.0, 6.0));
            for v in p.P.nzval.iter_mut() { *v *= f; }
            for v in p.q.iter_mut() { *v *= f; }
            p.settings = json!({"equilibrate_enable": false});
            p.tag = "dir+bigP".into();
            p
        }
        4 => { let mut p = gen::planted_pinf(rng, &GenOpts::default()); p.tag = "dir+pinf".into(); p }
        5 => { let mut p = gen::planted_dinf(rng, &GenOpts::default()); p.tag = "dir+dinf".into(); p }
        // extreme but finite magnitudes, rows / columns spread over decades, objective scaled by 1e+-8, many second-order cones
        6 => crate::gen_family(rng, "extreme", 8),
        7 => crate::gen_family(rng, "badscale", 8),
        8 => crate::gen_family(rng, "objscale", 8),
        _ => crate::gen_family(rng, "socsym", 10),
    }
}

/// lines, cases, meta
pub fn lines(seed: u64, count: usize) -> (Vec<Value>, Vec<Value>, Value) {
    let mut rng = StdRng::seed_from_u64(seed ^ 0xd1ec);
    let mut out = vec![];
    let mut cases = vec![];
    let (mut skipped, mut with_p, mut nonsym, mut panics, mut combined) = (0usize, 0usize, 0usize, 0usize, 0usize);
    for run in 0..count {
        let p = problem_for(run, &mut rng);
        cases.push(json!({"run": run, "problem": p}));
        let (l, st) = run_one(run, &p);
        skipped += st.0; panics += st.1;
        if !l.is_empty() && p.P.nnz() > 0 { with_p += 1; }
        if !l.is_empty() && !p.is_symmetric() { nonsym += 1; }
        combined += l.iter().filter(|e| e["dir"] == "combined").count();
        out.extend(l);
    }
    let meta = json!({"runs": count, "events": out.len(), "combined": combined, "skipped_nonfinite": skipped, "runs_with_P": with_p,
                      "runs_nonsymmetric": nonsym, "panics": panics});
    (out, cases, meta)
}

/// (lines, (skipped, panics))
pub fn run_one(run: usize, p: &Problem) -> (Vec<Value>, (usize, usize)) {
    let st = p.settings();
    let P = p.P.to_clarabel();
    let A = p.A.to_clarabel();
    let cones = p.clarabel_cones();
    let res = catch_unwind(AssertUnwindSafe(|| {
        let mut solver = DefaultSolver::new(&P, &p.q, &A, &p.b, &cones, st);
        let pc = Csc::from_clarabel(&solver.data.P);
        let ac = Csc::from_clarabel(&solver.data.A);
        let size = (pc.n + ac.m + pc.nnz() + ac.nnz() + 8) as f64;
        let d = Internal { pd: observer::sym_dense(&pc), A: ac, q: solver.data.q.clone(), b: solver.data.b.clone(), u: 64.0 * size * EPS };
        verif::set_step_log(true);
        verif::start();
        solver.solve();
        let evs = verif::take();
        verif::set_step_log(false);
        (evs, d)
    }));
    verif::set_step_log(false);
    let (evs, d) = match res {
        Ok(v) => v,
        Err(_) => { let _ = verif::take(); return (vec![], (0, 1)); }    // panics are C04's subject
    };
    let mut out = vec![];
    let mut skipped = 0;
    let mut aff: Option<Step> = None;
    let mut cen: Option<Vec<f64>> = None;
    let mut pass = 0i64;
    let mut aff_skipped = false;
    for e in &evs {
        match e.name {
            "KKTUpdate" => { aff = None; cen = None; aff_skipped = false; pass = e.i[0]; }
            "Centering" => { cen = Some(e.f.clone()); }
            "StepSolved" => {
                let combined = e.i[0] != 0;
                if combined && aff_skipped { skipped += 1; continue; }
                match dir_line(run, pass, e, &d, aff.as_ref(), cen.as_deref()) {
                    Some((l, s)) => { out.push(l); if !combined { aff = Some(s); } }
                    None => { skipped += 1; if !combined { aff = None; aff_skipped = true; } }
                }
            }
            _ => {}
        }
    }
    (out, (skipped, 0))
}

// =====================================================================================================================
// Centrality.tla / Trace_Centrality.tla: the barrier line search of the dual scaling strategy
// =====================================================================================================================

/// compare a logged value with the observer's, non-finite values by class
fn cmp_pair(logged: f64, obs: f64, tol: f64) -> Value {
    if logged.is_finite() && obs.is_finite() { pair((logged - obs).abs(), tol + TINY) }
    else if logged == obs || (logged.is_nan() && obs.is_nan()) { pair(0.0, TINY) }
    else { pair(f64::INFINITY, 0.0) }
}

/// observer's barrier term of one symmetric cone at (s, z): (value, tolerance), None when the point is too close to the
/// boundary for the sign of a residual to be decided (the probe is then not compared), Some(None) never
fn sym_term(c: &ConeSpec, s: &[f64], z: &[f64]) -> Option<Option<(f64, f64)>> {
    match c {
        ConeSpec::Zero(_) => Some(Some((0.0, 0.0))),
        ConeSpec::Nonneg(_) => {
            // AS IN THE CODE: + sum log(s_i z_i)   (named deviation, see Centrality.tla)
            let mut acc = 0.0;
            let mut abs = 0.0;
            for i in 0..s.len() {
                let p = s[i] * z[i];
                let l = if p <= 0.0 { f64::NEG_INFINITY } else { p.ln() };
                acc += l;
                abs += l.abs() + 4.0;
            }
            Some(Some((acc, 64.0 * EPS * (s.len() as f64 + 2.0) * abs)))
        }
        ConeSpec::Soc(_) => {
            let res = |v: &[f64]| -> (f64, f64) {
                let t: f64 = v[1..].iter().map(|x| x * x).sum();
                (v[0] * v[0] - t, v[0] * v[0] + t)
            };
            let (rs, ss) = res(s);
            let (rz, sz) = res(z);
            if rs.abs() < 1e-9 * ss || rz.abs() < 1e-9 * sz { return None; }
            if rs > 0.0 && rz > 0.0 {
                let v = -0.5 * (rs.ln() + rz.ln());
                let cond = ss / rs + sz / rz;
                Some(Some((v, 64.0 * EPS * (s.len() as f64 + 2.0) * (cond + v.abs() + 2.0))))
            } else { Some(Some((f64::INFINITY, 0.0))) }
        }
        ConeSpec::Psd(n) => {
            let ld = |v: &[f64]| -> Option<(f64, f64)> {
                let e = observer::jacobi_eigs(&observer::smat(v, *n));
                let mx = e.iter().fold(0.0f64, |a, x| a.max(x.abs()));
                let mn = e.iter().fold(f64::INFINITY, |a, x| a.min(*x));
                if mn.abs() < 1e-9 * mx.max(1e-300) { return None; }
                if mn <= 0.0 { return Some((f64::NEG_INFINITY, 0.0)); }
                Some((e.iter().map(|x| x.ln()).sum(), mx / mn))
            };
            let (a, ca) = ld(s)?;
            let (b, cb) = ld(z)?;
            if a == f64::NEG_INFINITY || b == f64::NEG_INFINITY { return Some(Some((f64::INFINITY, 0.0))); }
            let v = -a - b;
            Some(Some((v, 1e-10 * (*n as f64) * (2.0 + a.abs() + b.abs()) + 256.0 * EPS * (*n as f64) * (ca + cb))))
        }
        _ => Some(None),       // nonsymmetric cones: the term is taken as logged (C14)
    }
}

struct ProbeAcc { alpha: f64, terms: Vec<(usize, usize, f64)> }

/// Centrality events of one run
pub fn centrality_lines(run: usize, p: &Problem) -> (Vec<Value>, usize) {
    let st = p.settings();
    let P = p.P.to_clarabel();
    let A = p.A.to_clarabel();
    let cones = p.clarabel_cones();
    let res = catch_unwind(AssertUnwindSafe(|| {
        let mut solver = DefaultSolver::new(&P, &p.q, &A, &p.b, &cones, st);
        let icones: Vec<ConeSpec> = solver.data.cones.iter().map(ConeSpec::from_clarabel).collect();
        verif::set_step_log(true);
        verif::start();
        solver.solve();
        let evs = verif::take();
        verif::set_step_log(false);
        (evs, icones)
    }));
    verif::set_step_log(false);
    let (evs, icones) = match res { Ok(v) => v, Err(_) => { let _ = verif::take(); return (vec![], 0); } };
    let mut starts = std::collections::HashMap::new();
    let mut off = 0usize;
    for c in &icones { starts.insert(off, c.clone()); off += c.numel(); }
    let mut out = vec![];
    let mut skipped = 0usize;
    let mut last_step: Option<&verif::Event> = None;
    let mut dual = false;
    let mut pass = 0i64;
    let mut search: Option<(f64, f64)> = None;
    let mut probes: Vec<Value> = vec![];
    let mut cur = ProbeAcc { alpha: f64::NAN, terms: vec![] };
    for e in &evs {
        match e.name {
            "Scale" => { dual = e.i[2] != 0; }
            "KKTUpdate" => { pass = e.i[0]; }
            "StepSolved" => { last_step = Some(e); }
            "BarrierSearch" => { search = Some((e.f[0], e.f[1])); probes.clear(); cur = ProbeAcc { alpha: f64::NAN, terms: vec![] }; }
            "ConeBarrierTerm" if search.is_some() => { cur.alpha = e.f[0]; cur.terms.push((e.i[0] as usize, e.i[1] as usize, e.f[1])); }
            "Barrier" if search.is_some() => {
                let (alpha, mu, tau1, kappa1, total) = (e.f[0], e.f[1], e.f[2], e.f[3], e.f[4]);
                let nu = e.i[0] as f64;
                let mut skip = last_step.is_none();
                let mut sym_terms = vec![];
                let mut mu_pair = pair(0.0, TINY);
                let mut total_pair = pair(0.0, TINY);
                if let Some(sv) = last_step {
                    let (dtau, dkappa, tau, kappa) = (sv.f[0], sv.f[1], sv.f[4], sv.f[5]);
                    let (dz, ds, z, s) = (&sv.v[5], &sv.v[6], &sv.v[8], &sv.v[9]);
                    let s1: Vec<f64> = (0..s.len()).map(|i| s[i] + alpha * ds[i]).collect();
                    let z1: Vec<f64> = (0..z.len()).map(|i| z[i] + alpha * dz[i]).collect();
                    let (t1, k1) = (tau + alpha * dtau, kappa + alpha * dkappa);
                    let sz = observer::dot(&s1, &z1);
                    let sza = observer::absdot(&s1, &z1);
                    let mu_obs = (sz + t1 * k1) / (nu + 1.0);
                    mu_pair = cmp_pair(mu, mu_obs, 64.0 * EPS * (s.len() as f64 + 4.0) * (sza + (t1 * k1).abs()) / (nu + 1.0));
                    let tk = cmp_pair(tau1, t1, 8.0 * EPS * (tau.abs() + (alpha * dtau).abs()));
                    let kk = cmp_pair(kappa1, k1, 8.0 * EPS * (kappa.abs() + (alpha * dkappa).abs()));
                    sym_terms.push(tk);
                    sym_terms.push(kk);
                    let ls = |v: f64| if v <= 0.0 { f64::NEG_INFINITY } else { v.ln() };
                    let parts = [(nu + 1.0) * ls(mu), -ls(tau1), -ls(kappa1)];
                    let cone_sum: f64 = cur.terms.iter().map(|t| t.2).sum();
                    let abs_sum: f64 = parts.iter().map(|v| v.abs()).sum::<f64>() + cur.terms.iter().map(|t| t.2.abs()).sum::<f64>();
                    let total_obs = parts[0] + parts[1] + parts[2] + cone_sum;
                    total_pair = cmp_pair(total, total_obs, 64.0 * EPS * (cur.terms.len() as f64 + 6.0) * (abs_sum + 1.0));
                    let mut covered = 0usize;
                    for (a, b, term) in &cur.terms {
                        covered += b - a;
                        match starts.get(a) {
                            Some(c) if c.numel() == b - a => match sym_term(c, &s1[*a..*b], &z1[*a..*b]) {
                                None => { skip = true; }
                                Some(None) => {}
                                Some(Some((v, tol))) => sym_terms.push(cmp_pair(*term, v, tol)),
                            },
                            _ => sym_terms.push(pair(f64::INFINITY, 0.0)),     // a term for a range that is not a cone of the problem
                        }
                    }
                    if covered != s.len() { sym_terms.push(pair(f64::INFINITY, 0.0)); }   // every row belongs to exactly one logged term
                    if !(alpha == cur.alpha || cur.terms.is_empty()) { sym_terms.push(pair(f64::INFINITY, 0.0)); }
                }
                probes.push(json!({"alpha": fj(alpha), "barrier": fj(total), "skip": skip, "mu": mu_pair, "total": total_pair, "sym_terms": sym_terms}));
                cur = ProbeAcc { alpha: f64::NAN, terms: vec![] };
            }
            "BarrierResult" if search.is_some() => {
                let (a0, step) = search.take().unwrap();
                let mut exp = vec![a0];
                for i in 0..50 { let v = step * exp[i]; exp.push(v); }
                skipped += probes.iter().filter(|p| p["skip"] == true).count();
                out.push(json!({"ev": "Centrality", "run": run, "pass": pass, "alpha_init": fj(a0), "step": fj(step), "one": fj(1.0),
                                "expected_alpha": fjv(&exp), "probes": probes.clone(), "passed": e.i[0] != 0, "result": fj(e.f[0]),
                                "dual_scaling": dual, "combined": last_step.map(|s| s.i[0] != 0).unwrap_or(false)}));
                probes.clear();
            }
            _ => {}
        }
    }
    (out, skipped)
}

fn centrality_problem(k: usize, rng: &mut StdRng) -> Problem {
    // dual scaling from the first pass needs a generalised power cone; the other cones are drawn freely around it
    let n = rng.gen_range(2..=14usize);
    let mut o = GenOpts { nmax: n, max_cones: 4, soc_max: 7, psd_max: if k % 3 == 0 { 3 } else { 0 }, density: 0.6, mag_exp: [0.0, 1.0, 3.0][k % 3], ..Default::default() };
    o.allow_zero = n >= 4;
    for _ in 0..200 {
        let mut p = gen::planted_feasible(rng, &o);
        if p.cones.iter().any(|c| matches!(c, ConeSpec::GenPow(_, _))) {
            if k % 4 == 3 { let f = [0.5, 0.9, 0.65][k % 3]; p.settings = json!({"linesearch_backtrack_step": f}); }
            p.tag = "centrality".into();
            return p;
        }
    }
    let mut p = rec_more::family_g(rng);
    p.tag = "centrality+g".into();
    p
}

pub fn centrality(seed: u64, count: usize) -> (Vec<Value>, Vec<Value>, Value) {
    let mut rng = StdRng::seed_from_u64(seed ^ 0xce27);
    let mut out = vec![];
    let mut cases = vec![];
    let (mut skipped, mut searches, mut backtracked, mut gaveup, mut with_soc, mut with_nn, mut with_psd) = (0, 0, 0, 0, 0, 0, 0);
    for run in 0..count {
        let p = centrality_problem(run, &mut rng);
        cases.push(json!({"run": run, "problem": p}));
        let (l, sk) = centrality_lines(run, &p);
        skipped += sk;
        searches += l.len();
        backtracked += l.iter().filter(|e| e["probes"].as_array().unwrap().len() > 1).count();
        gaveup += l.iter().filter(|e| e["passed"] == false).count();
        if !l.is_empty() {
            if p.cones.iter().any(|c| matches!(c, ConeSpec::Soc(_))) { with_soc += 1; }
            if p.cones.iter().any(|c| matches!(c, ConeSpec::Nonneg(_))) { with_nn += 1; }
            if p.cones.iter().any(|c| matches!(c, ConeSpec::Psd(_))) { with_psd += 1; }
        }
        out.extend(l);
    }
    let meta = json!({"runs": count, "searches": searches, "backtracked": backtracked, "gave_up": gaveup, "skipped_probes": skipped,
                      "runs_with_soc": with_soc, "runs_with_nonneg": with_nn, "runs_with_psd": with_psd});
    (out, cases, meta)
}
