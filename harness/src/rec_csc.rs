//! impl -> spec recorder for Csc.tla (C16): deterministic enumeration of small matrices, triplet
//! sequences, raw encodings and block pairs; every public CscMatrix operation is called on the
//! real type and logged with full (tiny) encodings as integers.
#![allow(non_snake_case)]
use clarabel::algebra::*;
use rand::rngs::StdRng;
use rand::{Rng, SeedableRng};
use serde_json::{json, Value};
use std::panic::{catch_unwind, AssertUnwindSafe};

fn ival(x: f64) -> Value {
    if x.fract() == 0.0 && x.abs() < 1e9 { json!(x as i64) } else { json!(format!("nonint:{}", x)) }
}
fn ivec(v: &[f64]) -> Value { Value::Array(v.iter().map(|x| ival(*x)).collect()) }
pub fn enc(M: &CscMatrix<f64>) -> Value {
    json!({"m": M.m, "n": M.n, "colptr": M.colptr, "rowval": M.rowval, "nzval": ivec(&M.nzval)})
}

fn build(m: usize, n: usize, mask: u32, scheme: u32) -> CscMatrix<f64> {
    let mut colptr = vec![0usize];
    let mut rowval = vec![];
    let mut nzval = vec![];
    for j in 0..n {
        for i in 0..m {
            if mask >> (i + m * j) & 1 == 1 {
                rowval.push(i);
                let v = if scheme == 0 {
                    (1 + i + m * j) as f64 * if (i + j) % 2 == 0 { 1.0 } else { -1.0 }
                } else {
                    [1.0, -1.0, 0.0][(i + 2 * j) % 3]
                };
                nzval.push(v);
            }
        }
        colptr.push(rowval.len());
    }
    CscMatrix { m, n, colptr, rowval, nzval }
}

fn guarded<F: FnOnce() -> Value>(name: &str, f: F) -> Value {
    match catch_unwind(AssertUnwindSafe(f)) {
        Ok(v) => v,
        Err(e) => json!({"name": name, "panic": crate::rec_ipm::panic_msg(e)}),
    }
}

pub fn matrix_ops(M: &CscMatrix<f64>, out: &mut Vec<Value>) {
    let (m, n) = (M.m, M.n);
    let inp = enc(M);
    out.push(guarded("transpose", || { let T: CscMatrix<f64> = M.t().into(); json!({"name": "transpose", "inp": inp, "out": enc(&T)}) }));
    out.push(guarded("is_triu", || json!({"name": "is_triu", "inp": inp, "res": M.is_triu()})));
    out.push(guarded("nnz", || json!({"name": "nnz", "inp": inp, "res": M.nnz()})));
    out.push(guarded("check_format", || json!({"name": "check_format", "inp": inp, "ok": M.check_format().is_ok()})));
    if m == n {
        out.push(guarded("to_triu", || json!({"name": "to_triu", "inp": inp, "out": enc(&M.to_triu())})));
    }
    for mask in 0..(1u32 << m) {
        let mv: Vec<bool> = (0..m).map(|i| mask >> i & 1 == 1).collect();
        out.push(guarded("select_rows", || json!({"name": "select_rows", "inp": inp, "mask": mv, "out": enc(&M.select_rows(&mv))})));
    }
    for i in 0..m {
        for j in 0..n {
            out.push(guarded("get_entry", || {
                let r = M.get_entry((i, j));
                json!({"name": "get_entry", "inp": inp, "i": i, "j": j, "some": r.is_some(), "val": ival(r.unwrap_or(0.0))})
            }));
            for v in [0.0, 7.0] {
                out.push(guarded("set_entry", || {
                    let mut M2 = M.clone();
                    M2.set_entry((i, j), v);
                    json!({"name": "set_entry", "inp": inp, "i": i, "j": j, "v": ival(v), "out": enc(&M2)})
                }));
            }
        }
    }
    out.push(guarded("dropzeros", || { let mut M2 = M.clone(); M2.dropzeros(); json!({"name": "dropzeros", "inp": inp, "out": enc(&M2)}) }));
    for idx in 0..M.nnz() {
        out.push(guarded("index_to_coord", || { let (r, c) = M.index_to_coord(idx); json!({"name": "index_to_coord", "inp": inp, "idx": idx, "row": r, "col": c}) }));
    }
    // sums and norms
    out.push(guarded("col_sums", || { let mut v = vec![9.0; n]; M.col_sums(&mut v); json!({"name": "col_sums", "inp": inp, "out": ivec(&v)}) }));
    out.push(guarded("row_sums", || { let mut v = vec![9.0; m]; M.row_sums(&mut v); json!({"name": "row_sums", "inp": inp, "out": ivec(&v)}) }));
    out.push(guarded("col_norms", || { let mut v = vec![9.0; n]; M.col_norms(&mut v); json!({"name": "col_norms", "inp": inp, "out": ivec(&v)}) }));
    out.push(guarded("row_norms", || { let mut v = vec![9.0; m]; M.row_norms(&mut v); json!({"name": "row_norms", "inp": inp, "out": ivec(&v)}) }));
    let l: Vec<f64> = (0..m).map(|i| (i + 2) as f64).collect();
    let r: Vec<f64> = (0..n).map(|j| -((j + 3) as f64)).collect();
    out.push(guarded("scale", || { let mut M2 = M.clone(); M2.scale(3.0); json!({"name": "scale", "inp": inp, "c": 3, "out": enc(&M2)}) }));
    out.push(guarded("negate", || { let mut M2 = M.clone(); M2.negate(); json!({"name": "negate", "inp": inp, "out": enc(&M2)}) }));
    out.push(guarded("lscale", || { let mut M2 = M.clone(); M2.lscale(&l); json!({"name": "lscale", "inp": inp, "l": ivec(&l), "out": enc(&M2)}) }));
    out.push(guarded("rscale", || { let mut M2 = M.clone(); M2.rscale(&r); json!({"name": "rscale", "inp": inp, "r": ivec(&r), "out": enc(&M2)}) }));
    out.push(guarded("lrscale", || { let mut M2 = M.clone(); M2.lrscale(&l, &r); json!({"name": "lrscale", "inp": inp, "l": ivec(&l), "r": ivec(&r), "out": enc(&M2)}) }));
    // products
    let xs_n: Vec<f64> = (0..n).map(|j| (j as f64) - 1.0).collect();
    let xs_m: Vec<f64> = (0..m).map(|i| 2.0 - (i as f64)).collect();
    for a in [-1.0, 0.0, 1.0, 2.0] {
        for b in [-1.0, 0.0, 1.0, 2.0] {
            out.push(guarded("gemv", || {
                let y0: Vec<f64> = (0..m).map(|i| (i as f64) + 1.0).collect();
                let mut y = y0.clone();
                clarabel::verif::csc_gemv(M, false, &mut y, &xs_n, a, b);
                json!({"name": "gemv", "inp": inp, "trans": false, "a": ival(a), "b": ival(b), "x": ivec(&xs_n), "y0": ivec(&y0), "y": ivec(&y)})
            }));
            out.push(guarded("gemv", || {
                let y0: Vec<f64> = (0..n).map(|i| (i as f64) + 1.0).collect();
                let mut y = y0.clone();
                clarabel::verif::csc_gemv(M, true, &mut y, &xs_m, a, b);
                json!({"name": "gemv", "inp": inp, "trans": true, "a": ival(a), "b": ival(b), "x": ivec(&xs_m), "y0": ivec(&y0), "y": ivec(&y)})
            }));
            if m == n && M.is_triu() {
                out.push(guarded("symv", || {
                    let y0: Vec<f64> = (0..m).map(|i| (i as f64) + 1.0).collect();
                    let mut y = y0.clone();
                    clarabel::verif::csc_symv(M, &mut y, &xs_n, a, b);
                    json!({"name": "symv", "inp": inp, "a": ival(a), "b": ival(b), "x": ivec(&xs_n), "y0": ivec(&y0), "y": ivec(&y)})
                }));
            }
        }
    }
    if m == n && M.is_triu() {
        out.push(guarded("quad_form", || json!({"name": "quad_form", "inp": inp, "x": ivec(&xs_n), "y": ivec(&xs_m), "res": ival(M.quad_form(&xs_m, &xs_n))})));
        out.push(guarded("col_norms_sym", || { let mut v = vec![9.0; n]; M.col_norms_sym(&mut v); json!({"name": "col_norms_sym", "inp": inp, "out": ivec(&v)}) }));
    }
    // construction from dense rows (zeros dropped)
    out.push(guarded("from_dense", || {
        let mut d = vec![vec![0.0; n]; m];
        for j in 0..n { for k in M.colptr[j]..M.colptr[j + 1] { d[M.rowval[k]][j] = M.nzval[k]; } }
        let M2 = CscMatrix::from(&d);
        let nn = if m == 0 { 0 } else { n };
        json!({"name": "from_dense", "m": m, "n": nn, "rows": Value::Array(d.iter().map(|r| ivec(r)).collect()), "out": enc(&M2)})
    }));
}

fn triplet_events(m: usize, n: usize, maxlen: usize, scheme: u32, rate: f64, rng: &mut StdRng, out: &mut Vec<Value>) {
    let cells = m * n;
    for len in 0..=maxlen {
        let total = (cells as u64).pow(len as u32);
        for code in 0..total {
            if rate < 1.0 && rng.gen::<f64>() >= rate { continue; }
            let mut c = code;
            let (mut I, mut J, mut V) = (vec![], vec![], vec![]);
            for k in 0..len {
                let cell = (c % cells as u64) as usize;
                c /= cells as u64;
                I.push(cell % m);
                J.push(cell / m);
                V.push(if scheme == 0 { (k + 1) as f64 } else { [1.0, -1.0][k % 2] });
            }
            out.push(guarded("triplets", || {
                let M = CscMatrix::new_from_triplets(m, n, I.clone(), J.clone(), V.clone());
                json!({"name": "triplets", "m": m, "n": n, "I": I, "J": J, "V": ivec(&V), "out": enc(&M)})
            }));
            // raw column-grouped (unsorted, duplicated) encoding -> canonicalize
            out.push(guarded("canonicalize", || {
                let mut colptr = vec![0usize; n + 1];
                for &j in &J { colptr[j + 1] += 1; }
                for j in 0..n { colptr[j + 1] += colptr[j]; }
                let mut next = colptr.clone();
                let mut rowval = vec![0usize; len];
                let mut nzval = vec![0.0; len];
                for k in 0..len { let p = next[J[k]]; rowval[p] = I[k]; nzval[p] = V[k]; next[J[k]] += 1; }
                let raw = CscMatrix { m, n, colptr, rowval, nzval };
                let mut M = raw.clone();
                let ok = M.canonicalize().is_ok();
                json!({"name": "canonicalize", "inp": enc(&raw), "ok": ok, "out": enc(&M)})
            }));
        }
    }
}

fn raw_format_events(rate: f64, rng: &mut StdRng, out: &mut Vec<Value>) {
    // arbitrary field values, including non-canonical garbage
    for m in 0..=2usize {
        for n in 0..=2usize {
            for cplen in [n + 1, n, n + 2] {
                let ncp = 4u32.pow(cplen as u32);
                for cpcode in 0..ncp {
                    let colptr: Vec<usize> = (0..cplen).map(|k| ((cpcode / 4u32.pow(k as u32)) % 4) as usize).collect();
                    for len in 0..=3usize {
                        for rvcode in 0..3u32.pow(len as u32) {
                            if cplen != n + 1 && rvcode != 0 { continue; }
                            if rate < 1.0 && rng.gen::<f64>() >= rate { continue; }
                            let rowval: Vec<usize> = (0..len).map(|k| ((rvcode / 3u32.pow(k as u32)) % 3) as usize).collect();
                            for nzlen in [len, len + 1] {
                                if nzlen != len && (rvcode != 0 || cpcode % 7 != 0) { continue; }
                                let raw = CscMatrix { m, n, colptr: colptr.clone(), rowval: rowval.clone(), nzval: vec![1.0; nzlen] };
                                out.push(guarded("check_format", || json!({"name": "check_format", "inp": enc(&raw), "ok": raw.check_format().is_ok()})));
                            }
                        }
                    }
                }
            }
        }
    }
}

fn concat_events(rate: f64, rng: &mut StdRng, out: &mut Vec<Value>) {
    let mut pool = vec![];
    for (m, n) in [(0, 0), (0, 2), (1, 0), (1, 1), (1, 2), (2, 1), (2, 2)] {
        for mask in 0..(1u32 << (m * n)) {
            pool.push(build(m, n, mask, 0));
        }
    }
    for A in &pool {
        for B in &pool {
            // (the predicate is cheap and its interesting pairs are few - same arrays, other shape: every pair, always)
            out.push(guarded("is_equal_sparsity", || json!({"name": "is_equal_sparsity", "A": enc(A), "B": enc(B), "res": A.is_equal_sparsity(B)})));
            // (operands with a zero dimension are few and take the early-exit paths: always)
            let degenerate = A.m == 0 || A.n == 0 || B.m == 0 || B.n == 0;
            if !degenerate && rate < 1.0 && rng.gen::<f64>() >= rate { continue; }
            out.push(guarded("hcat", || { let r = CscMatrix::hcat(A, B); json!({"name": "hcat", "A": enc(A), "B": enc(B), "ok": r.is_ok(), "out": r.map(|x| enc(&x)).unwrap_or(enc(&CscMatrix::zeros((0, 0))))}) }));
            out.push(guarded("vcat", || { let r = CscMatrix::vcat(A, B); json!({"name": "vcat", "A": enc(A), "B": enc(B), "ok": r.is_ok(), "out": r.map(|x| enc(&x)).unwrap_or(enc(&CscMatrix::zeros((0, 0))))}) }));
            out.push(guarded("blockdiag", || { let r = CscMatrix::blockdiag(&[A, B]); json!({"name": "blockdiag", "A": enc(A), "B": enc(B), "ok": r.is_ok(), "out": r.map(|x| enc(&x)).unwrap_or(enc(&CscMatrix::zeros((0, 0))))}) }));
        }
    }
    // hvcat of 2 x 2 block arrays (compatible and incompatible)
    let n = pool.len();
    let tries = if rate < 1.0 { 400 } else { 20000 };
    for _ in 0..tries {
        let (a, b, c, d) = (&pool[rng.gen_range(0..n)], &pool[rng.gen_range(0..n)], &pool[rng.gen_range(0..n)], &pool[rng.gen_range(0..n)]);
        // bias towards compatible shapes
        let (b2, c2, d2);
        let (b, c, d) = if rng.gen::<f64>() < 0.7 {
            b2 = build(a.m, b.n, rng.gen::<u32>() & ((1u32 << (a.m * b.n)) - 1).max(0), 0);
            c2 = build(c.m, a.n, rng.gen::<u32>() & ((1u32 << (c.m * a.n)) - 1).max(0), 0);
            d2 = build(c.m, b.n, rng.gen::<u32>() & ((1u32 << (c.m * b.n)) - 1).max(0), 0);
            (&b2, &c2, &d2)
        } else { (b, c, d) };
        out.push(guarded("hvcat", || {
            let r = CscMatrix::hvcat(&[&[a, b], &[c, d]]);
            json!({"name": "hvcat", "A": enc(a), "B": enc(b), "C": enc(c), "D": enc(d), "ok": r.is_ok(), "out": r.map(|x| enc(&x)).unwrap_or(enc(&CscMatrix::zeros((0, 0))))})
        }));
    }
}

/// hvcat of r x c block grids (1..3 block rows and columns), mostly with consistent block heights / widths
fn grid_events(rng: &mut StdRng, tries: usize, out: &mut Vec<Value>) {
    for _ in 0..tries {
        let (nr, nc) = (rng.gen_range(1..=3usize), rng.gen_range(1..=3usize));
        let hs: Vec<usize> = (0..nr).map(|_| rng.gen_range(0..=2)).collect();
        let ws: Vec<usize> = (0..nc).map(|_| rng.gen_range(0..=2)).collect();
        let bad = rng.gen::<f64>() < 0.15;
        let mut grid: Vec<Vec<CscMatrix<f64>>> = vec![];
        for i in 0..nr {
            let mut row = vec![];
            for j in 0..nc {
                let (mut h, mut w) = (hs[i], ws[j]);
                if bad && rng.gen::<f64>() < 0.3 { if rng.gen::<bool>() { h += 1; } else { w += 1; } }
                let cells = h * w;
                let mask = if cells == 0 { 0 } else { rng.gen::<u32>() & ((1u32 << cells) - 1) };
                row.push(build(h, w, mask, 0));
            }
            grid.push(row);
        }
        // ragged layouts: one block row (the first, or a later one) gets a block more or a block less than the others
        if nr >= 2 && rng.gen::<f64>() < 0.12 {
            let i = rng.gen_range(0..nr);
            if rng.gen::<bool>() || grid[i].len() == 1 { let extra = build(hs[i], rng.gen_range(0..=2), 0, 0); grid[i].push(extra); } else { grid[i].pop(); }
        }
        out.push(guarded("hvcatg", || {
            let rows: Vec<Vec<&CscMatrix<f64>>> = grid.iter().map(|r| r.iter().collect()).collect();
            let refs: Vec<&[&CscMatrix<f64>]> = rows.iter().map(|r| r.as_slice()).collect();
            let r = CscMatrix::hvcat(&refs);
            json!({"name": "hvcatg", "blocks": grid.iter().map(|r| r.iter().map(enc).collect::<Vec<_>>()).collect::<Vec<_>>(),
                   "ok": r.is_ok(), "out": r.map(|x| enc(&x)).unwrap_or(enc(&CscMatrix::zeros((0, 0))))})
        }));
    }
}

/// quick: seeded sample; thorough: everything
pub fn record(seed: u64, thorough: bool) -> (Vec<Value>, Value) {
    let mut rng = StdRng::seed_from_u64(seed);
    let mut out = vec![];
    let mut nmat = 0usize;
    let shapes: Vec<(usize, usize)> = vec![(0, 0), (0, 2), (2, 0), (1, 1), (1, 3), (2, 2), (3, 1), (2, 3), (3, 2), (3, 3), (4, 3)];
    for (m, n) in shapes {
        let cells = m * n;
        let total = 1u32 << cells;
        let rate = if thorough { if cells >= 12 { 0.15 } else { 1.0 } } else { (60.0 / total as f64).min(1.0) };
        for scheme in 0..2 {
            for mask in 0..total {
                if rate < 1.0 && rng.gen::<f64>() >= rate { continue; }
                let M = build(m, n, mask, scheme);
                matrix_ops(&M, &mut out);
                nmat += 1;
            }
        }
    }
    let before = out.len();
    if thorough {
        triplet_events(3, 3, 4, 0, 1.0, &mut rng, &mut out);
        triplet_events(3, 3, 5, 1, 0.2, &mut rng, &mut out);
        triplet_events(2, 3, 5, 0, 1.0, &mut rng, &mut out);
        triplet_events(4, 2, 4, 0, 1.0, &mut rng, &mut out);      // tall shapes (rows > columns)
        triplet_events(5, 2, 3, 1, 1.0, &mut rng, &mut out);
        triplet_events(4, 1, 4, 0, 1.0, &mut rng, &mut out);
        grid_events(&mut rng, 20000, &mut out);
    } else {
        triplet_events(2, 3, 4, 0, 0.5, &mut rng, &mut out);
        triplet_events(4, 2, 3, 0, 1.0, &mut rng, &mut out);      // tall shapes (rows > columns)
        triplet_events(5, 2, 3, 1, 0.2, &mut rng, &mut out);
        triplet_events(4, 1, 4, 0, 0.5, &mut rng, &mut out);
        grid_events(&mut rng, 1500, &mut out);
        triplet_events(3, 3, 5, 1, 0.01, &mut rng, &mut out);
    }
    let ntrip = out.len() - before;
    let before = out.len();
    raw_format_events(if thorough { 1.0 } else { 0.12 }, &mut rng, &mut out);
    let nraw = out.len() - before;
    let before = out.len();
    concat_events(if thorough { 1.0 } else { 0.03 }, &mut rng, &mut out);
    let nconcat = out.len() - before;
    let meta = json!({"events": out.len(), "matrices": nmat, "triplet_events": ntrip, "raw_format_events": nraw,
                      "concat_events": nconcat, "exhaustive": thorough});
    (out, meta)
}
