//! spec -> impl replay for Session.tla: one solver object driven through solves, data updates, settings edits, buffer
//! selection, save and load in every order; after each step the API must show what the model says.
use crate::problem::*;
use crate::replay_update::{seeds, Seed};
use clarabel::io::ConfigurablePrintTarget;
use clarabel::solver::*;
use serde_json::{json, Value};
use std::io::{Seek, SeekFrom};
use std::panic::{catch_unwind, AssertUnwindSafe};

fn class_of(s: SolverStatus) -> &'static str {
    match s {
        SolverStatus::Solved | SolverStatus::AlmostSolved => "solved",
        SolverStatus::PrimalInfeasible | SolverStatus::AlmostPrimalInfeasible => "pinf",
        SolverStatus::DualInfeasible | SolverStatus::AlmostDualInfeasible => "dinf",
        _ => "other",
    }
}

fn data_of(qv: usize, bv: usize) -> [Vec<usize>; 4] { [vec![0; 3], vec![qv; 2], vec![0; 3], vec![bv; 3]] }

/// a solve of `s` against the model's expectation; the oracle is a freshly built solver on the expected data versions
fn check_solve(who: &str, s: &DefaultSolver<f64>, seed: &Seed, equil: bool, exp: &Value) -> Option<(String, String)> {
    let (qv, bv) = (exp["qv"].as_u64().unwrap() as usize, exp["bv"].as_u64().unwrap() as usize);
    let budget = exp["budget"].as_u64().unwrap() as u32;
    let sol = &s.solution;
    if exp["limited"].as_bool().unwrap() {
        if sol.status != SolverStatus::MaxIterations || sol.iterations != 0 {
            return Some(("limit".into(), format!("{}: max_iter = 0 in force but the solve ends {:?} after {} iterations", who, sol.status, sol.iterations)));
        }
        return None;
    }
    let mut p = seed.problem(&data_of(qv, bv), equil);
    p.settings["max_iter"] = json!(budget);
    let (P, A) = (p.P.to_clarabel(), p.A.to_clarabel());
    let mut fresh = DefaultSolver::new(&P, &p.q, &A, &p.b, &p.clarabel_cones(), p.settings());
    fresh.solve();
    let f = &fresh.solution;
    if class_of(sol.status) != class_of(f.status) {
        return Some(("solve".into(), format!("{}: ends {:?} but a fresh solver on the data in force (q v{}, b v{}) ends {:?}", who, sol.status, qv, bv, f.status)));
    }
    if class_of(f.status) == "solved" && (sol.obj_val - f.obj_val).abs() > 1e-6 * (1.0 + f.obj_val.abs()) {
        return Some(("solve".into(), format!("{}: objective {} but {} for a fresh solver on the data in force (q v{}, b v{})", who, sol.obj_val, f.obj_val, qv, bv)));
    }
    if !equil && !(sol.iterations == f.iterations && sol.x.iter().zip(&f.x).all(|(a, b)| a.to_bits() == b.to_bits())) {
        return Some(("solve".into(), format!("{}: with equilibration off the solve is not a fresh solver's bit for bit (q v{}, b v{})", who, qv, bv)));
    }
    None
}

pub fn replay_one(b: &Value, variant: usize, dir: &str, id: usize) -> Option<(String, String)> {
    let all = seeds();
    let seed = &all[variant % all.len()];
    let equil = (variant / all.len()) % 2 == 0;
    let res = catch_unwind(AssertUnwindSafe(|| -> Option<(String, String)> {
        let p0 = seed.problem(&data_of(0, 0), equil);
        let (P, A) = (p0.P.to_clarabel(), p0.A.to_clarabel());
        let mut s = DefaultSolver::new(&P, &p0.q, &A, &p0.b, &p0.clarabel_cones(), p0.settings());
        s.print_to_sink();        // the model's "no buffer selected": nothing may reach the process's stdout
        let path = format!("{}/session_{}_{}.json", dir, id, variant);
        let mut buffering = false;
        for op in b["hist"].as_array().unwrap() {
            match op["op"].as_str().unwrap() {
                "solve" => {
                    s.solve();
                    if let Some(m) = check_solve("solve", &s, seed, equil, &op["expect"]) { return Some(m); }
                    let want = op["buflogs"].as_u64().unwrap() as usize;
                    match s.get_print_buffer() {
                        Ok(t) => {
                            if !buffering { return Some(("buffer".into(), "get_print_buffer is Ok although no buffer was selected".into())); }
                            let got = t.matches("Terminated with status").count();
                            if got != want { return Some(("buffer".into(), format!("the buffer holds {} logs after this solve but the model says {}", got, want))); }
                        }
                        Err(_) => if buffering { return Some(("buffer".into(), "get_print_buffer is Err although the buffer is selected".into())); },
                    }
                }
                "update_q" => { let v = op["v"].as_u64().unwrap() as usize; let q: Vec<f64> = (0..2).map(|i| seed.value(1, i, v)).collect();
                    if s.update_q(&q).is_err() { return Some(("solve".into(), "update_q of matching length was rejected".into())); } }
                "update_b" => { let v = op["v"].as_u64().unwrap() as usize; let bb: Vec<f64> = (0..3).map(|i| seed.value(3, i, v)).collect();
                    if s.update_b(&bb).is_err() { return Some(("solve".into(), "update_b of matching length was rejected".into())); } }
                "max_iter" => s.settings.max_iter = op["k"].as_u64().unwrap() as u32,
                "verbose" => s.settings.verbose = op["v"].as_bool().unwrap(),
                "print_to_buffer" => {
                    s.print_to_buffer();
                    buffering = true;
                    if s.get_print_buffer().map(|t| !t.is_empty()).unwrap_or(true) { return Some(("buffer".into(), "a freshly selected buffer is not empty".into())); }
                }
                "save" => {
                    let mut f = std::fs::OpenOptions::new().read(true).write(true).create(true).truncate(true).open(&path).unwrap();
                    if s.save_to_file(&mut f).is_err() { return Some(("load".into(), "save_to_file failed".into())); }
                }
                "load_solve" => {
                    let mut f = std::fs::File::open(&path).unwrap();
                    f.seek(SeekFrom::Start(0)).unwrap();
                    let mut s2 = match DefaultSolver::<f64>::load_from_file(&mut f, None) { Ok(x) => x, Err(e) => return Some(("load".into(), format!("load_from_file failed: {}", e))) };
                    let exp = &op["expect"];
                    if s2.settings.max_iter as u64 != exp["budget"].as_u64().unwrap() || s2.settings.verbose != op["verbose"].as_bool().unwrap() {
                        return Some(("load".into(), format!("the loaded settings (max_iter {}, verbose {}) are not those in force at the save ({}, {})",
                                                            s2.settings.max_iter, s2.settings.verbose, exp["budget"], op["verbose"])));
                    }
                    s2.print_to_sink();
                    s2.solve();
                    if let Some((c, m)) = check_solve("loaded solver", &s2, seed, equil, exp) { return Some((if c == "solve" { "load".into() } else { c }, m)); }
                }
                _ => {}
            }
        }
        let _ = std::fs::remove_file(&path);
        None
    }));
    match res { Ok(r) => r, Err(e) => Some(("panic".into(), format!("panic: {}", crate::rec_ipm::panic_msg(e)))) }
}

/// `only`: comma separated mismatch kinds to report (solve, load, buffer, limit, panic) - each listed property reports its own
pub fn replay_file(path: &str, out: &str, dir: &str, seed: u64, only: &str) -> Value {
    let text = std::fs::read_to_string(path).expect("behaviours");
    let kinds: Vec<&str> = only.split(',').collect();
    let mut bad = vec![];
    let mut n = 0usize;
    let nvar = seeds().len() * 2;
    for (k, line) in text.lines().enumerate() {
        if line.trim().is_empty() { continue; }
        let b: Value = serde_json::from_str(line).expect("json");
        let v = (k + seed as usize) % nvar;
        n += 1;
        if let Some((kind, m)) = replay_one(&b, v, dir, k) {
            if kinds.contains(&kind.as_str()) || kinds.contains(&"all") {
                bad.push(json!({"behaviour": b, "variant": v, "mismatch": m, "class": format!("session_{}", kind)}));
            }
        }
    }
    crate::write_lines(out, &bad);
    json!({"behaviours": n, "mismatches": bad.len(), "distinct_nontrivial": n})
}
