//! spec -> impl replay for Timers.tla: real `clarabel::timers::Timers`, real sleeps.
use clarabel::timers::Timers;
use serde_json::{json, Value};
use std::time::Duration;

fn key(s: &str) -> &'static str { match s { "a" => "a", "b" => "b", _ => "c" } }

pub fn replay_file(path: &str, out: &str, every: usize, tick_ms: u64) -> Value {
    let text = std::fs::read_to_string(path).expect("behaviours");
    let mut bad = vec![];
    let mut n = 0usize;
    let mut with_commit = 0usize;
    for (k, line) in text.lines().enumerate() {
        if line.trim().is_empty() || (every > 1 && k % every != 0) { continue; }
        let b: Value = serde_json::from_str(line).unwrap();
        n += 1;
        let res = std::panic::catch_unwind(|| -> Option<String> {
            let mut t = Timers::default();
            let mut prev = Duration::ZERO;
            for (i, op) in b["hist"].as_array().unwrap().iter().enumerate() {
                match op["op"].as_str().unwrap() {
                    "start" => t.start_as_current(key(op["key"].as_str().unwrap())),
                    "stop" => t.stop_current(),
                    "suspend" => t.suspend(),
                    "resume" => t.resume(),
                    "reset" => t.reset_timer(key(op["key"].as_str().unwrap())),
                    "sleep" => std::thread::sleep(Duration::from_millis(tick_ms)),
                    _ => {}
                }
                let now = t.total_time();
                let ticks = op["total"].as_u64().unwrap();
                // only stop and suspend commit time (OnlyStopSuspendCommit): every other action leaves total_time bit-identical
                let never_commits = matches!(op["op"].as_str().unwrap(), "start" | "resume" | "sleep");
                if never_commits && now != prev {
                    return Some(format!("op {} ({}): total_time changed from {:?} to {:?} although nothing is committed by this action", i, op["op"], prev, now));
                }
                if now < Duration::from_millis(ticks * tick_ms) {
                    return Some(format!("op {} ({}): total_time {:?} is below the {} committed ticks of {} ms", i, op["op"], now, ticks, tick_ms));
                }
                if op["op"] != "reset" && now < prev { return Some(format!("op {}: total_time decreased", i)); }
                prev = now;
            }
            None
        });
        if b["hist"].as_array().unwrap().iter().any(|o| o["total"].as_u64().unwrap() > 0) { with_commit += 1; }
        match res {
            Ok(None) => {}
            Ok(Some(m)) => bad.push(json!({"behaviour": b, "mismatch": m, "class": "timers_mismatch"})),
            Err(_) => bad.push(json!({"behaviour": b, "mismatch": "panic in Timers", "class": "timers_panic"})),
        }
    }
    crate::write_lines(out, &bad);
    json!({"behaviours": n, "mismatches": bad.len(), "distinct_nontrivial": with_commit})
}
