//! Serializable problem / settings description shared by generators, recorders and replay files.
#![allow(non_snake_case)]
use clarabel::algebra::CscMatrix;
use clarabel::solver::{DefaultSettings, SupportedConeT};
use serde::{Deserialize, Serialize};
use serde_json::Value;

#[derive(Clone, Debug, Serialize, Deserialize, PartialEq)]
pub enum ConeSpec {
    Zero(usize),
    Nonneg(usize),
    Soc(usize),
    Exp,
    Pow(f64),
    GenPow(Vec<f64>, usize),
    Psd(usize),
}

impl ConeSpec {
    pub fn numel(&self) -> usize {
        match self {
            ConeSpec::Zero(n) | ConeSpec::Nonneg(n) | ConeSpec::Soc(n) => *n,
            ConeSpec::Exp | ConeSpec::Pow(_) => 3,
            ConeSpec::GenPow(a, d) => a.len() + d,
            ConeSpec::Psd(n) => n * (n + 1) / 2,
        }
    }
    pub fn to_clarabel(&self) -> SupportedConeT<f64> {
        match self {
            ConeSpec::Zero(n) => SupportedConeT::ZeroConeT(*n),
            ConeSpec::Nonneg(n) => SupportedConeT::NonnegativeConeT(*n),
            ConeSpec::Soc(n) => SupportedConeT::SecondOrderConeT(*n),
            ConeSpec::Exp => SupportedConeT::ExponentialConeT(),
            ConeSpec::Pow(a) => SupportedConeT::PowerConeT(*a),
            ConeSpec::GenPow(a, d) => SupportedConeT::GenPowerConeT(a.clone(), *d),
            ConeSpec::Psd(n) => SupportedConeT::PSDTriangleConeT(*n),
        }
    }
    pub fn from_clarabel(c: &SupportedConeT<f64>) -> ConeSpec {
        match c {
            SupportedConeT::ZeroConeT(n) => ConeSpec::Zero(*n),
            SupportedConeT::NonnegativeConeT(n) => ConeSpec::Nonneg(*n),
            SupportedConeT::SecondOrderConeT(n) => ConeSpec::Soc(*n),
            SupportedConeT::ExponentialConeT() => ConeSpec::Exp,
            SupportedConeT::PowerConeT(a) => ConeSpec::Pow(*a),
            SupportedConeT::GenPowerConeT(a, d) => ConeSpec::GenPow(a.clone(), *d),
            SupportedConeT::PSDTriangleConeT(n) => ConeSpec::Psd(*n),
        }
    }
    pub fn is_symmetric(&self) -> bool {
        !matches!(self, ConeSpec::Exp | ConeSpec::Pow(_) | ConeSpec::GenPow(_, _))
    }
    pub fn tag(&self) -> &'static str {
        match self {
            ConeSpec::Zero(_) => "Zero",
            ConeSpec::Nonneg(_) => "Nonneg",
            ConeSpec::Soc(_) => "Soc",
            ConeSpec::Exp => "Exp",
            ConeSpec::Pow(_) => "Pow",
            ConeSpec::GenPow(_, _) => "GenPow",
            ConeSpec::Psd(_) => "Psd",
        }
    }
}

/// Column-compressed matrix with plain fields.
#[derive(Clone, Debug, Serialize, Deserialize, PartialEq)]
pub struct Csc {
    pub m: usize,
    pub n: usize,
    pub colptr: Vec<usize>,
    pub rowval: Vec<usize>,
    pub nzval: Vec<f64>,
}

impl Csc {
    pub fn zeros(m: usize, n: usize) -> Csc {
        Csc { m, n, colptr: vec![0; n + 1], rowval: vec![], nzval: vec![] }
    }
    pub fn from_dense(d: &[Vec<f64>], m: usize, n: usize) -> Csc {
        let mut c = Csc::zeros(m, n);
        for j in 0..n {
            for i in 0..m {
                if d[i][j] != 0.0 {
                    c.rowval.push(i);
                    c.nzval.push(d[i][j]);
                }
            }
            c.colptr[j + 1] = c.rowval.len();
        }
        c
    }
    pub fn to_dense(&self) -> Vec<Vec<f64>> {
        let mut d = vec![vec![0.0; self.n]; self.m];
        for j in 0..self.n {
            for k in self.colptr[j]..self.colptr[j + 1] {
                d[self.rowval[k]][j] += self.nzval[k];
            }
        }
        d
    }
    pub fn to_clarabel(&self) -> CscMatrix<f64> {
        CscMatrix::new(self.m, self.n, self.colptr.clone(), self.rowval.clone(), self.nzval.clone())
    }
    pub fn from_clarabel(a: &CscMatrix<f64>) -> Csc {
        Csc { m: a.m, n: a.n, colptr: a.colptr.clone(), rowval: a.rowval.clone(), nzval: a.nzval.clone() }
    }
    pub fn nnz(&self) -> usize {
        self.rowval.len()
    }
}

#[derive(Clone, Debug, Serialize, Deserialize)]
pub struct Problem {
    pub P: Csc,
    pub q: Vec<f64>,
    pub A: Csc,
    pub b: Vec<f64>,
    pub cones: Vec<ConeSpec>,
    /// partial DefaultSettings object (serde defaults fill the rest); "time_limit" may be absent (= inf)
    #[serde(default)]
    pub settings: Value,
    #[serde(default)]
    pub tag: String,
}

impl Problem {
    pub fn n(&self) -> usize {
        self.q.len()
    }
    pub fn m(&self) -> usize {
        self.b.len()
    }
    pub fn settings(&self) -> DefaultSettings<f64> {
        make_settings(&self.settings)
    }
    pub fn clarabel_cones(&self) -> Vec<SupportedConeT<f64>> {
        self.cones.iter().map(|c| c.to_clarabel()).collect()
    }
    pub fn is_symmetric(&self) -> bool {
        self.cones.iter().all(|c| c.is_symmetric())
    }
}

pub fn make_settings(v: &Value) -> DefaultSettings<f64> {
    let mut s = DefaultSettings::<f64>::default();
    s.verbose = false;
    if let Value::Object(map) = v {
        // go through serde so that field names are exactly the crate's
        let mut full = serde_json::to_value(&sanitize(&s)).unwrap();
        for (k, val) in map {
            full[k] = val.clone();
        }
        let tl = full.get("time_limit").cloned();
        let mut out: DefaultSettings<f64> = serde_json::from_value(full).expect("settings");
        if let Some(Value::Null) = tl {
            out.time_limit = f64::INFINITY;
        }
        if !map.contains_key("time_limit") {
            out.time_limit = f64::INFINITY;
        }
        return out;
    }
    s
}

fn sanitize(s: &DefaultSettings<f64>) -> DefaultSettings<f64> {
    let mut s = s.clone();
    if s.time_limit.is_infinite() {
        s.time_limit = f64::MAX;
    }
    s
}
