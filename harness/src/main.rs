#![recursion_limit = "512"]
#![allow(non_snake_case)]
mod blas_shim;
mod fenc;
mod gen;
mod observer;
mod problem;
mod rec_ipm;
mod rec_more;
mod rec_csc;
mod rec_equil;
mod rec_json;
mod rec_chordal;
mod rec_consist;
mod rec_kkt;
mod rec_conestep;
mod rec_decomp;
mod replay_qdldl;
mod replay_presolve;
mod replay_update;
mod replay_timers;
mod rec_vec;
mod replay_print;
mod replay_session;
mod rec_conealg;
mod rec_conebarrier;
mod rec_direction;

use rand::rngs::StdRng;
use rand::{Rng, SeedableRng};
use serde_json::{json, Value};
use std::collections::HashMap;
use std::io::Write;

pub struct Args {
    pub cmd: String,
    pub kv: HashMap<String, String>,
}
impl Args {
    pub fn get(&self, k: &str, d: &str) -> String {
        self.kv.get(k).cloned().unwrap_or_else(|| d.to_string())
    }
    pub fn num(&self, k: &str, d: u64) -> u64 {
        self.kv.get(k).map(|v| v.parse().expect("number")).unwrap_or(d)
    }
}

fn parse_args() -> Args {
    let a: Vec<String> = std::env::args().collect();
    let cmd = a.get(1).cloned().unwrap_or_default();
    let mut kv = HashMap::new();
    let mut i = 2;
    while i < a.len() {
        if let Some(k) = a[i].strip_prefix("--") {
            if i + 1 < a.len() && !a[i + 1].starts_with("--") {
                kv.insert(k.to_string(), a[i + 1].clone());
                i += 2;
            } else {
                kv.insert(k.to_string(), "1".to_string());
                i += 1;
            }
        } else {
            i += 1;
        }
    }
    Args { cmd, kv }
}

/// TLC's JSON reader rejects `null`: traces never contain it (a null becomes the string "null")
fn no_nulls(v: &Value) -> Value {
    match v {
        Value::Null => Value::String("null".into()),
        Value::Array(a) => Value::Array(a.iter().map(no_nulls).collect()),
        Value::Object(o) => Value::Object(o.iter().map(|(k, x)| (k.clone(), no_nulls(x))).collect()),
        _ => v.clone(),
    }
}

pub fn write_lines(path: &str, lines: &[Value]) {
    let f = std::fs::File::create(path).expect("create");
    let mut w = std::io::BufWriter::new(f);
    for l in lines {
        // (case files are read back by this harness, not by TLC, and keep their nulls)
        if path.contains(".cases") { serde_json::to_writer(&mut w, l).unwrap(); } else { serde_json::to_writer(&mut w, &no_nulls(l)).unwrap(); }
        w.write_all(b"\n").unwrap();
    }
}

fn main() {
    // panics inside the code under test are data: keep stderr quiet
    if std::env::var("VH_SHOW_PANICS").is_err() {
        std::panic::set_hook(Box::new(|_| {}));
    }
    let args = parse_args();
    match args.cmd.as_str() {
        "ipm" => cmd_ipm(&args),
        "ipm-replay" => cmd_ipm_replay(&args),
        "sink-child" => {
            // (used by `print`: one verbose solve into the sink or to stdout; this process prints nothing of its own)
            let mut rng = StdRng::seed_from_u64(7);
            let p = gen_family(&mut rng, "feasible", 4);
            let mut st = p.settings();
            st.verbose = true;
            let (P, A) = (p.P.to_clarabel(), p.A.to_clarabel());
            let mut sv = clarabel::solver::DefaultSolver::new(&P, &p.q, &A, &p.b, &p.clarabel_cones(), st);
            use clarabel::io::ConfigurablePrintTarget;
            use clarabel::solver::IPSolver;
            if args.get("mode", "sink") == "sink" { sv.print_to_sink(); } else { sv.print_to_stdout(); }
            sv.solve();
        }
        "budget" => cmd_budget(&args),
        "shapes" => cmd_shapes(&args),
        "dist" => cmd_dist(&args),
        "print" => cmd_print(&args),
        "timelimit" => cmd_timelimit(&args),
        "faults" => cmd_faults(&args),
        "longrun" => cmd_longrun(&args),
        "presolve-replay" => {
            let r = replay_presolve::replay_file(&args.get("in", "b.ndjson"), &args.get("out", "m.ndjson"), args.num("seed", 1));
            println!("{}", r);
        }
        "equil" => {
            let (lines, cases, meta) = rec_equil::record(args.num("seed", 1), args.num("count", 1000) as usize);
            write_lines(&args.get("out", "equil.ndjson"), &lines);
            write_lines(&args.get("cases", "equil.cases.ndjson"), &cases);
            std::fs::write(args.get("meta", "meta.json"), meta.to_string()).unwrap();
            println!("{}", meta);
        }
        "equil-replay" => {
            let v = load_case(&args);
            let p: problem::Problem = serde_json::from_value(v["problem"].clone()).unwrap();
            write_lines(&args.get("out", "equil.ndjson"), &[rec_equil::event(0, &p)]);
        }
        "update-replay" => {
            let r = replay_update::replay_file(&args.get("in", "b.ndjson"), &args.get("out", "m.ndjson"), args.num("seed", 1), args.num("every", 50) as usize);
            println!("{}", r);
        }
        "json" => {
            let dir = args.get("dir", "/tmp");
            let (mut lines, cases) = rec_json::roundtrip_events(args.num("seed", 1), args.num("count", 300) as usize, &dir);
            lines.extend(rec_json::settings_sweep(&dir));
            let nrt = lines.len();
            lines.extend(rec_json::fault_events(args.num("seed", 1), args.get("tier", "quick") == "thorough", &dir));
            write_lines(&args.get("out", "json.ndjson"), &lines);
            write_lines(&args.get("cases", "json.cases.ndjson"), &cases);
            println!("{}", json!({"roundtrips": nrt, "faults": lines.len() - nrt}));
        }
        "json-replay" => {
            let v = load_case(&args);
            if v.get("sweep").is_some() {
                write_lines(&args.get("out", "json.ndjson"), &rec_json::settings_sweep(&args.get("dir", "/tmp")));
                return;
            }
            let p: problem::Problem = serde_json::from_value(v["problem"].clone()).unwrap();
            let mut lines = vec![];
            let upd = v["update"].as_bool().unwrap_or(false);
            for (sf, mu) in [(false, false), (true, false), (false, true), (true, true)] {
                let ev = rec_json::roundtrip_event_upd(v["run"].as_u64().unwrap_or(0) as usize, &p, &args.get("dir", "/tmp"), sf, mu, upd);
                if ev.get("skipped").is_none() { lines.push(ev); }
            }
            write_lines(&args.get("out", "json.ndjson"), &lines);
        }
        "step-debug" => {
            // diagnostic: the search direction and iterate after `--k` iterations of a recorded case
            let v = load_case(&args);
            let p: problem::Problem = serde_json::from_value(v["problem"].clone()).unwrap();
            let mut st = p.settings();
            st.max_iter = args.num("k", 1) as u32;
            let (P, A) = (p.P.to_clarabel(), p.A.to_clarabel());
            let mut s = clarabel::solver::DefaultSolver::new(&P, &p.q, &A, &p.b, &p.clarabel_cones(), st);
            use clarabel::solver::IPSolver;
            s.solve();
            println!("status {:?} iters {}", s.solution.status, s.solution.iterations);
            println!("lhs: tau {:e} kappa {:e} x {:?} z {:?} s {:?}", s.step_lhs.τ, s.step_lhs.κ, s.step_lhs.x, s.step_lhs.z, s.step_lhs.s);
            println!("prev: tau {:e} kappa {:e} x {:?} z {:?} s {:?}", s.prev_vars.τ, s.prev_vars.κ, s.prev_vars.x, s.prev_vars.z, s.prev_vars.s);
            println!("vars: tau {:e} kappa {:e} x {:?} z {:?} s {:?}", s.variables.τ, s.variables.κ, s.variables.x, s.variables.z, s.variables.s);
        }
        "upd-debug" => {
            // diagnostic: solve; update_q; solve  versus a fresh solver on the updated data (equilibration as in the case)
            let v = load_case(&args);
            let p: problem::Problem = serde_json::from_value(v["problem"].clone()).unwrap();
            let (P, A) = (p.P.to_clarabel(), p.A.to_clarabel());
            use clarabel::solver::IPSolver;
            let q2: Vec<f64> = if args.num("sane", 0) != 0 { p.q.iter().enumerate().map(|(k, _)| 0.5 + k as f64).collect() } else { p.q.iter().enumerate().map(|(k, v)| v * 1.5 + 0.25 * (k as f64 + 1.0)).collect() };
            let mut s1 = clarabel::solver::DefaultSolver::new(&P, &p.q, &A, &p.b, &p.clarabel_cones(), p.settings());
            if args.num("first", 1) != 0 { s1.solve(); println!("first: {:?} {}", s1.solution.status, s1.solution.iterations); }
            s1.update_q(&q2).unwrap();
            if args.num("k", 9999) != 9999 { s1.settings.max_iter = args.num("k", 0) as u32; }
            clarabel::verif::set_detail(100); clarabel::verif::start();
            s1.solve();
            for e in clarabel::verif::take() { if ["LoopTop", "KKTUpdate", "Affine", "Combined", "StepLength", "Scale", "Ckpt"].contains(&e.name) { println!("U {} i={:?} f={:?} v={:?}", e.name, e.i, e.f.iter().take(30).collect::<Vec<_>>(), e.v.iter().map(|v| v.iter().take(2).cloned().collect::<Vec<f64>>()).collect::<Vec<_>>()); } }
            let mut st2 = p.settings();
            if args.num("k", 9999) != 9999 { st2.max_iter = args.num("k", 0) as u32; }
            let mut s2 = clarabel::solver::DefaultSolver::new(&P, &q2, &A, &p.b, &p.clarabel_cones(), st2);
            clarabel::verif::start();
            s2.solve();
            for e in clarabel::verif::take() { if ["LoopTop", "KKTUpdate", "Affine", "Combined", "StepLength", "Scale", "Ckpt"].contains(&e.name) { println!("F {} i={:?} f={:?} v={:?}", e.name, e.i, e.f.iter().take(30).collect::<Vec<_>>(), e.v.iter().map(|v| v.iter().take(2).cloned().collect::<Vec<f64>>()).collect::<Vec<_>>()); } }
            println!("updated info: {:?}", s1.info);
            println!("fresh   info: {:?}", s2.info);
            println!("updated vars: tau {:e} kappa {:e} x {:?} s {:?} z {:?}", s1.variables.τ, s1.variables.κ, s1.variables.x, s1.variables.s, s1.variables.z);
            println!("fresh   vars: tau {:e} kappa {:e} x {:?} s {:?} z {:?}", s2.variables.τ, s2.variables.κ, s2.variables.x, s2.variables.s, s2.variables.z);
            println!("updated: {:?} {} obj {:e}", s1.solution.status, s1.solution.iterations, s1.solution.obj_val);
            println!("fresh  : {:?} {} obj {:e}", s2.solution.status, s2.solution.iterations, s2.solution.obj_val);
            println!("x diff {:e}", s1.solution.x.iter().zip(&s2.solution.x).map(|(a, b)| (a - b).abs()).fold(0.0, f64::max));
        }
        "json-sens" => {
            // diagnostic: verdict histogram of a case under random one-ulp perturbations of its data
            let v = load_case(&args);
            let p: problem::Problem = serde_json::from_value(v["problem"].clone()).unwrap();
            println!("{}", rec_json::sensitivity(&p, args.num("count", 64) as usize));
        }
        "dsu-replay" => {
            let r = rec_chordal::dsu_replay_file(&args.get("in", "b.ndjson"), &args.get("out", "m.ndjson"));
            println!("{}", r);
        }
        "chordal" => {
            let out = args.get("out", "chordal.ndjson");
            let wd = rec_more::Watchdog::start(format!("{}.hang.json", out), args.num("hang_secs", 60));
            let (lines, meta) = rec_chordal::record(args.num("seed", 1), args.get("tier", "quick") == "thorough", &wd);
            write_lines(&out, &lines);
            std::fs::write(args.get("meta", "meta.json"), meta.to_string()).unwrap();
            println!("{}", meta);
        }
        "consist" => {
            let (lines, cases, meta) = rec_consist::record(args.num("seed", 1), args.num("count", 60) as usize);
            write_lines(&args.get("out", "consist.ndjson"), &lines);
            write_lines(&args.get("cases", "consist.cases.ndjson"), &cases);
            std::fs::write(args.get("meta", "meta.json"), meta.to_string()).unwrap();
            println!("{}", meta);
        }
        "consist-replay" => {
            let v = load_case(&args);
            let p: problem::Problem = serde_json::from_value(v["problem"].clone()).unwrap();
            let (lines, _, _) = rec_consist::record_one(v["run"].as_u64().unwrap_or(0) as usize, &p, 12345);
            write_lines(&args.get("out", "consist.ndjson"), &lines);
        }
        "kkt" => {
            let mut lines = rec_kkt::record_structure(args.num("seed", 1), args.get("tier", "quick") == "thorough");
            let ns = lines.len();
            let (l2, cases) = rec_kkt::record_states(args.num("seed", 1), args.num("count", 400) as usize);
            lines.extend(l2);
            write_lines(&args.get("out", "kkt.ndjson"), &lines);
            write_lines(&args.get("cases", "kkt.cases.ndjson"), &cases);
            println!("{}", json!({"layouts": ns, "states": lines.len() - ns}));
        }
        "printseq-replay" => {
            let r = replay_print::replay_file(&args.get("in", "b.ndjson"), &args.get("out", "m.ndjson"), &args.get("dir", "/tmp"));
            println!("{}", r);
        }
        "session-replay" => {
            let r = replay_session::replay_file(&args.get("in", "b.ndjson"), &args.get("out", "m.ndjson"), &args.get("dir", "/tmp"), args.num("seed", 1), &args.get("only", "all"));
            println!("{}", r);
        }
        "conealg" => {
            let (lines, meta) = rec_conealg::record(args.num("seed", 1), args.num("count", 3000) as usize);
            write_lines(&args.get("out", "conealg.ndjson"), &lines);
            println!("{}", meta);
        }
        "conealg-replay" => {
            let v = load_case(&args);
            let c: problem::ConeSpec = serde_json::from_value(v["cone"].clone()).unwrap();
            let g = |k: &str| -> Vec<f64> { v[k].as_array().unwrap().iter().map(|x| x.as_f64().unwrap()).collect() };
            write_lines(&args.get("out", "conealg.ndjson"), &[rec_conealg::event(0, &c, &g("s"), &g("z"), &g("x"), &g("y"), v["sigma_mu"].as_f64().unwrap(), v["y_interior"].as_bool().unwrap(), "replay")]);
        }
        "conebarrier" => {
            let (lines, meta) = rec_conebarrier::record(args.num("seed", 1), args.num("count", 2000) as usize);
            write_lines(&args.get("out", "conebarrier.ndjson"), &lines);
            println!("{}", meta);
        }
        "conebarrier-replay" => {
            let v = load_case(&args);
            let c: problem::ConeSpec = serde_json::from_value(v["cone"].clone()).unwrap();
            let g = |k: &str| -> Vec<f64> { v[k].as_array().unwrap().iter().map(|x| x.as_f64().unwrap()).collect() };
            let gi = |k: &str| -> Vec<i64> { v[k].as_array().unwrap().iter().map(|x| x.as_i64().unwrap()).collect() };
            let e = if v.get("vi").map(|x| x.is_array()).unwrap_or(false) { rec_conebarrier::lattice_event(0, &c, &gi("p"), v["q"].as_i64().unwrap(), &gi("vi")) }
                    else if v.get("side").map(|x| x.is_string()).unwrap_or(false) { rec_conebarrier::exact_boundary_event(0, &c, &g("v"), v["side"].as_str().unwrap()) }
                    else if v.get("v").map(|x| x.is_array()).unwrap_or(false) { rec_conebarrier::membership_event(0, &c, &g("v")) } else { rec_conebarrier::event(0, &c, &g("s"), &g("z"), &g("ds"), &g("dz"), v.get("family").and_then(|x| x.as_str()).unwrap_or("calculus")) };
            write_lines(&args.get("out", "conebarrier.ndjson"), &[e]);
        }
        "direction" => {
            let (lines, cases, meta) = rec_direction::lines(args.num("seed", 1), args.num("count", 300) as usize);
            write_lines(&args.get("out", "direction.ndjson"), &lines);
            write_lines(&args.get("cases", "direction.cases.ndjson"), &cases);
            println!("{}", meta);
        }
        "centrality" => {
            let (lines, cases, meta) = rec_direction::centrality(args.num("seed", 1), args.num("count", 200) as usize);
            write_lines(&args.get("out", "centrality.ndjson"), &lines);
            write_lines(&args.get("cases", "centrality.cases.ndjson"), &cases);
            println!("{}", meta);
        }
        "centrality-replay" => {
            let v = load_case(&args);
            let p: problem::Problem = serde_json::from_value(v["problem"].clone()).unwrap();
            let (lines, _) = rec_direction::centrality_lines(v["run"].as_u64().unwrap_or(0) as usize, &p);
            write_lines(&args.get("out", "centrality.ndjson"), &lines);
        }
        "direction-replay" => {
            let v = load_case(&args);
            let p: problem::Problem = serde_json::from_value(v["problem"].clone()).unwrap();
            let (lines, _) = rec_direction::run_one(v["run"].as_u64().unwrap_or(0) as usize, &p);
            write_lines(&args.get("out", "direction.ndjson"), &lines);
        }
        "vecmath" => {
            let lines = rec_vec::record(args.num("seed", 1), args.get("tier", "quick") == "thorough");
            write_lines(&args.get("out", "vec.ndjson"), &lines);
            println!("{}", json!({"events": lines.len()}));
        }
        "kktsolve" => {
            let (lines, cases) = rec_kkt::record_solves(args.num("seed", 1), args.num("count", 300) as usize);
            write_lines(&args.get("out", "kktsolve.ndjson"), &lines);
            write_lines(&args.get("cases", "kktsolve.cases.ndjson"), &cases);
            let steps: usize = lines.iter().map(|l| l.get("steps").and_then(|x| x.as_array()).map(|a| a.len()).unwrap_or(0)).sum();
            let count = |f: &dyn Fn(&Value) -> bool| lines.iter().filter(|l| f(l)).count();
            println!("{}", json!({"solves": lines.len(), "refinement_steps": steps, "converged": count(&|l| l["converged"] == true),
                "stalled": count(&|l| l["steps"].as_array().map(|a| a.last().map(|s| s["brk"] == true).unwrap_or(false)).unwrap_or(false)),
                "failed": count(&|l| l["ok"] == false), "with_aux": count(&|l| l["p"].as_u64().unwrap_or(0) > 0)}));
        }
        "kkt-replay" => {
            let v = load_case(&args);
            let p: problem::Problem = serde_json::from_value(v["problem"].clone()).unwrap();
            if v.get("solves").is_some() {
                write_lines(&args.get("out", "kkt.ndjson"), &rec_kkt::solve_events_of(v["run"].as_u64().unwrap_or(0) as usize, &p, v["rseed"].as_u64().unwrap_or(0)));
                return;
            }
            write_lines(&args.get("out", "kkt.ndjson"), &[rec_kkt::state_event_hist(v["run"].as_u64().unwrap_or(0) as usize, &p, v["k"].as_u64().unwrap_or(3) as u32, v["first"].as_u64().map(|x| x as u32))]);
        }
        "conestep" => {
            let (lines, meta) = rec_conestep::record(args.num("seed", 1), args.get("tier", "quick") == "thorough");
            write_lines(&args.get("out", "conestep.ndjson"), &lines);
            std::fs::write(args.get("meta", "meta.json"), meta.to_string()).unwrap();
            println!("{}", meta);
        }
        "decomp" => {
            let (lines, cases, meta) = rec_decomp::record(args.num("seed", 1), args.num("count", 300) as usize);
            write_lines(&args.get("out", "decomp.ndjson"), &lines);
            write_lines(&args.get("cases", "decomp.cases.ndjson"), &cases);
            std::fs::write(args.get("meta", "meta.json"), meta.to_string()).unwrap();
            println!("{}", meta);
        }
        "decomp-replay" => {
            let v = load_case(&args);
            let p: problem::Problem = serde_json::from_value(v["problem"].clone()).unwrap();
            let run = v["run"].as_u64().unwrap_or(0) as usize;
            let lines = if v["kind"].as_u64().unwrap_or(0) == 2 { rec_decomp::solved_events(run, &p) } else { vec![rec_decomp::augmented_event(run, &p)] };
            write_lines(&args.get("out", "decomp.ndjson"), &lines);
        }
        "decomp-debug" => {
            let v = load_case(&args);
            let p: problem::Problem = serde_json::from_value(v["problem"].clone()).unwrap();
            use clarabel::solver::*;
            let mut solver = DefaultSolver::new(&p.P.to_clarabel(), &p.q, &p.A.to_clarabel(), &p.b, &p.clarabel_cones(), p.settings());
            solver.solve();
            println!("z_aug {:?}", solver.variables.z);
            println!("z_ret {:?}", solver.solution.z);
            println!("s_aug {:?}", solver.variables.s);
            println!("s_ret {:?}", solver.solution.s);
        }
        "timers-replay" => {
            let r = replay_timers::replay_file(&args.get("in", "b.ndjson"), &args.get("out", "m.ndjson"), args.num("every", 30) as usize, args.num("tick_ms", 2));
            println!("{}", r);
        }
        "csc" => {
            let (lines, meta) = rec_csc::record(args.num("seed", 1), args.get("tier", "quick") == "thorough");
            write_lines(&args.get("out", "csc.ndjson"), &lines);
            std::fs::write(args.get("meta", "meta.json"), meta.to_string()).unwrap();
            println!("{}", meta);
        }
        "qdldl-replay" => {
            let r = replay_qdldl::replay_file(&args.get("in", "behaviours.ndjson"), &args.get("out", "mismatch.ndjson"));
            println!("{}", r);
        }
        "budget-replay" => cmd_budget_replay(&args),
        "print-replay" => cmd_print_replay(&args),
        _ => {
            eprintln!("unknown command {}", args.cmd);
            std::process::exit(2);
        }
    }
}

/// Record IPM traces for a seeded family of problems.
/// Outputs: --out trace ndjson (events), --cases ndjson (one problem per run), --meta json (counters)
fn cmd_ipm(args: &Args) {
    let seed = args.num("seed", 1);
    let count = args.num("count", 100) as usize;
    let family = args.get("family", "mixed");
    let nmax = args.num("nmax", 8) as usize;
    let capture = args.num("print", 0) != 0;
    let mut rng = StdRng::seed_from_u64(seed);
    let mut lines = vec![];
    let mut cases = vec![];
    let mut status_hist: HashMap<String, usize> = HashMap::new();
    let mut panics = vec![];
    let mut iters = vec![];
    let mut nontrivial = std::collections::HashSet::new();
    for run in 0..count {
        let mut p = gen_family(&mut rng, &family, nmax);
        if args.num("settings", 1) != 0 {
            p.settings = gen::random_settings(&mut rng, p.is_symmetric());
        }
        if family == "inverted" {
            // one full tolerance loose, the others tight, reduced tolerances in between, and a budget that cuts the run short:
            // Almost* may only be reported when the REDUCED tolerances hold, whatever the full ones are
            if !p.settings.is_object() { p.settings = json!({}); }
            let which = rng.gen_range(0..3);
            for (i, k) in ["tol_gap_abs", "tol_gap_rel", "tol_feas"].iter().enumerate() { p.settings[*k] = json!(if i == which || (which == 0 && i == 1) { 1e-2 } else { 1e-10 }); }
            for k in ["reduced_tol_gap_abs", "reduced_tol_gap_rel", "reduced_tol_feas"] { p.settings[k] = json!([1e-5, 1e-7][rng.gen_range(0..2)]); }
            p.settings["max_iter"] = json!(rng.gen_range(1..9));
        }
        if family == "gate" {
            if !p.settings.is_object() { p.settings = json!({}); }
            let g = [1.0, 1e3, 1e-2][rng.gen_range(0..3)];
            p.settings["tol_ktratio"] = json!(g);
            p.settings["reduced_tol_ktratio"] = json!(g);
        }
        if capture {
            p.tag.push_str("+print");
        }
        if run % 3 == 1 {
            p.tag.push_str("+touch");
        }
        if run % 4 == 2 && !capture {
            p.tag.push_str("+prior");
        }
        if run % 7 == 3 {
            p.tag.push_str("+flip");
        }
        let opts = rec_ipm::RunOpts { capture_print: capture, detail: args.num("detail", 0) as usize, ..Default::default() };
        let out = rec_ipm::run_ipm(run, &p, &opts);
        cases.push(json!({"run": run, "problem": p}));
        match (&out.result, &out.panic) {
            (Some(r), _) => {
                *status_hist.entry(rec_ipm::STATUS_NAMES[r.status].to_string()).or_default() += 1;
                iters.push(r.iterations);
                if r.iterations >= 2 {
                    nontrivial.insert(fenc::digest(&[&r.x, &r.s, &r.z]));
                }
                lines.extend(out.lines);
            }
            (None, Some(msg)) => {
                panics.push(json!({"run": run, "msg": msg}));
                lines.push(json!({"ev": "Panic", "run": run, "msg": msg}));
            }
            _ => unreachable!(),
        }
    }
    write_lines(&args.get("out", "trace.ndjson"), &lines);
    write_lines(&args.get("cases", "cases.ndjson"), &cases);
    let meta = json!({"runs": count, "events": lines.len(), "status_hist": status_hist, "panics": panics,
                      "distinct_nontrivial": nontrivial.len(), "seed": seed, "family": family});
    std::fs::write(args.get("meta", "meta.json"), serde_json::to_string_pretty(&meta).unwrap()).unwrap();
    println!("{}", meta);
}

/// Re-run one recorded case (a line of the cases file) and print its trace to --out.
fn cmd_ipm_replay(args: &Args) {
    let text = std::fs::read_to_string(args.get("case", "case.json")).expect("case file");
    let v: Value = serde_json::from_str(text.lines().next().unwrap()).unwrap();
    let p: problem::Problem = serde_json::from_value(v["problem"].clone()).unwrap();
    let capture = p.tag.contains("+print");
    let script: Vec<(String, u32, f64)> = v.get("script").and_then(|s| serde_json::from_value(s.clone()).ok()).unwrap_or_default();
    let detail = v.get("detail").and_then(|d| d.as_u64()).unwrap_or(64) as usize;
    let opts = rec_ipm::RunOpts { capture_print: capture, script, detail, ..Default::default() };
    let out = rec_ipm::run_ipm(0, &p, &opts);
    let mut lines = out.lines;
    if let Some(m) = out.panic {
        lines.push(json!({"ev": "Panic", "run": 0, "msg": m}));
    }
    write_lines(&args.get("out", "trace.ndjson"), &lines);
}

pub fn gen_family(rng: &mut StdRng, family: &str, nmax: usize) -> problem::Problem {
    let mut o = gen::GenOpts { nmax, ..Default::default() };
    let fam = if family == "mixed" { ["feasible", "feasible", "pinf", "dinf", "badscale", "infb", "objscale"][rng.gen_range(0..7)] } else { family };
    match fam {
        "infb" => {
            o.inf_rows = 0.3;
            o.max_cones = 3;
            let mut p = gen::planted_feasible(rng, &o);
            // make sure there is a nonnegative cone to carry infinite bounds
            if !p.tag.contains("+infb") { o.allow_nonsym = false; o.psd_max = 0; o.inf_rows = 0.6; p = gen::planted_feasible(rng, &o); }
            p
        }
        "extreme" => {
            // extreme but finite magnitudes on symmetric-cone problems
            o.allow_nonsym = false;
            o.psd_max = 0;
            let mut p = gen::planted_feasible(rng, &o);
            let e = 10f64.powf(gen::unif(rng, 14.0, 20.0));
            match rng.gen_range(0..3) {
                0 => for v in p.q.iter_mut() { *v *= e; },
                1 => for v in p.b.iter_mut() { *v *= -e; },
                _ => { let k = rng.gen_range(0..p.b.len().max(1)); if !p.b.is_empty() { p.b[k] = -e; } }
            }
            p.tag = "extreme".into();
            p
        }
        "socsym" => {
            // symmetric problems rich in second-order cones on both sides of the sparse-expansion threshold
            o.allow_nonsym = false;
            o.psd_max = 0;
            o.soc_max = 9;
            gen::planted_feasible(rng, &o)
        }
        "objscale" => {
            o.obj_scale_exp = 8.0;
            gen::planted_feasible(rng, &o)
        }
        "feasible" => gen::planted_feasible(rng, &o),
        "badscale" => {
            o.bad_scaling = 1.0;
            o.scale_exp = rng.gen_range(2..=6) as f64;
            if rng.gen::<f64>() < 0.5 { gen::planted_feasible(rng, &o) }
            else if rng.gen::<f64>() < 0.5 { gen::planted_pinf(rng, &o) } else { gen::planted_dinf(rng, &o) }
        }
        // (settings for this family are set by the caller: full tolerances LOOSER than the reduced ones, small budgets)
        "inverted" => gen::planted_feasible(rng, &o),
        "gate" => {
            // infeasible, badly scaled (rows and columns spread over up to 8 decades); run with the kappa/tau gate wide open
            // (set by the caller), so that the run stops as soon as the certificate residual test itself passes
            o.bad_scaling = 1.0;
            o.scale_exp = rng.gen_range(3..=8) as f64;
            if rng.gen::<bool>() { gen::planted_pinf(rng, &o) } else { gen::planted_dinf(rng, &o) }
        }
        "pinf" => gen::planted_pinf(rng, &o),
        "dinf" => gen::planted_dinf(rng, &o),
        _ => panic!("family"),
    }
}

/// Budget independence traces (C07): long run vs runs with max_iter = k.
fn cmd_budget(args: &Args) {
    let seed = args.num("seed", 1);
    let count = args.num("count", 50) as usize;
    let kmax = args.num("kmax", 12) as u32;
    let mut rng = StdRng::seed_from_u64(seed);
    let mut lines = vec![];
    let mut cases = vec![];
    let mut shorts = 0;
    for run in 0..count {
        let fam = if run % 3 == 2 && run % 2 == 0 { "socsym".to_string() } else { args.get("family", "mixed") };
        let mut p = gen_family(&mut rng, &fam, args.num("nmax", 8) as usize);
        p.settings = gen::random_settings(&mut rng, p.is_symmetric());
        if let Some(m) = p.settings.as_object_mut() { m.remove("max_iter"); }
        if run % 3 == 2 {
            // same-object history: solve; solve; lower the budget; solve
            let k = rng.gen_range(0..=kmax.min(8));
            let l = rec_ipm::resolve_lines(run, &p, k);
            shorts += l.len().saturating_sub(1);
            lines.extend(l);
            cases.push(json!({"run": run, "problem": p, "kmax": kmax, "resolve_k": k}));
            continue;
        }
        // every fifth problem gets unreachable tolerances: its long run ends by lack of progress (rollback) or by a numerical
        // checkpoint, and the budgets go all the way up to that pass
        let mut kmax = kmax;
        if run % 5 == 1 {
            for k in ["tol_gap_abs", "tol_gap_rel", "tol_feas", "reduced_tol_gap_abs", "reduced_tol_gap_rel", "reduced_tol_feas"] { p.settings[k] = json!(1e-30); }
            kmax = 60;
            p.tag.push_str("+unreachable");
        }
        let (l, _) = rec_ipm::budget_lines(run, &p, kmax);
        shorts += l.len().saturating_sub(1);
        lines.extend(l);
        cases.push(json!({"run": run, "problem": p, "kmax": kmax}));
    }
    write_lines(&args.get("out", "budget.ndjson"), &lines);
    write_lines(&args.get("cases", "budget.cases.ndjson"), &cases);
    let meta = json!({"runs": count, "events": lines.len(), "short_runs": shorts});
    std::fs::write(args.get("meta", "meta.json"), serde_json::to_string(&meta).unwrap()).unwrap();
    println!("{}", meta);
}

/// C04: degenerate shapes under a watchdog + dimension-check cases
fn cmd_shapes(args: &Args) {
    let out = args.get("out", "shapes.ndjson");
    let wd = rec_more::Watchdog::start(format!("{}.hang.json", out), args.num("hang_secs", 60));
    let (lines, cases, st) = rec_more::shapes(args.num("seed", 1), args.num("sample", 1500) as usize,
        args.num("maxlen", 3) as usize, args.num("maxm", 5) as usize, &wd);
    write_lines(&out, &lines);
    write_lines(&args.get("cases", "shapes.cases.ndjson"), &cases);
    let dims = rec_more::dimension_cases();
    write_lines(&args.get("dims", "dims.ndjson"), &dims);
    let meta = json!({"runs": st.runs, "panics": st.panics, "distinct_nontrivial": st.distinct.len(),
                      "status_hist": st.status_hist, "events": lines.len(), "dim_cases": dims.len()});
    std::fs::write(args.get("meta", "meta.json"), serde_json::to_string(&meta).unwrap()).unwrap();
    println!("{}", meta);
}

/// C06: family G, full traces + per-run summary for the distributional postcondition
fn cmd_dist(args: &Args) {
    let (lines, cases, summary) = rec_more::dist_lines(args.num("seed", 1), args.num("count", 2000) as usize);
    write_lines(&args.get("out", "g.ndjson"), &lines);
    write_lines(&args.get("cases", "g.cases.ndjson"), &cases);
    write_lines(&args.get("summary", "g.summary.ndjson"), &summary);
    println!("{}", json!({"runs": summary.len(), "events": lines.len()}));
}

/// C20: print routing cases
fn cmd_print(args: &Args) {
    let seed = args.num("seed", 1);
    let count = args.num("count", 100) as usize;
    let mut rng = StdRng::seed_from_u64(seed);
    let dir = args.get("dir", "/tmp");
    let mut lines = vec![];
    let mut cases = vec![];
    for run in 0..count {
        let mut p = gen_family(&mut rng, &args.get("family", "mixed"), args.num("nmax", 8) as usize);
        if run % 5 == 4 {
            // many cones of one type (the header abbreviates lists longer than five)
            let k = rng.gen_range(4..=9);
            let mut cones: Vec<problem::ConeSpec> = (0..k).map(|_| problem::ConeSpec::Soc(rng.gen_range(2..=5))).collect();
            if rng.gen::<bool>() { cones.insert(rng.gen_range(0..cones.len()), problem::ConeSpec::Nonneg(2)); }
            if rng.gen::<bool>() { for _ in 0..rng.gen_range(1..=7) { cones.push(problem::ConeSpec::Exp); } }
            p = gen::planted_with_cones(&mut rng, &gen::GenOpts::default(), 3, cones);
        }
        if run % 5 == 3 {
            // a sparse SDP, so that the chordal decomposition block is printed
            p = rec_decomp::sparse_sdp(&mut rng, false, false);
        }
        let keep = p.settings.clone();
        p.settings = gen::random_settings(&mut rng, p.is_symmetric());
        if run % 5 == 3 { if let (Some(a), Some(b)) = (p.settings.as_object_mut(), keep.as_object()) { for (k, v) in b { a.insert(k.clone(), v.clone()); } } }
        // a finite time limit now and then (far above the duration of these solves): the banner prints the configured value
        if rng.gen::<f64>() < 0.25 { if !p.settings.is_object() { p.settings = json!({}); } p.settings["time_limit"] = json!([2.5, 0.75, 59.999, 10.0, 3600.0][rng.gen_range(0..5)]); }
        // infinite bounds so that the presolve line is exercised
        if rng.gen::<f64>() < 0.3 {
            let mut off = 0;
            for c in &p.cones {
                if let problem::ConeSpec::Nonneg(k) = c {
                    if *k > 1 { p.b[off] = 1e30; }
                }
                // (an entry at or above the bound in a second-order cone row is capped, never removed, and not counted)
                if let problem::ConeSpec::Soc(k) = c { if *k > 1 && rng.gen::<f64>() < 0.3 { p.b[off] = 1e30; } }
                off += c.numel();
            }
        }
        // explicitly stored zeros are entries: the header counts stored entries
        if run % 6 == 1 && !p.A.nzval.is_empty() { let k = rng.gen_range(0..p.A.nzval.len()); p.A.nzval[k] = 0.0; }
        // error exits now and then: a closing row with step 0 at an iteration > 0 (step limit above max_step_fraction), tiny budgets
        if run % 10 == 7 { if !p.settings.is_object() { p.settings = json!({}); } p.settings["min_terminate_step_length"] = json!([0.995, 1.0, 0.9][rng.gen_range(0..3)]); }
        if run % 10 == 2 { if !p.settings.is_object() { p.settings = json!({}); } p.settings["max_iter"] = json!(rng.gen_range(0..4)); }
        lines.push(rec_more::print_case(run, &p, &dir));
        cases.push(json!({"run": run, "problem": p}));
    }
    lines.push(rec_more::print_case_f32(count + 1));
    // the sink target and the process's real standard output: a child process solves verbosely into the sink (nothing may
    // reach its stdout) and then, as a control, to stdout (the log must arrive)
    for mode in ["sink", "stdout"] {
        let out = std::process::Command::new(std::env::current_exe().unwrap()).arg("sink-child").arg("--mode").arg(mode).output();
        match out {
            Ok(o) => lines.push(json!({"ev": "SinkChild", "run": count, "mode": mode, "ok": o.status.success(), "stdout_len": o.stdout.len()})),
            Err(_) => lines.push(json!({"ev": "SinkChild", "run": count, "mode": mode, "ok": false, "stdout_len": 0})),
        }
    }
    write_lines(&args.get("out", "print.ndjson"), &lines);
    write_lines(&args.get("cases", "print.cases.ndjson"), &cases);
    println!("{}", json!({"runs": count}));
}

/// C04: time limit reached in the middle of a run (sleep injected at a chosen pass)
fn cmd_timelimit(args: &Args) {
    let wd = rec_more::Watchdog::start(format!("{}.hang.json", args.get("out", "trace.ndjson")), args.num("hang_secs", 120));
    let seed = args.num("seed", 1);
    let count = args.num("count", 30) as usize;
    let mut rng = StdRng::seed_from_u64(seed);
    let mut lines = vec![];
    let mut cases = vec![];
    let mut hist: HashMap<String, usize> = HashMap::new();
    for run in 0..count {
        let o = gen::GenOpts { nmax: 8, ..Default::default() };
        let mut p = gen::planted_feasible(&mut rng, &o);
        let k = rng.gen_range(1..=3u32);
        p.settings = json!({"time_limit": 0.05, "tol_feas": 1e-14, "tol_gap_abs": 1e-14, "tol_gap_rel": 1e-14});
        let script = vec![("sleep".to_string(), k, 120.0)];
        let opts = rec_ipm::RunOpts { script: script.clone(), ..Default::default() };
        wd.tick(&json!({"run": run, "problem": p}));
        let out = rec_ipm::run_ipm(run, &p, &opts);
        cases.push(json!({"run": run, "problem": p, "script": script}));
        match (&out.result, &out.panic) {
            (Some(r), _) => {
                *hist.entry(rec_ipm::STATUS_NAMES[r.status].to_string()).or_default() += 1;
                lines.extend(out.lines);
            }
            (None, Some(m)) => lines.push(json!({"ev": "Panic", "run": run, "msg": m})),
            _ => unreachable!(),
        }
    }
    write_lines(&args.get("out", "tl.ndjson"), &lines);
    write_lines(&args.get("cases", "tl.cases.ndjson"), &cases);
    let meta = json!({"runs": count, "status_hist": hist});
    std::fs::write(args.get("meta", "meta.json"), serde_json::to_string(&meta).unwrap()).unwrap();
    println!("{}", meta);
}

/// C04: scripted failures at the solver's internal decision points (scaling update, KKT refactorisation, affine and
/// combined solves, step length) on all problem families: the real control flow must stay inside IPM.tla's actions
/// (strategy switches, rollback, NumericalError / InsufficientProgress exits) and end in a terminal status.
fn cmd_faults(args: &Args) {
    let wd = rec_more::Watchdog::start(format!("{}.hang.json", args.get("out", "trace.ndjson")), args.num("hang_secs", 120));
    let seed = args.num("seed", 1);
    let count = args.num("count", 300) as usize;
    let mut rng = StdRng::seed_from_u64(seed);
    let mut lines = vec![];
    let mut cases = vec![];
    let mut hist: HashMap<String, usize> = HashMap::new();
    let mut points: HashMap<String, usize> = HashMap::new();
    for run in 0..count {
        let fam = ["mixed", "mixed", "socsym", "feasible"][rng.gen_range(0..4)];
        let mut p = gen_family(&mut rng, fam, 8);
        p.settings = gen::random_settings(&mut rng, p.is_symmetric());
        if let Some(m) = p.settings.as_object_mut() { if rng.gen::<f64>() < 0.7 { m.remove("max_iter"); } }
        let mut script = vec![];
        let many = run % 10 == 9;
        if many {
            // long cone lists of one kind, solved verbosely (into a buffer): the banner has to cope with any number of cones
            let k = rng.gen_range(6..=12);
            let kind = rng.gen_range(0..3);
            let cones: Vec<problem::ConeSpec> = (0..k).map(|_| match kind { 0 => problem::ConeSpec::Soc(rng.gen_range(2..=3)), 1 => problem::ConeSpec::Zero(1), _ => problem::ConeSpec::Exp }).collect();
            p = gen::planted_with_cones(&mut rng, &gen::GenOpts::default(), 3, cones);
            p.tag.push_str("+print");
        }
        for _ in 0..if many { 0 } else { rng.gen_range(1..=3) } {
            let pt = ["scale", "kkt", "affine", "combined", "alpha", "alpha"][rng.gen_range(0..6)];
            let k = rng.gen_range(0..7u32);
            let v = if pt == "alpha" { [0.0, 1e-9, 1e-5, 1e-3, 0.3][rng.gen_range(0..5)] } else { 1.0 };
            *points.entry(pt.to_string()).or_default() += 1;
            script.push((pt.to_string(), k, v));
        }
        let opts = rec_ipm::RunOpts { script: script.clone(), capture_print: many, ..Default::default() };
        wd.tick(&json!({"run": run, "problem": p}));
        let out = rec_ipm::run_ipm(run, &p, &opts);
        cases.push(json!({"run": run, "problem": p, "script": script}));
        match (&out.result, &out.panic) {
            (Some(r), _) => {
                *hist.entry(rec_ipm::STATUS_NAMES[r.status].to_string()).or_default() += 1;
                lines.extend(out.lines);
            }
            (None, Some(m)) => lines.push(json!({"ev": "Panic", "run": run, "msg": m})),
            _ => unreachable!(),
        }
    }
    write_lines(&args.get("out", "faults.ndjson"), &lines);
    write_lines(&args.get("cases", "faults.cases.ndjson"), &cases);
    let meta = json!({"runs": count, "status_hist": hist, "points": points});
    std::fs::write(args.get("meta", "meta.json"), serde_json::to_string(&meta).unwrap()).unwrap();
    println!("{}", meta);
}

/// C04: runs to the numerical limit - every tolerance zero, 500 iterations allowed - mostly on nonsymmetric cones,
/// whose iterates then approach the cone boundary to rounding distance (guards and asserts in the barrier code).
fn cmd_longrun(args: &Args) {
    let wd = rec_more::Watchdog::start(format!("{}.hang.json", args.get("out", "trace.ndjson")), args.num("hang_secs", 120));
    let seed = args.num("seed", 1);
    let count = args.num("count", 80) as usize;
    let mut rng = StdRng::seed_from_u64(seed ^ 0x10c9);
    let mut lines = vec![];
    let mut cases = vec![];
    let mut hist: HashMap<String, usize> = HashMap::new();
    let mut iters = 0u64;
    for run in 0..count {
        let k = rng.gen_range(1..=3);
        let mut cones: Vec<problem::ConeSpec> = (0..k).map(|_| match rng.gen_range(0..5) {
            0 => problem::ConeSpec::Exp,
            1 => problem::ConeSpec::Pow((rng.gen_range(205..820) as f64) / 1024.0),
            2 | 3 => { let ka = rng.gen_range(2..=3); problem::ConeSpec::GenPow(gen::genpow_alpha(&mut rng, ka), rng.gen_range(1..=2)) }
            _ => problem::ConeSpec::Soc(rng.gen_range(2..=5)),
        }).collect();
        if rng.gen::<bool>() { cones.push(problem::ConeSpec::Nonneg(rng.gen_range(1..=2))); }
        let n = rng.gen_range(1..=4);
        let mut p = gen::planted_with_cones(&mut rng, &gen::GenOpts::default(), n, cones);
        let mut s = serde_json::Map::new();
        for key in ["tol_gap_abs", "tol_gap_rel", "tol_feas", "tol_infeas_abs", "tol_infeas_rel", "tol_ktratio",
                    "reduced_tol_gap_abs", "reduced_tol_gap_rel", "reduced_tol_feas", "reduced_tol_infeas_abs", "reduced_tol_infeas_rel", "reduced_tol_ktratio"] {
            s.insert(key.into(), json!(0.0));
        }
        s.insert("max_iter".into(), json!(500));
        if rng.gen::<f64>() < 0.3 { s.insert("equilibrate_enable".into(), json!(false)); }
        p.settings = Value::Object(s);
        p.tag.push_str("+longrun");
        wd.tick(&json!({"run": run, "problem": p}));
        let out = rec_ipm::run_ipm(run, &p, &rec_ipm::RunOpts::default());
        cases.push(json!({"run": run, "problem": p}));
        match (&out.result, &out.panic) {
            (Some(r), _) => {
                *hist.entry(rec_ipm::STATUS_NAMES[r.status].to_string()).or_default() += 1;
                iters += r.iterations as u64;
                lines.extend(out.lines);
            }
            (None, Some(m)) => lines.push(json!({"ev": "Panic", "run": run, "msg": m})),
            _ => unreachable!(),
        }
    }
    write_lines(&args.get("out", "longrun.ndjson"), &lines);
    write_lines(&args.get("cases", "longrun.cases.ndjson"), &cases);
    let meta = json!({"runs": count, "status_hist": hist, "iterations": iters});
    std::fs::write(args.get("meta", "meta.json"), serde_json::to_string(&meta).unwrap()).unwrap();
    println!("{}", meta);
}

fn load_case(args: &Args) -> Value {
    let text = std::fs::read_to_string(args.get("case", "case.json")).expect("case file");
    serde_json::from_str(text.lines().next().unwrap()).unwrap()
}

fn cmd_budget_replay(args: &Args) {
    let v = load_case(args);
    let p: problem::Problem = serde_json::from_value(v["problem"].clone()).unwrap();
    let kmax = v.get("kmax").and_then(|k| k.as_u64()).unwrap_or(12) as u32;
    if let Some(k) = v.get("resolve_k").and_then(|k| k.as_u64()) {
        let l = rec_ipm::resolve_lines(v["run"].as_u64().unwrap_or(0) as usize, &p, k as u32);
        write_lines(&args.get("out", "budget.ndjson"), &l);
        return;
    }
    let (l, _) = rec_ipm::budget_lines(v["run"].as_u64().unwrap_or(0) as usize, &p, kmax);
    write_lines(&args.get("out", "budget.ndjson"), &l);
}

fn cmd_print_replay(args: &Args) {
    let v = load_case(args);
    let p: problem::Problem = serde_json::from_value(v["problem"].clone()).unwrap();
    let l = vec![rec_more::print_case(v["run"].as_u64().unwrap_or(0) as usize, &p, &args.get("dir", "/tmp"))];
    write_lines(&args.get("out", "print.ndjson"), &l);
}
