#![recursion_limit = "512"]
#![allow(non_snake_case)]
mod blas_shim;
mod fenc;
mod gen;
mod observer;
mod problem;
mod rec_ipm;

use rand::rngs::StdRng;
use rand::{Rng, SeedableRng};
use serde_json::{json, Value};
use std::collections::HashMap;
use std::io::Write;

pub struct Args {
    pub cmd: String,
    pub kv: HashMap<String, String>,
}
impl Args {
    pub fn get(&self, k: &str, d: &str) -> String {
        self.kv.get(k).cloned().unwrap_or_else(|| d.to_string())
    }
    pub fn num(&self, k: &str, d: u64) -> u64 {
        self.kv.get(k).map(|v| v.parse().expect("number")).unwrap_or(d)
    }
}

fn parse_args() -> Args {
    let a: Vec<String> = std::env::args().collect();
    let cmd = a.get(1).cloned().unwrap_or_default();
    let mut kv = HashMap::new();
    let mut i = 2;
    while i < a.len() {
        if let Some(k) = a[i].strip_prefix("--") {
            if i + 1 < a.len() && !a[i + 1].starts_with("--") {
                kv.insert(k.to_string(), a[i + 1].clone());
                i += 2;
            } else {
                kv.insert(k.to_string(), "1".to_string());
                i += 1;
            }
        } else {
            i += 1;
        }
    }
    Args { cmd, kv }
}

pub fn write_lines(path: &str, lines: &[Value]) {
    let f = std::fs::File::create(path).expect("create");
    let mut w = std::io::BufWriter::new(f);
    for l in lines {
        serde_json::to_writer(&mut w, l).unwrap();
        w.write_all(b"\n").unwrap();
    }
}

fn main() {
    // panics inside the code under test are data: keep stderr quiet
    std::panic::set_hook(Box::new(|_| {}));
    let args = parse_args();
    match args.cmd.as_str() {
        "ipm" => cmd_ipm(&args),
        "ipm-replay" => cmd_ipm_replay(&args),
        _ => {
            eprintln!("unknown command {}", args.cmd);
            std::process::exit(2);
        }
    }
}

/// Record IPM traces for a seeded family of problems.
/// Outputs: --out trace ndjson (events), --cases ndjson (one problem per run), --meta json (counters)
fn cmd_ipm(args: &Args) {
    let seed = args.num("seed", 1);
    let count = args.num("count", 100) as usize;
    let family = args.get("family", "mixed");
    let nmax = args.num("nmax", 8) as usize;
    let capture = args.num("print", 0) != 0;
    let mut rng = StdRng::seed_from_u64(seed);
    let mut lines = vec![];
    let mut cases = vec![];
    let mut status_hist: HashMap<String, usize> = HashMap::new();
    let mut panics = vec![];
    let mut iters = vec![];
    let mut nontrivial = std::collections::HashSet::new();
    for run in 0..count {
        let mut o = gen::GenOpts { nmax, ..Default::default() };
        let fam = if family == "mixed" {
            ["feasible", "feasible", "pinf", "dinf", "badscale"][rng.gen_range(0..5)]
        } else {
            family.as_str()
        };
        let mut p = match fam {
            "feasible" => gen::planted_feasible(&mut rng, &o),
            "badscale" => {
                o.bad_scaling = 1.0;
                o.scale_exp = rng.gen_range(2..=6) as f64;
                if rng.gen::<f64>() < 0.5 { gen::planted_feasible(&mut rng, &o) }
                else if rng.gen::<f64>() < 0.5 { gen::planted_pinf(&mut rng, &o) } else { gen::planted_dinf(&mut rng, &o) }
            }
            "pinf" => gen::planted_pinf(&mut rng, &o),
            "dinf" => gen::planted_dinf(&mut rng, &o),
            _ => panic!("family"),
        };
        if args.num("settings", 1) != 0 {
            p.settings = gen::random_settings(&mut rng, p.is_symmetric());
        }
        if capture {
            p.tag.push_str("+print");
        }
        let opts = rec_ipm::RunOpts { capture_print: capture, detail: 0, ..Default::default() };
        let out = rec_ipm::run_ipm(run, &p, &opts);
        cases.push(json!({"run": run, "problem": p}));
        match (&out.result, &out.panic) {
            (Some(r), _) => {
                *status_hist.entry(rec_ipm::STATUS_NAMES[r.status].to_string()).or_default() += 1;
                iters.push(r.iterations);
                if r.iterations >= 2 {
                    nontrivial.insert(fenc::digest(&[&r.x, &r.s, &r.z]));
                }
                lines.extend(out.lines);
            }
            (None, Some(msg)) => {
                panics.push(json!({"run": run, "msg": msg}));
                lines.push(json!({"ev": "Panic", "run": run, "msg": msg}));
            }
            _ => unreachable!(),
        }
    }
    write_lines(&args.get("out", "trace.ndjson"), &lines);
    write_lines(&args.get("cases", "cases.ndjson"), &cases);
    let meta = json!({"runs": count, "events": lines.len(), "status_hist": status_hist, "panics": panics,
                      "distinct_nontrivial": nontrivial.len(), "seed": seed, "family": family});
    std::fs::write(args.get("meta", "meta.json"), serde_json::to_string_pretty(&meta).unwrap()).unwrap();
    println!("{}", meta);
}

/// Re-run one recorded case (a line of the cases file) and print its trace to --out.
fn cmd_ipm_replay(args: &Args) {
    let text = std::fs::read_to_string(args.get("case", "case.json")).expect("case file");
    let v: Value = serde_json::from_str(text.lines().next().unwrap()).unwrap();
    let p: problem::Problem = serde_json::from_value(v["problem"].clone()).unwrap();
    let capture = p.tag.contains("+print");
    let opts = rec_ipm::RunOpts { capture_print: capture, ..Default::default() };
    let out = rec_ipm::run_ipm(0, &p, &opts);
    let mut lines = out.lines;
    if let Some(m) = out.panic {
        lines.push(json!({"ev": "Panic", "run": 0, "msg": m}));
    }
    write_lines(&args.get("out", "trace.ndjson"), &lines);
}
