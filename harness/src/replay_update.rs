//! spec -> impl replay for DataUpdate.tla (C08).
#![allow(non_snake_case)]
use crate::observer;
use crate::problem::*;
use clarabel::algebra::*;
use clarabel::solver::*;
use serde_json::{json, Value};
use std::panic::{catch_unwind, AssertUnwindSafe};

/// concrete seed problems sharing the abstract signature nnz(P)=3, n=2, nnz(A)=3, m=3
#[derive(Clone)]
pub struct Seed {
    pub name: &'static str,
    pub cones: Vec<ConeSpec>,
    pub base: [Vec<f64>; 4],      // P (triu nz), q, A (nz), b
    pub mult: [[f64; 3]; 4],      // version multipliers per target
    pub a_rows: Vec<usize>,       // row of each A nonzero (col-major: col0 has 2 entries, col1 has 1)
}

pub fn seeds() -> Vec<Seed> {
    let a_rows = vec![1, 2, 0];
    vec![
        Seed { name: "qp_nn_badscale", cones: vec![ConeSpec::Nonneg(3)],
               base: [vec![4.0, 1.0, 2.0], vec![1.0, -2.0], vec![30.0, 0.05, 1.0], vec![1e3, 2e3, 3e3]],
               mult: [[1.0, 2.0, 3.0], [1.0, -2.0, 30.0], [1.0, 2.0, -1.0], [1.0, 2.0, 1e-3]], a_rows: a_rows.clone() },
        Seed { name: "qp_eq_nn", cones: vec![ConeSpec::Zero(1), ConeSpec::Nonneg(2)],
               base: [vec![2.0, -0.5, 3.0], vec![-1.0, 1.0], vec![1.0, 3.0, 2.0], vec![1.0, 2.0, 3.0]],
               mult: [[1.0, 2.0, 0.5], [1.0, 3.0, -1.0], [1.0, 2.0, 0.25], [1.0, 2.0, 0.5]], a_rows: a_rows.clone() },
        Seed { name: "socp", cones: vec![ConeSpec::Soc(3)],
               base: [vec![1.0, 0.2, 1.0], vec![1.0, 1.0], vec![0.5, 30.0, 0.01], vec![5.0, 1.0, 1.0]],
               mult: [[1.0, 2.0, 3.0], [1.0, -1.0, 10.0], [1.0, 2.0, -1.0], [1.0, 2.0, 0.5]], a_rows: a_rows.clone() },
        Seed { name: "expcone", cones: vec![ConeSpec::Exp],
               base: [vec![1.0, 0.1, 2.0], vec![-1.0, 0.5], vec![1.0, 100.0, 0.01], vec![0.0, 1.0, 5.0]],
               mult: [[1.0, 2.0, 3.0], [1.0, 2.0, -1.0], [1.0, 0.5, -1.0], [1.0, 2.0, 0.5]], a_rows },
    ]
}

const TNAMES: [&str; 4] = ["P", "q", "A", "b"];
fn tidx(t: &str) -> usize { TNAMES.iter().position(|x| *x == t).unwrap() }

impl Seed {
    pub fn value(&self, t: usize, i: usize, ver: usize) -> f64 {
        // off-diagonal of P (index 1) shrinks so that P stays positive definite in every combination
        if t == 0 && i == 1 { return self.base[0][1] * [1.0, -0.5, 0.1][ver]; }
        self.base[t][i] * self.mult[t][ver]
    }
    pub fn values(&self, t: usize, vers: &[usize]) -> Vec<f64> { vers.iter().enumerate().map(|(i, &v)| self.value(t, i, v)).collect() }
    fn p_csc(&self, nz: &[f64]) -> CscMatrix<f64> { CscMatrix::new(2, 2, vec![0, 1, 3], vec![0, 0, 1], nz.to_vec()) }
    fn a_csc(&self, nz: &[f64]) -> CscMatrix<f64> { CscMatrix::new(3, 2, vec![0, 2, 3], vec![self.a_rows[0], self.a_rows[1], self.a_rows[2]], nz.to_vec()) }
    pub fn problem(&self, data: &[Vec<usize>; 4], equil: bool) -> Problem {
        let P = self.p_csc(&self.values(0, &data[0]));
        let A = self.a_csc(&self.values(2, &data[2]));
        Problem { P: Csc::from_clarabel(&P), q: self.values(1, &data[1]), A: Csc::from_clarabel(&A), b: self.values(3, &data[3]),
                  cones: self.cones.clone(), settings: json!({"equilibrate_enable": equil, "presolve_enable": true}), tag: self.name.into() }
    }
}

fn model_data(v: &Value) -> [Vec<usize>; 4] {
    let g = |t: &str| -> Vec<usize> { v[t].as_array().unwrap().iter().map(|x| x.as_u64().unwrap() as usize).collect() };
    [g("P"), g("q"), g("A"), g("b")]
}

fn err_name(e: &DataUpdateError) -> String {
    match e {
        DataUpdateError::PresolveIsActive => "PresolveIsActive".into(),
        DataUpdateError::ChordalDecompositionIsActive => "ChordalDecompositionIsActive".into(),
        DataUpdateError::BadFormat(SparseFormatError::IncompatibleDimension) => "IncompatibleDimension".into(),
        DataUpdateError::BadFormat(SparseFormatError::SparsityMismatch) => "SparsityMismatch".into(),
        DataUpdateError::BadFormat(e) => format!("BadFormat:{:?}", e),
    }
}
fn res_name(r: Result<(), DataUpdateError>) -> String { match r { Ok(()) => "Ok".into(), Err(e) => err_name(&e) } }

fn close(a: f64, b: f64) -> bool { (a - b).abs() <= 1e-11 * (a.abs().max(b.abs())) || a == b }

/// internal data (un-equilibrated) must equal the model's data
fn check_data(solver: &DefaultSolver<f64>, seed: &Seed, data: &[Vec<usize>; 4], equil: bool) -> Option<String> {
    let eq = &solver.data.equilibration;
    let d = &solver.data;
    let exact = !equil;
    let cmp = |got: f64, want: f64, what: &str, k: usize| -> Option<String> {
        if (exact && got.to_bits() != want.to_bits() && !(got == 0.0 && want == 0.0)) || (!exact && !close(got, want)) {
            Some(format!("internal {}[{}] corresponds to user value {} but the model's data say {}", what, k, got, want))
        } else { None }
    };
    let prow = [0usize, 0, 1];
    let pcol = [0usize, 1, 1];
    for k in 0..3 {
        let got = d.P.nzval[k] / (eq.c * eq.d[prow[k]] * eq.d[pcol[k]]);
        if let Some(m) = cmp(got, seed.value(0, k, data[0][k]), "P", k) { return Some(m); }
    }
    for k in 0..2 {
        if let Some(m) = cmp(d.q[k] / (eq.c * eq.d[k]), seed.value(1, k, data[1][k]), "q", k) { return Some(m); }
    }
    let acol = [0usize, 0, 1];
    for k in 0..3 {
        let got = d.A.nzval[k] / (eq.e[seed.a_rows[k]] * eq.d[acol[k]]);
        if let Some(m) = cmp(got, seed.value(2, k, data[2][k]), "A", k) { return Some(m); }
    }
    for k in 0..3 {
        if let Some(m) = cmp(d.b[k] / eq.e[k], seed.value(3, k, data[3][k]), "b", k) { return Some(m); }
    }
    None
}

/// the KKT copy holds exactly the internal P and A
fn check_kkt_sync(solver: &DefaultSolver<f64>, tainted: &[bool; 4]) -> Option<String> {
    if let Some(v) = solver.kktsystem.verif_kkt_view() {
        for (k, &idx) in v.map_P.iter().enumerate() {
            if tainted[0] { break; }
            if v.nzval[idx].to_bits() != solver.data.P.nzval[k].to_bits() { return Some(format!("KKT copy of P[{}] is {} but data.P holds {}", k, v.nzval[idx], solver.data.P.nzval[k])); }
        }
        for (k, &idx) in v.map_A.iter().enumerate() {
            if tainted[2] { break; }
            if v.nzval[idx].to_bits() != solver.data.A.nzval[k].to_bits() { return Some(format!("KKT copy of A[{}] is {} but data.A holds {}", k, v.nzval[idx], solver.data.A.nzval[k])); }
        }
    }
    None
}

fn class_of(s: SolverStatus) -> &'static str {
    match s {
        SolverStatus::Solved | SolverStatus::AlmostSolved => "solved",
        SolverStatus::PrimalInfeasible | SolverStatus::AlmostPrimalInfeasible => "pinf",
        SolverStatus::DualInfeasible | SolverStatus::AlmostDualInfeasible => "dinf",
        _ => "other",
    }
}

fn apply_update(solver: &mut DefaultSolver<f64>, seed: &Seed, op: &Value, before: &[Vec<usize>; 4], zipform: bool) -> String {
    let t = tidx(op["t"].as_str().unwrap());
    let form = op["form"].as_str().unwrap();
    let ver = op["ver"].as_u64().unwrap() as usize;
    let len = before[t].len();
    let full: Vec<f64> = (0..len).map(|i| seed.value(t, i, ver)).collect();
    let is_mat = t == 0 || t == 2;
    macro_rules! upd {
        ($arg:expr) => { match t { 0 => res_name(solver.update_P($arg)), 1 => res_name(solver.update_q($arg)), 2 => res_name(solver.update_A($arg)), _ => res_name(solver.update_b($arg)) } };
    }
    macro_rules! updm {
        ($arg:expr) => { if t == 0 { res_name(solver.update_P($arg)) } else { res_name(solver.update_A($arg)) } };
    }
    match form {
        "full" => upd!(&full),
        "csc" if is_mat => { let M = if t == 0 { seed.p_csc(&full) } else { seed.a_csc(&full) }; updm!(&M) }
        "full_badlen" => { let mut v = full.clone(); v.push(1.0); upd!(&v) }
        "csc_badpattern" => {
            // two refinements of the model's "same size, different pattern": different column counts, or
            // identical column pointers with an entry in a different row (chosen by the replay variant)
            let M = if zipform {
                if t == 0 { CscMatrix::new(2, 2, vec![0, 2, 3], vec![0, 1, 1], full.clone()) }
                else { CscMatrix::new(3, 2, vec![0, 1, 3], vec![0, 1, 2], full.clone()) }
            } else if t == 0 { CscMatrix::new(2, 2, vec![0, 1, 3], vec![1, 0, 1], full.clone()) }
            else {
                let other = (0..3).find(|r| *r != seed.a_rows[2]).unwrap();
                CscMatrix::new(3, 2, vec![0, 2, 3], vec![seed.a_rows[0], seed.a_rows[1], other], full.clone())
            };
            updm!(&M)
        }
        "csc_baddim" => {
            let M = if t == 0 { CscMatrix::new(3, 3, vec![0, 1, 3, 3], vec![0, 0, 1], full.clone()) }
                    else { CscMatrix::new(4, 2, vec![0, 2, 3], vec![0, 2, 1], full.clone()) };
            updm!(&M)
        }
        "empty" => { let e: Vec<f64> = vec![]; if zipform { let z: [f64; 0] = []; upd!(&z) } else { upd!(&e) } }
        "partial_first" | "partial_last" | "partial_both" | "partial_bad" => {
            let idx: Vec<usize> = match form { "partial_first" => vec![0], "partial_last" => vec![len - 1], "partial_both" => vec![len - 1, 0], _ => vec![0, len] };
            let vals: Vec<f64> = idx.iter().map(|&i| seed.value(t, i.min(len - 1), ver)).collect();
            if zipform { let z = std::iter::zip(idx.iter(), vals.iter()); upd!(&z) } else { let tup = (idx.clone(), vals.clone()); upd!(&tup) }
        }
        _ => format!("unknown form {}", form),
    }
}

pub fn replay_one(b: &Value, variant: usize) -> Option<String> {
    let blocked = b["blocked"].as_str().unwrap();
    let all = seeds();
    let seed = &all[variant % all.len()];
    let equil = (variant / all.len()) % 2 == 0;
    let zipform = (variant / (2 * all.len())) % 2 == 0;
    let res = catch_unwind(AssertUnwindSafe(|| -> Option<String> {
        let init: [Vec<usize>; 4] = [vec![0; 3], vec![0; 2], vec![0; 3], vec![0; 3]];
        let mut p0 = seed.problem(&init, equil);
        if blocked == "presolve" {
            // an infinite bound in a nonnegative cone activates the presolver
            p0 = all[0].problem(&init, equil);
            p0.b[2] = 1e30;
        }
        if blocked == "chordal" {
            p0 = chordal_problem(equil);
        }
        let (P, A) = (p0.P.to_clarabel(), p0.A.to_clarabel());
        let mut solver = DefaultSolver::new(&P, &p0.q, &A, &p0.b, &p0.clarabel_cones(), p0.settings());
        if blocked != "none" && solver.is_data_update_allowed() {
            return Some(format!("model assumes updates are blocked by {} but the solver allows them", blocked));
        }
        let seed = if blocked == "presolve" { &all[0] } else { seed };
        let mut cur = init.clone();
        // targets whose dependent copies may be stale after a rejected partial update (as in the model)
        let mut tainted = [false; 4];
        for op in b["hist"].as_array().unwrap() {
            let name = op["op"].as_str().unwrap();
            match name {
                "update" => {
                    if blocked != "none" {
                        // any argument: the refusal comes first - and it leaves every stored number where it was
                        let snap = |sv: &DefaultSolver<f64>| -> Vec<u64> { sv.data.q.iter().chain(sv.data.b.iter()).chain(sv.data.P.nzval.iter()).chain(sv.data.A.nzval.iter()).map(|v| v.to_bits()).collect() };
                        let before = snap(&solver);
                        let np = solver.data.P.nzval.len();
                        let rp = res_name(solver.update_P(&vec![3.5; np]));
                        let ra = res_name(solver.update_A(&(vec![0usize], vec![-2.25])));
                        if rp != op["result"].as_str().unwrap() || ra != op["result"].as_str().unwrap() { return Some(format!("matrix update on a blocked solver returned {} / {}", rp, ra)); }
                        let r = res_name(solver.update_q(&vec![1.0; solver.data.n]));
                        if r != op["result"].as_str().unwrap() { return Some(format!("update on a blocked solver returned {} but the model says {}", r, op["result"])); }
                        let r2 = res_name(solver.update_b(&(vec![0usize], vec![1.0])));
                        if r2 != op["result"].as_str().unwrap() { return Some(format!("partial update on a blocked solver returned {}", r2)); }
                        if snap(&solver) != before { return Some("a refused update changed the solver's stored data".into()); }
                        continue;
                    }
                    let got = apply_update(&mut solver, seed, op, &cur, zipform);
                    if got != op["result"].as_str().unwrap() {
                        return Some(format!("update_{} form {} returned {} but the model says {}", op["t"].as_str().unwrap(), op["form"].as_str().unwrap(), got, op["result"]));
                    }
                    cur = model_data(&op["data"]);
                    let ti = tidx(op["t"].as_str().unwrap());
                    let form = op["form"].as_str().unwrap();
                    if form == "partial_bad" { tainted[ti] = true; }
                    if got == "Ok" && (form == "full" || form == "csc") { tainted[ti] = false; }
                    if let Some(m) = check_data(&solver, seed, &cur, equil) { return Some(format!("after update_{} ({}): {}", op["t"].as_str().unwrap(), op["form"].as_str().unwrap(), m)); }
                    if got == "Ok" { if let Some(m) = check_kkt_sync(&solver, &tainted) { return Some(format!("after accepted update_{} ({}): {}", op["t"].as_str().unwrap(), op["form"].as_str().unwrap(), m)); } }
                }
                "update_data" => {
                    let arg = |t: usize| -> Vec<f64> {
                        let a = &op["args"][TNAMES[t]];
                        let len = cur[t].len();
                        match a["kind"].as_str().unwrap() {
                            "empty" => vec![],
                            "full" => (0..len).map(|i| seed.value(t, i, a["ver"].as_u64().unwrap() as usize)).collect(),
                            _ => vec![1.0; len + 1],
                        }
                    };
                    let got = if blocked != "none" { res_name(solver.update_data(&vec![], &vec![], &vec![], &vec![0.0f64; 0])) }
                              else { res_name(solver.update_data(&arg(0), &arg(1), &arg(2), &arg(3))) };
                    if got != op["result"].as_str().unwrap() { return Some(format!("update_data returned {} but the model says {}", got, op["result"])); }
                    if blocked == "none" {
                        let newd = model_data(&op["data"]);
                        for t in 0..4 { if newd[t] != cur[t] { tainted[t] = false; } }
                        cur = newd;
                        if let Some(m) = check_data(&solver, seed, &cur, equil) { return Some(format!("after update_data: {}", m)); }
                        if got == "Ok" { if let Some(m) = check_kkt_sync(&solver, &tainted) { return Some(format!("after update_data: {}", m)); } }
                    }
                }
                "solve" => {
                    if blocked != "none" || !op["compare"].as_bool().unwrap() { solver.solve(); continue; }
                    solver.solve();
                    let pf = seed.problem(&cur, equil);
                    let (P2, A2) = (pf.P.to_clarabel(), pf.A.to_clarabel());
                    let mut fresh = DefaultSolver::new(&P2, &pf.q, &A2, &pf.b, &pf.clarabel_cones(), pf.settings());
                    fresh.solve();
                    let (s1, s2) = (&solver.solution, &fresh.solution);
                    if class_of(s1.status) != class_of(s2.status) {
                        return Some(format!("updated solver ends {:?} but a fresh solver on the same data ends {:?}", s1.status, s2.status));
                    }
                    if class_of(s1.status) == "solved" && (s1.obj_val - s2.obj_val).abs() > 1e-6 * (1.0 + s1.obj_val.abs().max(s2.obj_val.abs())) {
                        return Some(format!("objective {} after updates but {} for a fresh solver", s1.obj_val, s2.obj_val));
                    }
                    if !equil {
                        // identical internal data: the whole computation must be reproduced bit for bit
                        let same = s1.iterations == s2.iterations && s1.status == s2.status
                            && s1.x.iter().zip(&s2.x).all(|(a, b)| a.to_bits() == b.to_bits())
                            && s1.z.iter().zip(&s2.z).all(|(a, b)| a.to_bits() == b.to_bits())
                            && s1.s.iter().zip(&s2.s).all(|(a, b)| a.to_bits() == b.to_bits());
                        if !same { return Some(format!("with equilibration off the updated solver ({} its, x={:?}) does not reproduce a fresh solver ({} its, x={:?}) bit for bit", s1.iterations, s1.x, s2.iterations, s2.x)); }
                    }
                    // the result meets C01-C03 for the final data: reported residuals agree with the observer
                    let o = observer::observe(&pf, &s1.x, &s1.s, &s1.z, &vec![false; 3], f64::INFINITY);
                    if class_of(s1.status) == "solved" {
                        let okp = (s1.r_prim - o.pres).abs() <= 1e-6 * s1.r_prim.abs().max(o.pres.abs()) + o.pres_rho;
                        let okd = (s1.r_dual - o.dres).abs() <= 1e-6 * s1.r_dual.abs().max(o.dres.abs()) + o.dres_rho;
                        if !okp || !okd { return Some(format!("reported residuals ({:e}, {:e}) disagree with the observer's ({:e}, {:e}) on the final data", s1.r_prim, s1.r_dual, o.pres, o.dres)); }
                        if s1.status == SolverStatus::Solved && !(o.pres < 1e-8 * 1.001 + o.pres_rho && o.dres < 1e-8 * 1.001 + o.dres_rho) {
                            return Some(format!("Solved after updates but residuals on the final data are ({:e}, {:e})", o.pres, o.dres));
                        }
                    }
                }
                _ => {}
            }
        }
        None
    }));
    match res { Ok(r) => r, Err(e) => Some(format!("panic: {}", crate::rec_ipm::panic_msg(e))) }
}

/// A history that introduces an "infinite" right-hand side through update_b on a solver built without one.  With
/// presolve disabled a freshly built solver caps such an entry at the infinity bound and keeps the row, which is all
/// an updated solver can do as well: the two must agree (bit for bit with equilibration off).  With presolve enabled
/// a fresh solver removes the row instead; the comparison is made all the same (class `update_introduces_infinite_bound`).
pub fn inf_bound_history(variant: usize) -> Vec<(String, String)> {
    let all = seeds();
    let seed = &all[0];               // nonnegative cone: the only place where a bound can be infinite in a meaningful way
    let equil = variant % 2 == 0;
    let infv = [f64::INFINITY, 1e30, f64::MAX, 1e20][(variant / 2) % 4];
    let mut out = vec![];
    // the module-level bound at its default, and lowered before the solver is built (the cap follows the value in force)
    for (presolve, bound_set, newv) in [(false, None, infv), (true, None, infv), (false, Some(1e6), infv), (true, Some(1e6), infv),
                                        (false, Some(1e6), 1e9), (true, Some(1e6), 1e9)] {
        let res = catch_unwind(AssertUnwindSafe(|| -> Option<(&'static str, String)> {
            clarabel::default_infinity();
            if let Some(bv) = bound_set { clarabel::set_infinity(bv); }
            let cur: [Vec<usize>; 4] = [vec![0; 3], vec![0; 2], vec![0; 3], vec![0; 3]];
            let mut p = seed.problem(&cur, equil);
            p.settings["presolve_enable"] = json!(presolve);
            let (P, A) = (p.P.to_clarabel(), p.A.to_clarabel());
            let mut solver = DefaultSolver::new(&P, &p.q, &A, &p.b, &p.clarabel_cones(), p.settings());
            solver.solve();
            let mut b2 = p.b.clone();
            b2[2] = newv;
            let r = res_name(solver.update_b(&b2));
            if r != "Ok" { return Some(("update_b_infinite_entry_refused", format!("update_b with an infinite entry returned {}", r))); }
            // the internal right-hand side is E * min(b, bound), entry by entry, in the solver's own scaling
            let bound = clarabel::get_infinity();
            for i in 0..b2.len() {
                let want = b2[i].min(bound) * solver.data.equilibration.e[i];
                let got = solver.data.b[i];
                if !((got - want).abs() <= 4.0 * f64::EPSILON * want.abs()) {
                    return Some(("update_b_infinite_entry_uncapped", format!("after update_b set b[2] = {:e} (presolve {}, bound {:e}) the internal b[{}] = {:e} is not e * min(b, bound) = {:e}", newv, presolve, bound, i, got, want)));
                }
            }
            solver.solve();
            let mut fresh = DefaultSolver::new(&P, &p.q, &A, &b2, &p.clarabel_cones(), p.settings());
            fresh.solve();
            let (s1, s2) = (&solver.solution, &fresh.solution);
            // (with presolve enabled a fresh solver removes the row, the updated one can only keep it: the known finding)
            let cls = if presolve { "update_introduces_infinite_bound" } else { "update_b_infinite_entry_differs_from_fresh" };
            if class_of(s1.status) != class_of(s2.status) {
                return Some((cls, format!("after update_b set b[2] = {:e} (presolve {}, bound {:e}) the solver ends {:?} (x = {:?}) but a fresh solver on the same data ends {:?} (x = {:?})",
                                    newv, presolve, bound, s1.status, s1.x, s2.status, s2.x)));
            }
            if class_of(s1.status) == "solved" && (s1.obj_val - s2.obj_val).abs() > 1e-6 * (1.0 + s1.obj_val.abs().max(s2.obj_val.abs())) {
                return Some((cls, format!("after update_b set b[2] = {:e} (presolve {}, bound {:e}) objective {} but {} for a fresh solver", newv, presolve, bound, s1.obj_val, s2.obj_val)));
            }
            if !presolve && !equil {
                let same = s1.iterations == s2.iterations && s1.x.iter().zip(&s2.x).all(|(a, b)| a.to_bits() == b.to_bits());
                if !same { return Some((cls, format!("after update_b set b[2] = {:e} (presolve and equilibration off, bound {:e}) the solve is not the fresh solver's bit for bit", newv, bound))); }
            }
            None
        }));
        clarabel::default_infinity();
        match res {
            Ok(Some((c, m))) => out.push((c.to_string(), m)),
            Ok(None) => {}
            Err(e) => out.push(("update_b_infinite_entry_panic".to_string(), format!("panic: {}", crate::rec_ipm::panic_msg(e)))),
        }
    }
    out
}

/// Updates of P on a solver built with a structurally empty P (a linear program): there is nothing to overwrite, so every
/// non-empty argument form is malformed and must be refused, an empty one is accepted, and the next solve is the fresh solver's.
pub fn empty_p_history(variant: usize) -> Vec<(String, String)> {
    let all = seeds();
    let seed = &all[variant % 2];
    let equil = (variant / 2) % 2 == 0;
    let res = catch_unwind(AssertUnwindSafe(|| -> Vec<(String, String)> {
        let mut out = vec![];
        let cur: [Vec<usize>; 4] = [vec![0; 3], vec![0; 2], vec![0; 3], vec![0; 3]];
        let mut p = seed.problem(&cur, equil);
        p.P = crate::problem::Csc::zeros(2, 2);
        p.q = vec![-1.0, -1.0];                       // bounded over the seeds' feasible sets? not necessarily: verdicts are compared, whatever they are
        let (P, A) = (p.P.to_clarabel(), p.A.to_clarabel());
        let mut solver = DefaultSolver::new(&P, &p.q, &A, &p.b, &p.clarabel_cones(), p.settings());
        solver.solve();
        let full = CscMatrix::new(2, 2, vec![0, 1, 3], vec![0, 0, 1], vec![1.0, 0.5, 2.0]);
        let forms: Vec<(&str, String, bool)> = vec![
            ("a vector of 1 value", res_name(solver.update_P(&vec![1.0])), false),
            ("a vector of 3 values", res_name(solver.update_P(&vec![1.0, 0.5, 2.0])), false),
            ("a CSC matrix with 3 entries", res_name(solver.update_P(&full)), false),
            ("an (index, value) pair at index 0", res_name(solver.update_P(&(vec![0usize], vec![1.0]))), false),
            ("an empty vector", res_name(solver.update_P(&Vec::<f64>::new())), true),
        ];
        for (what, r, want_ok) in forms {
            if (r == "Ok") != want_ok { out.push(("update_P_on_empty_P".to_string(), format!("update_P with {} on a solver whose P has no entries returned {}", what, r))); }
        }
        solver.solve();
        let mut fresh = DefaultSolver::new(&P, &p.q, &A, &p.b, &p.clarabel_cones(), p.settings());
        fresh.solve();
        let (s1, s2) = (&solver.solution, &fresh.solution);
        if class_of(s1.status) != class_of(s2.status) || (class_of(s1.status) == "solved" && (s1.obj_val - s2.obj_val).abs() > 1e-6 * (1.0 + s1.obj_val.abs())) {
            out.push(("update_P_on_empty_P".to_string(), format!("after refused updates of an empty P the solver ends {:?} ({}) but a fresh solver ends {:?} ({})", s1.status, s1.obj_val, s2.status, s2.obj_val)));
        }
        out
    }));
    match res { Ok(v) => v, Err(e) => vec![("update_P_on_empty_P".to_string(), format!("panic: {}", crate::rec_ipm::panic_msg(e)))] }
}

/// A square A whose stored pattern happens to be upper triangular: a matrix-form update with further entries below the diagonal
/// has a different pattern and must be refused, leaving A as it was (the upper-triangle convention concerns P only).
pub fn square_a_history(variant: usize) -> Vec<(String, String)> {
    let equil = variant % 2 == 0;
    let res = catch_unwind(AssertUnwindSafe(|| -> Vec<(String, String)> {
        let mut out = vec![];
        let P = CscMatrix::new(2, 2, vec![0, 1, 2], vec![0, 1], vec![2.0, 1.0]);
        let A = CscMatrix::new(2, 2, vec![0, 1, 3], vec![0, 0, 1], vec![1.0, 0.5, 2.0]);          // [[1, .5], [0, 2]]
        let (q, b) = (vec![-1.0, -1.0], vec![1.0, 3.0]);
        let cones = [clarabel::solver::SupportedConeT::NonnegativeConeT(2)];
        let st = || { let mut s = DefaultSettings::<f64>::default(); s.verbose = false; s.equilibrate_enable = equil; s.presolve_enable = false; s };
        let mut solver = DefaultSolver::new(&P, &q, &A, &b, &cones, st());
        solver.solve();
        let full = CscMatrix::new(2, 2, vec![0, 2, 4], vec![0, 1, 0, 1], vec![1.0, 7.0, 0.5, 2.0]);
        let r = res_name(solver.update_A(&full));
        if r == "Ok" { out.push(("update_A_square_pattern".to_string(), "update_A with a full 2 x 2 matrix on a solver whose A stores 3 entries (upper triangular pattern) returned Ok".to_string())); }
        let r2 = res_name(solver.update_data(&Vec::<f64>::new(), &Vec::<f64>::new(), &full, &Vec::<f64>::new()));
        if r2 == "Ok" { out.push(("update_A_square_pattern".to_string(), "update_data with that matrix for A returned Ok".to_string())); }
        solver.solve();
        let mut fresh = DefaultSolver::new(&P, &q, &A, &b, &cones, st());
        fresh.solve();
        let (s1, s2) = (&solver.solution, &fresh.solution);
        if class_of(s1.status) != class_of(s2.status) || (s1.obj_val - s2.obj_val).abs() > 1e-6 * (1.0 + s1.obj_val.abs()) {
            out.push(("update_A_square_pattern".to_string(), format!("after the refused update the solver ends {:?} ({}) but a fresh solver ends {:?} ({})", s1.status, s1.obj_val, s2.status, s2.obj_val)));
        }
        out
    }));
    match res { Ok(v) => v, Err(e) => vec![("update_A_square_pattern".to_string(), format!("panic: {}", crate::rec_ipm::panic_msg(e)))] }
}

/// A history through an overflowed solve: a problem whose cost is ~1e300 ends NumericalError with non-finite iterates
/// and work vectors; the cost is then repaired through update_q (a sane vector, or another huge one) and the solver is
/// run again.  The run must be a fresh solver's (this problem has equilibration off: bit for bit).
pub fn overflow_history(variant: usize) -> Option<String> {
    let p0: Problem = serde_json::from_str(include_str!("../data/overflow_case.json")).expect("embedded case");
    let sane = variant % 2 == 0;
    let res = catch_unwind(AssertUnwindSafe(|| -> Option<String> {
        let q2: Vec<f64> = if sane { (0..p0.q.len()).map(|k| 0.5 + k as f64).collect() } else { p0.q.iter().enumerate().map(|(k, v)| v * 1.5 + 0.25 * (k as f64 + 1.0)).collect() };
        let (P, A) = (p0.P.to_clarabel(), p0.A.to_clarabel());
        let mut solver = DefaultSolver::new(&P, &p0.q, &A, &p0.b, &p0.clarabel_cones(), p0.settings());
        solver.solve();
        if solver.solution.status != SolverStatus::NumericalError { return None; }   // (the premise: an overflowed first solve)
        let r = res_name(solver.update_q(&q2));
        if r != "Ok" { return Some(format!("overflow history: update_q returned {}", r)); }
        solver.solve();
        let mut fresh = DefaultSolver::new(&P, &q2, &A, &p0.b, &p0.clarabel_cones(), p0.settings());
        fresh.solve();
        let (s1, s2) = (&solver.solution, &fresh.solution);
        let same = s1.status == s2.status && s1.iterations == s2.iterations
            && (s1.obj_val.to_bits() == s2.obj_val.to_bits() || (s1.obj_val.is_nan() && s2.obj_val.is_nan()))
            && s1.x.iter().zip(&s2.x).all(|(a, b)| a.to_bits() == b.to_bits() || (a.is_nan() && b.is_nan()));
        if !same {
            return Some(format!("after a solve that overflowed (|q| ~ 1e300 -> NumericalError) and update_q with {} data, the solver ends {:?} after {} iterations (obj {}) but a fresh solver on the same data ends {:?} after {} (obj {})",
                                if sane { "sane" } else { "huge" }, s1.status, s1.iterations, s1.obj_val, s2.status, s2.iterations, s2.obj_val));
        }
        None
    }));
    match res { Ok(r) => r, Err(e) => Some(format!("panic: {}", crate::rec_ipm::panic_msg(e))) }
}

/// Histories through a poisoned solve on the seed problems (nonnegative, equality + nonnegative, second-order,
/// exponential): one data term is overwritten through the update API with NaN / infinite / 1e308 entries, the solver is
/// run (whatever happens), the original data are written back through the same entry point and the solver is run again.
/// The data are then bit for bit those of a solver built on the original problem, so the last solve must be that solver's.
pub fn poison_history(variant: usize) -> Option<String> {
    let all = seeds();
    let seed = &all[variant % all.len()];
    let kind = (variant / all.len()) % 7;
    let equil = (variant / (all.len() * 7)) % 2 == 0;
    let cur: [Vec<usize>; 4] = [vec![0; 3], vec![0; 2], vec![0; 3], vec![0; 3]];
    let p = seed.problem(&cur, equil);
    let res = catch_unwind(AssertUnwindSafe(|| -> Option<String> {
        let (P, A) = (p.P.to_clarabel(), p.A.to_clarabel());
        let pt = P.to_triu();
        let mk = || DefaultSolver::new(&P, &p.q, &A, &p.b, &p.clarabel_cones(), p.settings());
        let mut solver = mk();
        if !solver.is_data_update_allowed() { return None; }
        solver.solve();
        let with = |v: &[f64], f: &dyn Fn(usize, f64) -> f64| -> Vec<f64> { v.iter().enumerate().map(|(i, x)| f(i, *x)).collect() };
        let (what, r1) = match kind {
            0 => ("update_q with a NaN entry", res_name(solver.update_q(&with(&p.q, &|i, x| if i == 0 { f64::NAN } else { x })))),
            1 => ("update_q with an infinite entry", res_name(solver.update_q(&with(&p.q, &|i, x| if i == 0 { f64::INFINITY } else { x })))),
            2 => ("update_q with entries 1e308", res_name(solver.update_q(&with(&p.q, &|_, _| 1e308)))),
            3 => ("update_A with entries 1e308", res_name(solver.update_A(&with(&A.nzval, &|_, _| 1e308)))),
            4 => ("update_A with a NaN entry", res_name(solver.update_A(&with(&A.nzval, &|i, x| if i == 0 { f64::NAN } else { x })))),
            5 => ("update_P with entries 1e308", res_name(solver.update_P(&with(&pt.nzval, &|_, _| 1e308)))),
            _ => ("update_b with a NaN entry", res_name(solver.update_b(&with(&p.b, &|i, x| if i == 0 { f64::NAN } else { x })))),
        };
        if r1 != "Ok" { return None; }          // (a refused update leaves nothing to compare)
        solver.solve();
        let mid = solver.solution.status;
        let r2 = match kind { 0 | 1 | 2 => res_name(solver.update_q(&p.q)), 3 | 4 => res_name(solver.update_A(&A.nzval)),
                              5 => res_name(solver.update_P(&pt.nzval)), _ => res_name(solver.update_b(&p.b)) };
        if r2 != "Ok" { return Some(format!("poison history on {}: writing the original data back returned {}", seed.name, r2)); }
        solver.solve();
        let mut fresh = mk();
        fresh.solve();
        let (s1, s2) = (&solver.solution, &fresh.solution);
        // without equilibration bit for bit; with it the update path scales the data by one product where the constructor
        // multiplied step by step, so the scaled data agree only up to rounding: same verdict and objective to 1e-6
        let close = |a: f64, b: f64| (a.is_nan() && b.is_nan()) || (a - b).abs() <= 1e-6 * (1.0 + a.abs().max(b.abs()));
        let same = if equil { s1.status == s2.status && close(s1.obj_val, s2.obj_val) && s1.x.iter().zip(&s2.x).all(|(a, b)| close(*a, *b) || (a - b).abs() <= 1e-5) }
            else { s1.status == s2.status && s1.iterations == s2.iterations
            && (s1.obj_val.to_bits() == s2.obj_val.to_bits() || (s1.obj_val.is_nan() && s2.obj_val.is_nan()))
            && s1.x.iter().zip(&s2.x).all(|(a, b)| a.to_bits() == b.to_bits() || (a.is_nan() && b.is_nan()))
            && s1.z.iter().zip(&s2.z).all(|(a, b)| a.to_bits() == b.to_bits() || (a.is_nan() && b.is_nan())) };
        if !same {
            return Some(format!("poison history on {} (equilibration {}): after {} (that solve ended {:?}) and the original data written back, the solver ends {:?} after {} iterations (obj {}) but a solver built on the same data ends {:?} after {} (obj {})",
                                seed.name, equil, what, mid, s1.status, s1.iterations, s1.obj_val, s2.status, s2.iterations, s2.obj_val));
        }
        None
    }));
    match res { Ok(r) => r, Err(e) => Some(format!("panic: {}", crate::rec_ipm::panic_msg(e))) }
}

/// Histories whose verdict changes class: a solved problem is made primal infeasible (update_b) or dual infeasible (update_q)
/// and back; every solve must be a fresh solver's on the same data - verdict, certificate, and objective values (NaN for
/// infeasibility verdicts, finite again afterwards).
pub fn verdict_change_history(variant: usize) -> Option<String> {
    let equil = variant % 2 == 0;
    let dual = (variant / 2) % 2 == 1;
    let res = catch_unwind(AssertUnwindSafe(|| -> Option<String> {
        // min q x  s.t.  x >= 1, x <= ub      (rows: -x + s1 = -1,  x + s2 = ub)
        let a = Csc::from_dense(&[vec![-3.0], vec![0.5]], 2, 1);
        let pm = Csc::from_dense(&[vec![0.0]], 1, 1);
        let mk = |q: f64, b: [f64; 2]| Problem { P: pm.clone(), q: vec![q], A: a.clone(), b: b.to_vec(), cones: vec![ConeSpec::Nonneg(2)],
                                                  settings: json!({"equilibrate_enable": equil, "presolve_enable": false}), tag: "verdict".into() };
        let stages: Vec<(f64, [f64; 2])> = if dual { vec![(1.0, [-3.0, 2.0]), (-1.0, [-3.0, 2.0]), (-1.0, [-3.0, 2.0]), (1.0, [-3.0, 2.0])] }
                                           else { vec![(1.0, [-3.0, 2.0]), (1.0, [-3.0, 0.25]), (1.0, [-3.0, 2.0])] };
        // (dual variant: the upper bound row is made vacuous by a zero coefficient below, so that q = -1 is unbounded)
        let a2 = if dual { Csc::from_dense(&[vec![-3.0], vec![0.0]], 2, 1) } else { a.clone() };
        let build = |q: f64, b: [f64; 2]| { let mut p = mk(q, b); p.A = a2.clone(); p };
        let p0 = build(stages[0].0, stages[0].1);
        let (P, A) = (p0.P.to_clarabel(), p0.A.to_clarabel());
        let mut solver = DefaultSolver::new(&P, &p0.q, &A, &p0.b, &p0.clarabel_cones(), p0.settings());
        for (k, (q, b)) in stages.iter().enumerate() {
            if k > 0 {
                if res_name(solver.update_q(&vec![*q])) != "Ok" || res_name(solver.update_b(&b.to_vec())) != "Ok" { return None; }
            }
            solver.solve();
            let pf = build(*q, *b);
            let mut fresh = DefaultSolver::new(&P, &pf.q, &A, &pf.b, &pf.clarabel_cones(), pf.settings());
            fresh.solve();
            let (s1, s2) = (&solver.solution, &fresh.solution);
            // the premise of this history: the middle stage is an infeasibility verdict, the others are solved
            let want_inf = k == 1 || (dual && k == 2);
            let is_inf = matches!(s2.status, SolverStatus::PrimalInfeasible | SolverStatus::DualInfeasible);
            if want_inf != is_inf { return Some(format!("verdict-change history: premise failed at stage {} (a fresh solver ends {:?})", k, s2.status)); }
            let same = s1.status == s2.status && s1.iterations == s2.iterations
                && (s1.obj_val.to_bits() == s2.obj_val.to_bits() || (s1.obj_val.is_nan() && s2.obj_val.is_nan()))
                && (s1.obj_val_dual.to_bits() == s2.obj_val_dual.to_bits() || (s1.obj_val_dual.is_nan() && s2.obj_val_dual.is_nan()))
                && s1.x.iter().zip(&s2.x).all(|(a, b)| a.to_bits() == b.to_bits())
                && s1.z.iter().zip(&s2.z).all(|(a, b)| a.to_bits() == b.to_bits());
            if !same {
                return Some(format!("verdict-change history ({} infeasible, equilibration {}), stage {}: the updated solver ends {:?} after {} iterations with objective {} / {} but a solver built on the same data ends {:?} after {} with {} / {}",
                                    if dual { "dual" } else { "primal" }, equil, k, s1.status, s1.iterations, s1.obj_val, s1.obj_val_dual, s2.status, s2.iterations, s2.obj_val, s2.obj_val_dual));
            }
        }
        None
    }));
    match res { Ok(r) => r, Err(e) => Some(format!("panic: {}", crate::rec_ipm::panic_msg(e))) }
}

/// Re-solve histories on planted problems with the cone types the seed problems lack (generalised power cones with several
/// tail entries, exponential + power, a large second-order cone): solve, write the same right-hand side back through the
/// update API, solve again - bit for bit the first solve (equilibration off: identical internal data).
pub fn resolve_history(variant: usize) -> Option<String> {
    use rand::SeedableRng;
    let mut rng = rand::rngs::StdRng::seed_from_u64(0x5e50 + variant as u64);
    let lists: Vec<Vec<ConeSpec>> = vec![
        vec![ConeSpec::GenPow(vec![0.3, 0.7], 2)], vec![ConeSpec::GenPow(vec![0.2, 0.3, 0.5], 3), ConeSpec::Nonneg(2)],
        vec![ConeSpec::Exp, ConeSpec::Pow(0.4)], vec![ConeSpec::Soc(6), ConeSpec::Nonneg(1)], vec![ConeSpec::GenPow(vec![0.5, 0.5], 2), ConeSpec::Exp]];
    let cones = lists[variant % lists.len()].clone();
    let o = crate::gen::GenOpts { nmax: 3, ..Default::default() };
    let mut p = crate::gen::planted_with_cones(&mut rng, &o, 2 + variant % 2, cones);
    p.settings = json!({"equilibrate_enable": false, "presolve_enable": false});
    let res = catch_unwind(AssertUnwindSafe(|| -> Option<String> {
        let (P, A) = (p.P.to_clarabel(), p.A.to_clarabel());
        let mut solver = DefaultSolver::new(&P, &p.q, &A, &p.b, &p.clarabel_cones(), p.settings());
        if !solver.is_data_update_allowed() { return None; }
        solver.solve();
        let first = (solver.solution.status, solver.solution.iterations, solver.solution.x.clone(), solver.solution.z.clone(), solver.solution.obj_val);
        if res_name(solver.update_b(&p.b)) != "Ok" { return None; }
        solver.solve();
        let s1 = &solver.solution;
        let same = s1.status == first.0 && s1.iterations == first.1 && (s1.obj_val.to_bits() == first.4.to_bits() || (s1.obj_val.is_nan() && first.4.is_nan()))
            && s1.x.iter().zip(&first.2).all(|(a, b)| a.to_bits() == b.to_bits() || (a.is_nan() && b.is_nan()))
            && s1.z.iter().zip(&first.3).all(|(a, b)| a.to_bits() == b.to_bits() || (a.is_nan() && b.is_nan()));
        if !same {
            return Some(format!("re-solve history on cones {:?}: after update_b with the same data the solver ends {:?} after {} iterations (obj {}) but its first solve ended {:?} after {} (obj {})",
                                p.cones, s1.status, s1.iterations, s1.obj_val, first.0, first.1, first.4));
        }
        None
    }));
    match res { Ok(r) => r, Err(e) => Some(format!("panic: {}", crate::rec_ipm::panic_msg(e))) }
}

/// A history in which wall-clock time matters: a finite time_limit, and every solve is delayed (scripted sleep at
/// iteration 1) by 40% of the limit.  Each solve alone stays far inside the limit, so every solve of the updated
/// solver must end like a fresh solver's (which is delayed in the same way); only time charged from *earlier*
/// solves of the same object could make the third one stop with MaxTime.
pub fn timed_history(variant: usize) -> Option<String> {
    use clarabel::verif;
    let all = seeds();
    let seed = &all[variant % all.len()];
    let (limit, delay_ms) = (2.0f64, 800.0f64);
    let res = catch_unwind(AssertUnwindSafe(|| -> Option<String> {
        let mut cur: [Vec<usize>; 4] = [vec![0; 3], vec![0; 2], vec![0; 3], vec![0; 3]];
        let mk = |cur: &[Vec<usize>; 4]| -> (Problem, DefaultSolver<f64>) {
            let mut p = seed.problem(cur, true);
            p.settings["time_limit"] = json!(limit);
            let (P, A) = (p.P.to_clarabel(), p.A.to_clarabel());
            let s = DefaultSolver::new(&P, &p.q, &A, &p.b, &p.clarabel_cones(), p.settings());
            (p, s)
        };
        let t_s = std::time::Instant::now();
        let (_, mut solver) = mk(&cur);
        let setup_wall = t_s.elapsed().as_secs_f64();
        for round in 0..3usize {
            verif::set_script(vec![("sleep".to_string(), 1, delay_ms)]);
            let t0 = std::time::Instant::now();
            solver.solve();
            let wall = t0.elapsed().as_secs_f64();
            let (_, mut fresh) = mk(&cur);
            fresh.solve();
            verif::set_script(vec![]);
            let (s1, s2) = (&solver.solution, &fresh.solution);
            // if the machine is so loaded that one delayed solve comes near the limit, nothing can be concluded
            if wall > 0.75 * limit || fresh.info.solve_time > 0.75 * limit { return None; }
            // (iteration counts may differ: the updated solver keeps the equilibration of its original data)
            if class_of(s1.status) != class_of(s2.status) {
                return Some(format!("timed history, solve {}: the updated solver ends {:?} after {} iterations (this solve took {:.3}s of a {}s limit, reported solve_time {:.3}s) but a fresh solver on the same data ends {:?} after {}",
                                    round + 1, s1.status, s1.iterations, wall, limit, s1.solve_time, s2.status, s2.iterations));
            }
            // the time reported for a solve cannot exceed the wall-clock time of that call plus the setup
            if s1.solve_time > wall + setup_wall + 0.05 {
                return Some(format!("timed history, solve {}: reported solve_time {:.3}s exceeds the call's wall-clock time {:.3}s", round + 1, s1.solve_time, wall));
            }
            let ver = round + 1;
            let t = [1usize, 3, 1][round];
            let full: Vec<f64> = (0..cur[t].len()).map(|i| seed.value(t, i, ver.min(2))).collect();
            let r = if t == 1 { res_name(solver.update_q(&full)) } else { res_name(solver.update_b(&full)) };
            if r != "Ok" { return Some(format!("timed history: update returned {}", r)); }
            cur[t] = vec![ver.min(2); cur[t].len()];
        }
        None
    }));
    clarabel::verif::set_script(vec![]);
    match res { Ok(r) => r, Err(e) => Some(format!("panic: {}", crate::rec_ipm::panic_msg(e))) }
}

/// an SDP whose PSD(4) cone has an arrow aggregate pattern, so that it is chordally decomposed
pub fn chordal_problem(equil: bool) -> Problem {
    let n = 4usize; // one variable per diagonal-ish entry
    let dim = 4usize;
    let m = dim * (dim + 1) / 2;
    let mut a = vec![vec![0.0; n]; m];
    let mut b = vec![0.0; m];
    // svec index of (i,j), i <= j, column-major upper triangle
    let idx = |i: usize, j: usize| j * (j + 1) / 2 + i;
    for k in 0..dim { a[idx(k, k)][k] = -1.0; b[idx(k, k)] = 1.0; }   // s_kk = 1 + x_k
    for j in 1..dim { b[idx(0, j)] = 0.3 * std::f64::consts::SQRT_2; } // arrow: only (0,j) off-diagonals are nonzero
    Problem { P: Csc::zeros(n, n), q: vec![1.0; n], A: Csc::from_dense(&a, m, n), b, cones: vec![ConeSpec::Psd(dim)],
              settings: json!({"equilibrate_enable": equil}), tag: "chordal".into() }
}

pub fn replay_file(path: &str, out: &str, seed: u64, every: usize) -> Value {
    let text = std::fs::read_to_string(path).expect("behaviours");
    let mut bad = vec![];
    let (mut n, mut compared) = (0usize, 0usize);
    let nvar = seeds().len() * 4;
    let mut timed_done = false;
    for (k, line) in text.lines().enumerate() {
        if line.trim().is_empty() { continue; }
        let b: Value = serde_json::from_str(line).expect("json");
        if let Some(v) = b.get("infb").and_then(|x| x.as_u64()) {
            n += 1;
            timed_done = true;
            for (class, m) in inf_bound_history(v as usize) { bad.push(json!({"behaviour": b, "variant": v, "mismatch": m, "class": class})); }
            for (class, m) in empty_p_history(v as usize).into_iter().chain(square_a_history(v as usize)) { bad.push(json!({"behaviour": b, "variant": v, "mismatch": m, "class": class})); }
            continue;
        }
        if let Some(v) = b.get("overflow").and_then(|x| x.as_u64()) {
            n += 1;
            timed_done = true;
            if let Some(m) = overflow_history(v as usize) { bad.push(json!({"behaviour": b, "variant": v, "mismatch": m, "class": "solve_after_overflowed_solve"})); }
            continue;
        }
        if let Some(v) = b.get("poison").and_then(|x| x.as_u64()) {
            n += 1;
            timed_done = true;
            if let Some(m) = poison_history(v as usize) { bad.push(json!({"behaviour": b, "variant": v, "mismatch": m, "class": "solve_after_poisoned_solve"})); }
            continue;
        }
        if let Some(v) = b.get("verdict").and_then(|x| x.as_u64()) {
            n += 1;
            timed_done = true;
            if let Some(m) = verdict_change_history(v as usize) { bad.push(json!({"behaviour": b, "variant": v, "mismatch": m, "class": "verdict_change_history"})); }
            continue;
        }
        if let Some(v) = b.get("resolve").and_then(|x| x.as_u64()) {
            n += 1;
            timed_done = true;
            if let Some(m) = resolve_history(v as usize) { bad.push(json!({"behaviour": b, "variant": v, "mismatch": m, "class": "resolve_history"})); }
            continue;
        }
        if b.get("timed").is_some() {
            n += 1;
            timed_done = true;
            if let Some(m) = timed_history(seed as usize) { bad.push(json!({"behaviour": b, "variant": seed, "mismatch": m, "class": "timed_history"})); }
            continue;
        }
        // every behaviour on one variant (rotating with the seed); every `every`-th on all variants
        let variants: Vec<usize> = if every > 0 && k % every == 0 { (0..nvar).collect() } else { vec![(k + seed as usize) % nvar] };
        for v in variants {
            n += 1;
            if b["hist"].as_array().unwrap().iter().any(|o| o["op"] == "solve" && o["compare"] == true) { compared += 1; }
            if let Some(m) = replay_one(&b, v) {
                let class = m.split(|c: char| c.is_ascii_digit() || c == '[' || c == '(').next().unwrap_or("").trim().replace(' ', "_");
                bad.push(json!({"behaviour": b, "variant": v, "mismatch": m, "class": class}));
            }
        }
    }
    // histories that bring in an infinite bound through update_b
    if !timed_done {
        for v in 0..8usize {
            n += 1;
            for (class, m) in inf_bound_history(v).into_iter().chain(empty_p_history(v)).chain(square_a_history(v)) {
                bad.push(json!({"behaviour": {"blocked": "none", "hist": [], "infb": v}, "variant": v, "mismatch": m, "class": class}));
            }
        }
    }
    // a history through an overflowed solve
    if !timed_done {
        for v in 0..2usize {
            n += 1;
            if let Some(m) = overflow_history(v) {
                bad.push(json!({"behaviour": {"blocked": "none", "hist": [], "overflow": v}, "variant": v, "mismatch": m, "class": "solve_after_overflowed_solve"}));
            }
        }
    }
    // histories through a poisoned solve (4 problems x 7 kinds of poison x equilibration on / off)
    if !timed_done {
        for v in 0..56usize {
            n += 1;
            if let Some(m) = poison_history(v) {
                bad.push(json!({"behaviour": {"blocked": "none", "hist": [], "poison": v}, "variant": v, "mismatch": m, "class": format!("solve_after_poisoned_solve_{}", (v / 4) % 7)}));
            }
        }
    }
    // re-solve histories on the cone types the seed problems lack
    if !timed_done {
        for v in 0..30usize {
            n += 1;
            if let Some(m) = resolve_history(v) {
                bad.push(json!({"behaviour": {"blocked": "none", "hist": [], "resolve": v}, "variant": v, "mismatch": m, "class": format!("resolve_history_{}", v % 5)}));
            }
        }
    }
    // histories whose verdict changes class
    if !timed_done {
        for v in 0..4usize {
            n += 1;
            if let Some(m) = verdict_change_history(v) {
                bad.push(json!({"behaviour": {"blocked": "none", "hist": [], "verdict": v}, "variant": v, "mismatch": m, "class": "verdict_change_history"}));
            }
        }
    }
    // one wall-clock history per run (costs ~5 s: three delayed solves of the updated and of fresh solvers)
    if !timed_done { n += 1; compared += 1; }
    if let Some(m) = if timed_done { None } else { timed_history(seed as usize) } {
        bad.push(json!({"behaviour": {"blocked": "none", "hist": [], "timed": true}, "variant": seed, "mismatch": m, "class": "timed_history"}));
    }
    crate::write_lines(out, &bad);
    json!({"behaviours": n, "mismatches": bad.len(), "distinct_nontrivial": compared})
}
