//! impl -> spec recorder for JsonIO.tla (C19): round trips and single-site faults.
#![allow(non_snake_case)]
use crate::fenc::*;
use crate::gen::{self, GenOpts};
use crate::problem::*;
use clarabel::solver::*;
use rand::rngs::StdRng;
use rand::{Rng, SeedableRng};
use serde_json::{json, Value};
use std::io::{Read, Seek, SeekFrom};
use std::panic::{catch_unwind, AssertUnwindSafe};

fn tmpfile(dir: &str, name: &str) -> std::fs::File {
    std::fs::OpenOptions::new().read(true).write(true).create(true).truncate(true).open(format!("{}/{}", dir, name)).unwrap()
}

fn settings_value(s: &DefaultSettings<f64>) -> Value {
    let mut s2 = s.clone();
    let inf = s2.time_limit.is_infinite();
    if inf { s2.time_limit = 0.0; }
    let mut v = serde_json::to_value(&s2).unwrap();
    v["time_limit_is_inf"] = json!(inf);
    v
}

fn class_of(s: SolverStatus) -> &'static str {
    match s {
        SolverStatus::Solved | SolverStatus::AlmostSolved => "solved",
        SolverStatus::PrimalInfeasible | SolverStatus::AlmostPrimalInfeasible => "pinf",
        SolverStatus::DualInfeasible | SolverStatus::AlmostDualInfeasible => "dinf",
        _ => "other",
    }
}

pub fn roundtrip_event(run: usize, p: &Problem, dir: &str, solve_first: bool, mutate: bool) -> Value {
    roundtrip_event_upd(run, p, dir, solve_first, mutate, false)
}

/// `update`: a data-update history precedes the save (q, b and the values of P and A are rewritten through the
/// update API); the file must then hold the UPDATED problem.
pub fn roundtrip_event_upd(run: usize, p0: &Problem, dir: &str, solve_first: bool, mutate: bool, update: bool) -> Value {
    let st = p0.settings();
    // the problem the file has to reproduce
    let mut pnew = p0.clone();
    if update {
        let mask: u32 = std::env::var("VH_UPD_MASK").ok().and_then(|x| x.parse().ok()).unwrap_or(15);
        if mask & 1 != 0 { for (k, v) in pnew.q.iter_mut().enumerate() { if v.abs() < 1e307 { *v = *v * 1.5 + 0.25 * (k as f64 + 1.0); } } }   // (the largest finite values stay as they are)
        if mask & 2 != 0 { for v in pnew.b.iter_mut() { if v.is_finite() && v.abs() < 1e15 { *v = *v * 1.25 + 0.5; } } }
        if mask & 4 != 0 { for v in pnew.A.nzval.iter_mut() { *v *= 1.125; } }
        if mask & 8 != 0 { for v in pnew.P.nzval.iter_mut() { *v *= 1.0625; } }
    }
    let p = &pnew;
    let (P, A) = (p.P.to_clarabel(), p.A.to_clarabel());
    let res = catch_unwind(AssertUnwindSafe(|| {
        let bound = clarabel::get_infinity();
        let mut s1 = if update {
            let (P0, A0) = (p0.P.to_clarabel(), p0.A.to_clarabel());
            let mut s = DefaultSolver::new(&P0, &p0.q, &A0, &p0.b, &p0.clarabel_cones(), st.clone());
            if solve_first { s.solve(); }
            if !s.is_data_update_allowed() { return json!({"ev": "RoundTrip", "run": run, "skipped": true}); }
            let mask: u32 = std::env::var("VH_UPD_MASK").ok().and_then(|x| x.parse().ok()).unwrap_or(15);
            let ok = (mask & 1 == 0 || s.update_q(&p.q).is_ok()) && (mask & 2 == 0 || s.update_b(&p.b).is_ok()) && (mask & 4 == 0 || s.update_A(&p.A.to_clarabel().nzval).is_ok())
                && (mask & 8 == 0 || s.update_P(&p.P.to_clarabel().to_triu().nzval).is_ok());
            if !ok { return json!({"ev": "RoundTrip", "run": run, "save_ok": false, "load_ok": false, "msg": "an update of matching shape was rejected",
                "settings_equal": false, "timelimit_roundtrip": false, "override_applied": false, "reduced": true, "equil": true, "status_equal": false, "obj_ok": false}); }
            s
        } else {
            let mut s = DefaultSolver::new(&P, &p.q, &A, &p.b, &p.clarabel_cones(), st.clone());
            if solve_first { s.solve(); }
            s
        };
        // a history: the public settings are edited after construction, then the problem is saved; the file must
        // still hold the problem the solver was built for (and the settings now in force)
        if mutate {
            s1.settings.equilibrate_enable = !s1.settings.equilibrate_enable;
            s1.settings.max_iter = 123;
        }
        let st_saved = s1.settings.clone();
        let mut f = tmpfile(dir, &format!("rt_{}.json", run));
        let save_ok = s1.save_to_file(&mut f).is_ok();
        f.seek(SeekFrom::Start(0)).unwrap();
        let l2 = DefaultSolver::<f64>::load_from_file(&mut f, None);
        let load_ok = l2.is_ok();
        let mut s2 = match l2 { Ok(s) => s, Err(e) => return json!({"ev": "RoundTrip", "run": run, "save_ok": save_ok, "load_ok": false, "msg": e.to_string(),
            "settings_equal": false, "timelimit_roundtrip": false, "override_applied": false, "reduced": true, "equil": true, "status_equal": false, "obj_ok": false}) };
        // both through serde and through Debug: a field that serde skips is invisible in the first comparison
        let settings_equal = settings_value(&s2.settings) == settings_value(&st_saved) && format!("{:?}", s2.settings) == format!("{:?}", st_saved);
        let timelimit_roundtrip = s2.settings.time_limit.to_bits() == st_saved.time_limit.to_bits();
        // second load with an override: equilibration/presolve/decomposition off shows the file's content verbatim
        let mut ov = st.clone();
        ov.equilibrate_enable = false;
        ov.presolve_enable = false;
        ov.chordal_decomposition_enable = false;
        ov.max_iter = 77;
        // (the supplied settings are taken verbatim - also values that the FILE format reserves as sentinels)
        ov.time_limit = [f64::MAX, 12.5, f64::INFINITY, 0.0][run % 4];
        let ov_copy = ov.clone();
        f.seek(SeekFrom::Start(0)).unwrap();
        let s3 = DefaultSolver::<f64>::load_from_file(&mut f, Some(ov)).unwrap();
        let override_applied = s3.settings.max_iter == 77 && !s3.settings.equilibrate_enable
            && format!("{:?}", s3.settings) == format!("{:?}", ov_copy) && s3.settings.time_limit.to_bits() == ov_copy.time_limit.to_bits();
        let reduced = s1.data.m != p.m() || s1.data.n != p.n();
        let mut pairs = vec![];
        let mut pattern_equal = true;
        let mut bits_equal = true;
        let mut cones_equal = true;
        if !reduced {
            let Pt = P.to_triu();
            pattern_equal = s3.data.P.colptr == Pt.colptr && s3.data.P.rowval == Pt.rowval && s3.data.A.colptr == A.colptr
                && s3.data.A.rowval == A.rowval && s3.data.q.len() == p.n() && s3.data.b.len() == p.m();
            if pattern_equal {
                let mut push = |a: f64, b: f64| { if a.to_bits() != b.to_bits() && !(a == 0.0 && b == 0.0) { bits_equal = false; } pairs.push(json!([fj(a), fj(b)])); };
                for k in 0..Pt.nzval.len() { push(Pt.nzval[k], s3.data.P.nzval[k]); }
                for k in 0..A.nzval.len() { push(A.nzval[k], s3.data.A.nzval[k]); }
                for k in 0..p.n() { push(p.q[k], s3.data.q[k]); }
                for k in 0..p.m() { push(p.b[k].min(bound), s3.data.b[k]); }
            }
            cones_equal = s3.data.cones == s1.data.cones;
        }
        // same verdict and objective
        if !solve_first || update { s1.solve(); }   // (after an update the earlier solve describes the old data)
        s2.solve();
        let (a, b) = (&s1.solution, &s2.solution);
        // with equilibration off the loaded problem is bit-identical, so the solve is too; otherwise the
        // data differ by a few ulps and only full verdicts are compared (error / limit statuses of
        // numerically fragile problems may legitimately flip under such perturbations)
        let full = |s: SolverStatus| matches!(s, SolverStatus::Solved | SolverStatus::PrimalInfeasible | SolverStatus::DualInfeasible);
        let exact = !st.equilibrate_enable && !reduced && !mutate;
        let obj_close = |x: f64, y: f64| (x - y).abs() <= 1e-6 * (1.0 + x.abs().max(y.abs()));
        let mut status_equal = if exact { a.status == b.status && a.iterations == b.iterations }
                           else if full(a.status) && full(b.status) { a.status == b.status } else { true };
        let mut obj_ok = if exact { a.obj_val.to_bits() == b.obj_val.to_bits() || (a.obj_val.is_nan() && b.obj_val.is_nan()) }
                     else { !(a.status == SolverStatus::Solved && b.status == SolverStatus::Solved) || obj_close(a.obj_val, b.obj_val) };
        // The loaded data differ from the originals by rounding when equilibration is on.  Before a differing verdict
        // is blamed on the file, the same solver is given the ORIGINAL data with random entries moved by one ulp
        // (128 patterns): if that alone changes the verdict/objective, the instance's outcome is decided by rounding
        // noise and says nothing about the round trip.
        let mut sensitive = false;
        if !exact && !(status_equal && obj_ok) {
            let mut nrng = StdRng::seed_from_u64(0x5eed ^ run as u64);
            for _ in 0..128usize {
                let mut nudge = |v: &[f64]| -> Vec<f64> { v.iter().map(|x| {
                    if *x == 0.0 || !x.is_finite() { *x } else { match nrng.gen_range(0..3) { 0 => f64::from_bits(x.to_bits() + 1), 1 => f64::from_bits(x.to_bits() - 1), _ => *x } } }).collect() };
                let mut Pc = P.clone(); Pc.nzval = nudge(&P.nzval);
                let mut Ac = A.clone(); Ac.nzval = nudge(&A.nzval);
                let (qc, bc) = (nudge(&p.q), nudge(&p.b));
                let mut sc = DefaultSolver::new(&Pc, &qc, &Ac, &bc, &p.clarabel_cones(), st_saved.clone());
                sc.solve();
                let cs = &sc.solution;
                if cs.status != a.status || (a.status == SolverStatus::Solved && !obj_close(cs.obj_val, a.obj_val)) { sensitive = true; break; }
            }
            if sensitive { status_equal = true; obj_ok = true; }
        }
        let _ = std::fs::remove_file(format!("{}/rt_{}.json", dir, run));
        json!({"ev": "RoundTrip", "run": run, "save_ok": save_ok, "load_ok": load_ok, "settings_equal": settings_equal,
               "timelimit_roundtrip": timelimit_roundtrip, "override_applied": override_applied, "reduced": reduced,
               "equil": st.equilibrate_enable, "pairs": pairs, "pattern_equal": pattern_equal, "bits_equal": bits_equal,
               "cones_equal": cones_equal, "status_equal": status_equal, "obj_ok": obj_ok,
               "status": format!("{:?}/{:?}", a.status, b.status), "rounding_sensitive": sensitive})
    }));
    match res { Ok(v) => v, Err(e) => json!({"ev": "RoundTrip", "run": run, "save_ok": false, "load_ok": false, "panic": crate::rec_ipm::panic_msg(e),
        "settings_equal": false, "timelimit_roundtrip": false, "override_applied": false, "reduced": true, "equil": true, "status_equal": false, "obj_ok": false}) }
}

// ---------------------------------------------------------------- independent validator
fn is_uint(v: &Value, max: u64) -> bool { v.as_u64().map(|x| x <= max).unwrap_or(false) && v.is_u64() }
fn is_num(v: &Value) -> bool { v.is_number() }
fn uint_array(v: &Value) -> Option<Vec<i64>> {
    let a = v.as_array()?;
    let mut out = vec![];
    for x in a { if !is_uint(x, u64::MAX >> 1) { return None; } out.push(x.as_u64().unwrap().min(1_000_000) as i64); }
    Some(out)
}
fn num_array(v: &Value) -> Option<usize> { let a = v.as_array()?; if a.iter().all(is_num) { Some(a.len()) } else { None } }
fn csc_fields(v: &Value) -> Option<Value> {
    let o = v.as_object()?;
    let m = o.get("m")?; let n = o.get("n")?;
    if !is_uint(m, u64::MAX >> 1) || !is_uint(n, u64::MAX >> 1) { return None; }
    let cp = uint_array(o.get("colptr")?)?;
    let rv = uint_array(o.get("rowval")?)?;
    let nz = num_array(o.get("nzval")?)?;
    Some(json!({"m": m.as_u64().unwrap().min(1_000_000), "n": n.as_u64().unwrap().min(1_000_000), "colptr": cp, "rowval": rv, "nzval": vec![0; nz]}))
}
/// (rows, params_ok) of a cone list in serde's externally tagged encoding; None if schema-invalid
fn cones_fields(v: &Value) -> Option<(i64, bool)> {
    let a = v.as_array()?;
    let mut rows: i64 = 0;
    let mut ok = true;
    for c in a {
        let o = c.as_object()?;
        if o.len() != 1 { return None; }
        let (k, val) = o.iter().next().unwrap();
        match k.as_str() {
            "ZeroConeT" | "NonnegativeConeT" | "SecondOrderConeT" => { if !is_uint(val, u64::MAX >> 1) { return None; } rows += val.as_u64().unwrap().min(1_000_000) as i64; }
            "PSDTriangleConeT" => { if !is_uint(val, u64::MAX >> 1) { return None; } let d = val.as_u64().unwrap().min(1000) as i64; rows += d * (d + 1) / 2; }
            "ExponentialConeT" => { if !(val.as_array().map(|x| x.is_empty()).unwrap_or(false)) { return None; } rows += 3; }
            "PowerConeT" => { if !is_num(val) { return None; } let al = val.as_f64().unwrap(); if !(al > 0.0 && al < 1.0) { ok = false; } rows += 3; }
            "GenPowerConeT" => {
                let t = val.as_array()?; if t.len() != 2 { return None; }
                let al = t[0].as_array()?; if !al.iter().all(is_num) || !is_uint(&t[1], u64::MAX >> 1) { return None; }
                let s: f64 = al.iter().map(|x| x.as_f64().unwrap()).sum();
                if (s - 1.0).abs() > 1e-12 || al.iter().any(|x| x.as_f64().unwrap() <= 0.0) { ok = false; }
                rows += al.len() as i64 + t[1].as_u64().unwrap().min(1_000_000) as i64;
            }
            _ => return None,
        }
    }
    Some((rows, ok))
}
/// (schema_ok, settings_valid)
fn settings_fields(v: Option<&Value>) -> (bool, bool) {
    let v = match v { None => return (true, true), Some(v) => v };
    let o = match v.as_object() { Some(o) => o, None => return (false, false) };
    let reference = serde_json::to_value(&{ let mut s = DefaultSettings::<f64>::default(); s.time_limit = 1.0; s }).unwrap();
    let mut valid = true;
    for (k, val) in o {
        if let Some(r) = reference.get(k) {
            let ok = match r {
                Value::Bool(_) => val.is_boolean(),
                Value::String(_) => val.is_string(),
                Value::Number(n) => if n.is_f64() { val.is_number() } else { is_uint(val, u32::MAX as u64) },
                _ => true,
            };
            if !ok { return (false, false); }
            if k == "direct_solve_method" && !matches!(val.as_str().unwrap(), "auto" | "qdldl") { valid = false; }
            // (only direct KKT solvers exist: a file that asks for an indirect one cannot be loaded into a solver)
            if k == "direct_kkt_solver" && val == &Value::Bool(false) { valid = false; }
            if k == "chordal_decomposition_merge_method" && !matches!(val.as_str().unwrap(), "none" | "parent_child" | "clique_graph") { valid = false; }
        }
    }
    (true, valid)
}

pub fn classify(text: &str) -> Value {
    let dummy = json!({"m": 0, "n": 0, "colptr": [0], "rowval": [], "nzval": []});
    let bad = |json_ok: bool| json!({"json_ok": json_ok, "schema_ok": false, "P": dummy, "A": dummy, "nq": 0, "nb": 0, "cone_rows": 0,
                                      "cone_params_ok": true, "settings_valid": true});
    let v: Value = match serde_json::from_str(text) { Ok(v) => v, Err(_) => return bad(false) };
    let o = match v.as_object() { Some(o) => o, None => return bad(true) };
    let (P, A) = match (o.get("P").and_then(csc_fields), o.get("A").and_then(csc_fields)) { (Some(p), Some(a)) => (p, a), _ => return bad(true) };
    let (nq, nb) = match (o.get("q").and_then(num_array), o.get("b").and_then(num_array)) { (Some(a), Some(b)) => (a, b), _ => return bad(true) };
    let (rows, cp_ok) = match o.get("cones").and_then(cones_fields) { Some(x) => x, None => return bad(true) };
    let (s_schema, s_valid) = settings_fields(o.get("settings"));
    if !s_schema { return bad(true); }
    json!({"json_ok": true, "schema_ok": true, "P": P, "A": A, "nq": nq, "nb": nb, "cone_rows": rows, "cone_params_ok": cp_ok, "settings_valid": s_valid})
}

pub fn load_outcome(text: &str, dir: &str) -> (String, String) { load_outcome_with(text, dir, None) }

pub fn load_outcome_with(text: &str, dir: &str, ov: Option<DefaultSettings<f64>>) -> (String, String) {
    let path = format!("{}/fault.json", dir);
    std::fs::write(&path, text).unwrap();
    let res = catch_unwind(AssertUnwindSafe(|| {
        let mut f = std::fs::File::open(&path).unwrap();
        match DefaultSolver::<f64>::load_from_file(&mut f, ov) { Ok(_) => ("ok".to_string(), String::new()), Err(e) => ("err".to_string(), e.to_string()) }
    }));
    match res { Ok(r) => r, Err(e) => ("panic".to_string(), crate::rec_ipm::panic_msg(e)) }
}

fn fault_event(id: usize, base: usize, kind: &str, site: String, text: &str, intended: &str, dir: &str) -> Value {
    fault_event_ov(id, base, kind, site, text, intended, dir, "none")
}

/// `ov`: "none" | "valid" | "invalid" - a settings argument supplied at load time (replaces the stored settings)
fn fault_event_ov(id: usize, base: usize, kind: &str, site: String, text: &str, intended: &str, dir: &str, ov: &str) -> Value {
    let ovs = match ov {
        "valid" => { let mut s = DefaultSettings::<f64>::default(); s.verbose = false; s.direct_solve_method = "qdldl".into(); Some(s) }
        "invalid" => { let mut s = DefaultSettings::<f64>::default(); s.verbose = false; s.direct_solve_method = "no_such_solver".into(); Some(s) }
        _ => None,
    };
    let (outcome, msg) = load_outcome_with(text, dir, ovs);
    let mut e = classify(text);
    e["override"] = json!(ov);
    let o = e.as_object_mut().unwrap();
    o.insert("ev".into(), json!("Fault"));
    o.insert("run".into(), json!(id));
    o.insert("base".into(), json!(base));
    o.insert("kind".into(), json!(kind));
    o.insert("site".into(), json!(site));
    o.insert("intended".into(), json!(intended));
    o.insert("outcome".into(), json!(outcome));
    o.insert("msg".into(), json!(msg.chars().take(160).collect::<String>()));
    o.insert("text".into(), json!(if text.len() <= 4000 { text.to_string() } else { String::new() }));
    e
}

fn base_problems(rng: &mut StdRng) -> Vec<Problem> {
    let mut out = vec![];
    // hand-made small problems: LP with zero+NN cones, SOC, exp, PSD, empty P / empty A rows
    let o = GenOpts { nmax: 3, max_cones: 3, soc_max: 3, psd_max: 2, allow_genpow: false, ..Default::default() };
    while out.len() < 4 {
        let p = gen::planted_feasible(rng, &o);
        if p.cones.iter().any(|c| matches!(c, ConeSpec::Pow(_))) { continue; }
        if p.m() > 7 { continue; }
        out.push(p);
    }
    let mut lp = out[0].clone();
    lp.P = Csc::zeros(lp.n(), lp.n());
    out.push(lp);
    // an unconstrained problem: no rows, no cones (the file's consistency then rests on the objective side alone)
    let n = 3;
    let pd: Vec<Vec<f64>> = (0..n).map(|i| (0..n).map(|j| if i == j { 2.0 + i as f64 } else if i < j && j == i + 1 { 0.5 } else { 0.0 }).collect()).collect();
    out.push(Problem { P: Csc::from_dense(&pd, n, n), q: vec![1.0, -2.0, 0.5], A: Csc::zeros(0, n), b: vec![], cones: vec![],
                       settings: json!({}), tag: "unconstrained".into() });
    out
}

pub fn fault_events(seed: u64, thorough: bool, dir: &str) -> Vec<Value> {
    let mut rng = StdRng::seed_from_u64(seed);
    let mut out = vec![];
    let mut id = 0usize;
    for (bi, p) in base_problems(&mut rng).iter().enumerate() {
        let (P, A) = (p.P.to_clarabel(), p.A.to_clarabel());
        let mut st = p.settings();
        st.direct_solve_method = "qdldl".into();
        // (a panic or an error while writing the base file is itself a finding about save_to_file, not a harness failure)
        let saved = catch_unwind(AssertUnwindSafe(|| -> Result<String, String> {
            let s1 = DefaultSolver::new(&P, &p.q, &A, &p.b, &p.clarabel_cones(), st);
            let mut f = tmpfile(dir, "base.json");
            s1.save_to_file(&mut f).map_err(|e| e.to_string())?;
            f.seek(SeekFrom::Start(0)).unwrap();
            let mut text = String::new();
            f.read_to_string(&mut text).unwrap();
            Ok(text)
        }));
        let text = match saved {
            Ok(Ok(t)) => t,
            other => {
                let msg = match other { Ok(Err(m)) => m, Err(e) => crate::rec_ipm::panic_msg(e), _ => String::new() };
                out.push(json!({"ev": "RoundTrip", "run": 100000 + bi, "save_ok": false, "load_ok": false, "panic": msg, "settings_equal": false, "timelimit_roundtrip": false,
                                "override_applied": false, "reduced": true, "equil": true, "status_equal": false, "obj_ok": false}));
                continue;
            }
        };
        let bytes = text.as_bytes();
        out.push(fault_event(id, bi, "none", "".into(), &text, "ok", dir)); id += 1;
        // a saved file that an independent reader does not accept is reported by the event above; the fault
        // generators below navigate the schema and have nothing to work on
        if classify(&text)["schema_ok"] != json!(true) { continue; }
        // (a) truncation at byte offsets
        let step = if thorough { 1 } else { (bytes.len() / 60).max(1) };
        let mut k = 0;
        while k < bytes.len() {
            if text.is_char_boundary(k) { out.push(fault_event(id, bi, "truncate", format!("{}", k), &text[..k], "NotJson", dir)); id += 1; }
            k += if thorough { 1 } else { 1 + rng.gen_range(0..2 * step) };
        }
        // (b) deletion of one byte
        let mut k = 0;
        while k < bytes.len() {
            if text.is_char_boundary(k) && text.is_char_boundary(k + 1) {
                let t2 = format!("{}{}", &text[..k], &text[k + 1..]);
                out.push(fault_event(id, bi, "delete", format!("{}", k), &t2, "any", dir)); id += 1;
            }
            k += if thorough { 1 } else { 1 + rng.gen_range(0..2 * step) };
        }
        // (b') bytes after the closing brace: a second document, a stale tail, a stray token - one file is one problem
        for (nm, tail) in [("second document", text.clone()), ("stale tail", "}]}".to_string()), ("stray number", " 17".to_string()), ("stray brace", "{".to_string())] {
            out.push(fault_event(id, bi, "append", nm.to_string(), &format!("{}{}", text, tail), "NotJson", dir)); id += 1;
        }
        // (c) semantic corruptions of one site
        let v: Value = serde_json::from_str(&text).unwrap();
        let mut sem = |name: &str, intended: &str, f: &dyn Fn(&mut Value)| {
            let mut v2 = v.clone();
            f(&mut v2);
            out.push(fault_event(id, bi, "semantic", name.to_string(), &v2.to_string(), intended, dir));
            id += 1;
        };
        let annz = v["A"]["rowval"].as_array().unwrap().len();
        if annz > 0 {
            sem("A.rowval out of range", "Struct", &|x| { let m = x["A"]["m"].as_u64().unwrap(); x["A"]["rowval"][0] = json!(m + 3); });
            sem("A.rowval last out of range", "Struct", &|x| { let m = x["A"]["m"].as_u64().unwrap(); let l = x["A"]["rowval"].as_array().unwrap().len(); x["A"]["rowval"][l - 1] = json!(m); });
        }
        if annz > 0 { sem("A.colptr non-monotone", "Struct", &|x| { let l = x["A"]["colptr"].as_array().unwrap().len(); if l >= 2 { let last = x["A"]["colptr"][l - 1].clone(); x["A"]["colptr"][0] = last; } }); }
        sem("A.colptr first nonzero", "Struct", &|x| { x["A"]["colptr"][0] = json!(1); });
        // row indices of the LAST column repeated / out of order (in range): not a canonical encoding
        {
            let cp: Vec<u64> = v["A"]["colptr"].as_array().unwrap().iter().map(|x| x.as_u64().unwrap()).collect();
            let l = cp.len();
            if l >= 2 && cp[l - 1] - cp[l - 2] >= 2 {
                let (a, b) = (cp[l - 2] as usize, cp[l - 1] as usize);
                sem("A.rowval last column repeated", "Struct", &|x| { let r = x["A"]["rowval"][b - 1].clone(); x["A"]["rowval"][b - 2] = r; });
                sem("A.rowval last column unsorted", "Struct", &|x| { let r0 = x["A"]["rowval"][a].clone(); let r1 = x["A"]["rowval"][b - 1].clone(); x["A"]["rowval"][a] = r1; x["A"]["rowval"][b - 1] = r0; });
            }
        }
        // the last column pointer lowered by one: still monotone, still starts at 0, but no longer the number of stored entries
        if annz > 0 { sem("A.colptr last lowered", "Struct", &|x| { let l = x["A"]["colptr"].as_array().unwrap().len(); let v = x["A"]["colptr"][l - 1].as_u64().unwrap(); x["A"]["colptr"][l - 1] = json!(v - 1); }); }
        if v["P"]["rowval"].as_array().unwrap().len() > 0 { sem("P.colptr last lowered", "Struct", &|x| { let l = x["P"]["colptr"].as_array().unwrap().len(); let v = x["P"]["colptr"][l - 1].as_u64().unwrap(); x["P"]["colptr"][l - 1] = json!(v - 1); }); }
        sem("P.colptr too short", "Struct", &|x| { x["P"]["colptr"].as_array_mut().unwrap().pop(); });
        sem("P.nzval extra entry", "Struct", &|x| { x["P"]["nzval"].as_array_mut().unwrap().push(json!(1.0)); });
        sem("A.m too large", "Dims", &|x| { let m = x["A"]["m"].as_u64().unwrap(); x["A"]["m"] = json!(m + 1); });
        sem("P.n too large", "Struct", &|x| { let n = x["P"]["n"].as_u64().unwrap(); x["P"]["n"] = json!(n + 1); });
        // every declared dimension moved on its own, by little and by a lot, in both directions
        for (mat, key) in [("P", "m"), ("P", "n"), ("A", "m"), ("A", "n")] {
            let cur = v[mat][key].as_u64().unwrap();
            for nv in [cur + 1, cur + 2, cur + 4, cur + 1000, 1u64 << 40, 1u64 << 63, u64::MAX].into_iter().chain(if cur > 0 { vec![cur - 1, 0] } else { vec![] }) {
                if nv == cur { continue; }
                sem(&format!("{}.{} {} -> {}", mat, key, cur, nv), "any", &|x| { x[mat][key] = json!(nv); });
            }
        }
        // every column pointer of P and of A pushed above the number of stored entries, one position at a time
        for mat in ["P", "A"] {
            let cp = v[mat]["colptr"].as_array().unwrap();
            let nnz = v[mat]["rowval"].as_array().unwrap().len();
            for k in 0..cp.len() { sem(&format!("{}.colptr[{}] above nnz", mat, k), "any", &|x| { x[mat]["colptr"][k] = json!(nnz + 3); }); }
        }
        // every boolean of the stored settings flipped on its own; every cone dimension replaced by huge values
        if let Some(so) = v.get("settings").and_then(|x| x.as_object()) {
            for (k, val) in so { if let Some(bv) = val.as_bool() { let kk = k.clone(); sem(&format!("settings.{} flipped", k), "any", &|x| { x["settings"][kk.as_str()] = json!(!bv); }); } }
        }
        // every floating-point setting damaged in its sign, exponent or value (a file that still parses loads; it never panics)
        if let Some(so) = v.get("settings").and_then(|x| x.as_object()) {
            for (k, val) in so {
                if let Some(fv) = val.as_f64() { if val.is_f64() {
                    let kk = k.clone();
                    for nv in [-fv, fv * 1e8, fv * 1e-8, 0.0] { if nv != fv { let kk2 = kk.clone(); sem(&format!("settings.{} = {:e}", k, nv), "any", &|x| { x["settings"][kk2.as_str()] = json!(nv); }); } }
                } }
            }
        }
        if let Some(ca) = v.get("cones").and_then(|x| x.as_array()) {
            for (ci, c) in ca.iter().enumerate() {
                let (tag, val) = c.as_object().unwrap().iter().next().unwrap();
                let tg = tag.clone();
                for big in [u64::MAX, 1u64 << 63, 1u64 << 62, 1u64 << 40] {
                    if val.is_u64() { sem(&format!("cone {} dimension {}", ci, big), "any", &|x| { x["cones"][ci][tg.as_str()] = json!(big); }); }
                    else if tag == "GenPowerConeT" { sem(&format!("cone {} dim2 {}", ci, big), "any", &|x| { x["cones"][ci][tg.as_str()][1] = json!(big); }); }
                }
            }
        }
        sem("q one shorter", "Dims", &|x| { x["q"].as_array_mut().unwrap().pop(); });
        sem("b one longer", "Dims", &|x| { x["b"].as_array_mut().unwrap().push(json!(0.5)); });
        sem("cone dimension changed", "Dims", &|x| { let c = x["cones"].as_array_mut().unwrap(); c.push(json!({"NonnegativeConeT": 2})); });
        sem("negative usize", "Schema", &|x| { x["A"]["m"] = json!(-1); });
        sem("fractional usize", "Schema", &|x| { x["P"]["n"] = json!(1.5); });
        sem("string for number", "Schema", &|x| { x["q"][0] = json!("1.0"); });
        sem("drop key b", "Schema", &|x| { x.as_object_mut().unwrap().remove("b"); });
        sem("rename key cones", "Schema", &|x| { let c = x.as_object_mut().unwrap().remove("cones").unwrap(); x["Cones"] = c; });
        sem("unknown cone tag", "Schema", &|x| { let c = x["cones"].as_array_mut().unwrap(); if c.is_empty() { c.push(json!({"HyperCone": 2})); } else { c[0] = json!({"HyperCone": 2}); } });
        sem("drop settings", "ok", &|x| { x.as_object_mut().unwrap().remove("settings"); });
        sem("unknown extra key", "ok", &|x| { x["comment"] = json!("hello"); });
        sem("settings wrong type", "Schema", &|x| { x["settings"]["max_iter"] = json!("many"); });
        sem("invalid direct_solve_method", "Settings", &|x| { x["settings"]["direct_solve_method"] = json!("qdlxl"); });
        sem("direct_solve_method in another letter case", "Settings", &|x| { x["settings"]["direct_solve_method"] = json!("Auto"); });
        sem("direct_solve_method upper case", "Settings", &|x| { x["settings"]["direct_solve_method"] = json!("QDLDL"); });
        sem("invalid merge method", "Settings", &|x| { x["settings"]["chordal_decomposition_merge_method"] = json!("clique_grph"); });
        sem("top level array", "Schema", &|x| { *x = json!([1, 2, 3]); });
        // settings supplied at load time replace the stored ones: stored settings this build cannot use do not matter
        // then, and an unusable override is an error (not a panic) even on a perfectly good file
        {
            let mut v2 = v.clone();
            v2["settings"]["direct_solve_method"] = json!("some_other_backend");
            out.push(fault_event_ov(id, bi, "semantic", "foreign stored solver, valid override".into(), &v2.to_string(), "ok", dir, "valid")); id += 1;
            out.push(fault_event_ov(id, bi, "semantic", "foreign stored solver, invalid override".into(), &v2.to_string(), "Settings", dir, "invalid")); id += 1;
            out.push(fault_event_ov(id, bi, "semantic", "good file, invalid override".into(), &text, "Settings", dir, "invalid")); id += 1;
            out.push(fault_event_ov(id, bi, "semantic", "good file, valid override".into(), &text, "ok", dir, "valid")); id += 1;
        }
    }
    let _ = std::fs::remove_file(format!("{}/fault.json", dir));
    let _ = std::fs::remove_file(format!("{}/base.json", dir));
    out
}

pub fn sensitivity(p: &Problem, count: usize) -> Value {
    let mut rng = StdRng::seed_from_u64(7);
    let (P, A) = (p.P.to_clarabel(), p.A.to_clarabel());
    let mut hist = std::collections::BTreeMap::<String, usize>::new();
    for k in 0..count {
        let mut nudge = |v: &[f64]| -> Vec<f64> { v.iter().map(|x| {
            if k == 0 || *x == 0.0 || !x.is_finite() { *x } else { match rng.gen_range(0..3) { 0 => f64::from_bits(x.to_bits() + 1), 1 => f64::from_bits(x.to_bits() - 1), _ => *x } } }).collect() };
        let mut Pc = P.clone(); Pc.nzval = nudge(&P.nzval);
        let mut Ac = A.clone(); Ac.nzval = nudge(&A.nzval);
        let (q, b) = (nudge(&p.q), nudge(&p.b));
        let mut sc = DefaultSolver::new(&Pc, &q, &Ac, &b, &p.clarabel_cones(), p.settings());
        sc.solve();
        *hist.entry(format!("{:?}", sc.solution.status)).or_default() += 1;
    }
    json!(hist)
}

/// Every settings field, one at a time and all together, set to a non-default value directly on the struct
/// (not through serde), saved with a tiny LP and loaded back; compared through Debug.
pub fn settings_sweep(dir: &str) -> Vec<Value> {
    let setters: Vec<(&str, fn(&mut DefaultSettings<f64>))> = vec![
        ("max_iter", |s| s.max_iter = 17), ("time_limit", |s| s.time_limit = 123.5), ("verbose", |s| s.verbose = !s.verbose),
        ("max_step_fraction", |s| s.max_step_fraction = 0.875), ("tol_gap_abs", |s| s.tol_gap_abs = 1.5e-7), ("tol_gap_rel", |s| s.tol_gap_rel = 2.5e-7),
        ("tol_feas", |s| s.tol_feas = 3.5e-7), ("tol_infeas_abs", |s| s.tol_infeas_abs = 4.5e-7), ("tol_infeas_rel", |s| s.tol_infeas_rel = 5.5e-7),
        ("tol_ktratio", |s| s.tol_ktratio = 6.5e-7), ("reduced_tol_gap_abs", |s| s.reduced_tol_gap_abs = 1.5e-4), ("reduced_tol_gap_rel", |s| s.reduced_tol_gap_rel = 2.5e-4),
        ("reduced_tol_feas", |s| s.reduced_tol_feas = 3.5e-4), ("reduced_tol_infeas_abs", |s| s.reduced_tol_infeas_abs = 4.5e-11),
        ("reduced_tol_infeas_rel", |s| s.reduced_tol_infeas_rel = 5.5e-4), ("reduced_tol_ktratio", |s| s.reduced_tol_ktratio = 6.5e-4),
        ("equilibrate_enable", |s| s.equilibrate_enable = !s.equilibrate_enable), ("equilibrate_max_iter", |s| s.equilibrate_max_iter = 7),
        ("equilibrate_min_scaling", |s| s.equilibrate_min_scaling = 3e-3), ("equilibrate_max_scaling", |s| s.equilibrate_max_scaling = 3e3),
        ("linesearch_backtrack_step", |s| s.linesearch_backtrack_step = 0.75), ("min_switch_step_length", |s| s.min_switch_step_length = 0.125),
        ("min_terminate_step_length", |s| s.min_terminate_step_length = 2e-4), ("max_threads", |s| s.max_threads = 4),
        // direct_kkt_solver is "required true" (construction panics otherwise, as documented): not swept
        ("direct_solve_method", |s| s.direct_solve_method = "qdldl".into()),
        ("static_regularization_enable", |s| s.static_regularization_enable = !s.static_regularization_enable),
        ("static_regularization_constant", |s| s.static_regularization_constant = 3e-8), ("static_regularization_proportional", |s| s.static_regularization_proportional = 3e-31),
        ("dynamic_regularization_enable", |s| s.dynamic_regularization_enable = !s.dynamic_regularization_enable),
        ("dynamic_regularization_eps", |s| s.dynamic_regularization_eps = 3e-13), ("dynamic_regularization_delta", |s| s.dynamic_regularization_delta = 3e-7),
        ("iterative_refinement_enable", |s| s.iterative_refinement_enable = !s.iterative_refinement_enable),
        ("iterative_refinement_reltol", |s| s.iterative_refinement_reltol = 3e-13), ("iterative_refinement_abstol", |s| s.iterative_refinement_abstol = 3e-12),
        ("iterative_refinement_max_iter", |s| s.iterative_refinement_max_iter = 3), ("iterative_refinement_stop_ratio", |s| s.iterative_refinement_stop_ratio = 3.0),
        ("presolve_enable", |s| s.presolve_enable = !s.presolve_enable), ("chordal_decomposition_enable", |s| s.chordal_decomposition_enable = !s.chordal_decomposition_enable),
        ("chordal_decomposition_merge_method", |s| s.chordal_decomposition_merge_method = "parent_child".into()),
        ("chordal_decomposition_compact", |s| s.chordal_decomposition_compact = !s.chordal_decomposition_compact),
        ("chordal_decomposition_complete_dual", |s| s.chordal_decomposition_complete_dual = !s.chordal_decomposition_complete_dual),
    ];
    let P = clarabel::algebra::CscMatrix::<f64>::zeros((1, 1));
    let A = clarabel::algebra::CscMatrix::new(1, 1, vec![0, 1], vec![0], vec![1.0]);
    let cones = [SupportedConeT::NonnegativeConeT(1)];
    let mut out = vec![];
    for k in 0..=setters.len() {
        let mut st = DefaultSettings::<f64>::default();
        st.verbose = false;
        let name = if k < setters.len() { (setters[k].1)(&mut st); setters[k].0.to_string() } else { for (_, f) in &setters { f(&mut st); } "all".to_string() };
        let res = catch_unwind(AssertUnwindSafe(|| {
            // constructed with the settings being stored; no solve, so unusual values cannot matter
            let s1 = DefaultSolver::new(&P, &[1.0], &A, &[1.0], &cones, st.clone());
            let mut f = tmpfile(dir, "sweep.json");
            let save_ok = s1.save_to_file(&mut f).is_ok();
            f.seek(SeekFrom::Start(0)).unwrap();
            match DefaultSolver::<f64>::load_from_file(&mut f, None) {
                Ok(s2) => json!({"save_ok": save_ok, "load_ok": true, "settings_equal": format!("{:?}", s2.settings) == format!("{:?}", st),
                                 "timelimit_roundtrip": s2.settings.time_limit.to_bits() == st.time_limit.to_bits(), "msg": ""}),
                Err(e) => json!({"save_ok": save_ok, "load_ok": false, "settings_equal": false, "timelimit_roundtrip": false, "msg": e.to_string()}),
            }
        }));
        let mut v = match res { Ok(v) => v, Err(e) => json!({"save_ok": false, "load_ok": false, "settings_equal": false, "timelimit_roundtrip": false, "panic": crate::rec_ipm::panic_msg(e)}) };
        v["ev"] = json!("SettingsTrip");
        v["run"] = json!(k);
        v["field"] = json!(name);
        out.push(v);
    }
    let _ = std::fs::remove_file(format!("{}/sweep.json", dir));
    out
}

pub fn roundtrip_events(seed: u64, count: usize, dir: &str) -> (Vec<Value>, Vec<Value>) {
    let mut rng = StdRng::seed_from_u64(seed);
    let mut lines = vec![];
    let mut cases = vec![];
    for run in 0..count {
        let fam = ["feasible", "feasible", "badscale", "pinf", "dinf", "infb", "objscale"][rng.gen_range(0..7)];
        let mut p = crate::gen_family(&mut rng, fam, 6);
        let mut s = gen::random_settings(&mut rng, p.is_symmetric());
        if let Some(m) = s.as_object_mut() {
            m.remove("max_iter");
            if rng.gen::<f64>() < 0.4 { m.insert("time_limit".into(), json!([0.5, 1e3, 1e-9, 3.25e7, 0.0][rng.gen_range(0..5)])); }
        }
        p.settings = s;
        // generalized power cones whose exponents sum to one only up to rounding (the constructor's own tolerance)
        for c in p.cones.iter_mut() {
            if let ConeSpec::GenPow(al, _) = c {
                if al.len() == 3 && rng.gen::<f64>() < 0.5 { *al = [vec![0.2, 0.7, 0.1], vec![0.3, 0.6, 0.1], vec![0.1, 0.2, 0.7]][rng.gen_range(0..3)].clone(); }
            }
        }
        // now and then no constraints at all (A is 0 x n, no cones)
        if rng.gen::<f64>() < 0.06 {
            let n = p.n();
            p.A = Csc::zeros(0, n);
            p.b = vec![];
            p.cones = vec![];
            if p.P.nzval.is_empty() { let mut d = vec![vec![0.0; n]; n]; for j in 0..n { d[j][j] = 1.0 + j as f64; } p.P = Csc::from_dense(&d, n, n); }
        }
        // P supplied as a full symmetric matrix (the file holds its upper triangle)
        if rng.gen::<f64>() < 0.2 && p.P.nzval.len() > 0 {
            let n = p.n();
            let mut d = vec![vec![0.0; n]; n];
            for j in 0..n { for k in p.P.colptr[j]..p.P.colptr[j + 1] { let i = p.P.rowval[k]; d[i][j] = p.P.nzval[k]; d[j][i] = p.P.nzval[k]; } }
            p.P = Csc::from_dense(&d, n, n);
        }
        // explicitly stored zeros are part of the problem's structure (a later update may fill them)
        if rng.gen::<f64>() < 0.15 && !p.A.nzval.is_empty() { let k = rng.gen_range(0..p.A.nzval.len()); p.A.nzval[k] = 0.0; }
        if rng.gen::<f64>() < 0.15 && !p.P.nzval.is_empty() { let k = rng.gen_range(0..p.P.nzval.len()); if p.P.rowval[k] != (0..p.P.n).find(|j| p.P.colptr[*j + 1] > k).unwrap() { p.P.nzval[k] = 0.0; } }
        // extreme finite values and empty matrices now and then
        if rng.gen::<f64>() < 0.1 { p.P = Csc::zeros(p.n(), p.n()); }
        if rng.gen::<f64>() < 0.1 && !p.q.is_empty() { p.q[0] = 1.2345678901234567e300; }
        if rng.gen::<f64>() < 0.1 && !p.q.is_empty() { p.q[0] = 4.9e-324; }
        // the largest finite value itself (equilibration off, so that the stored entry is the user's)
        if rng.gen::<f64>() < 0.06 && !p.q.is_empty() {
            let k = rng.gen_range(0..p.q.len());
            p.q[k] = if rng.gen::<bool>() { f64::MAX } else { -f64::MAX };
            if !p.settings.is_object() { p.settings = json!({}); }
            p.settings["equilibrate_enable"] = json!(false);
            if rng.gen::<bool>() && p.m() > 0 { let i = rng.gen_range(0..p.m()); p.b[i] = -f64::MAX; }
        }
        // large finite right-hand sides (1e16 .. 1e19, below the infinity bound) in rows with tiny coefficients: the row scaling
        // is then far above 1 and the scaled entry crosses the bound although the user's does not
        if rng.gen::<f64>() < 0.12 && p.m() > 0 {
            let i = rng.gen_range(0..p.m());
            let mut a = p.A.to_dense();
            for vv in a[i].iter_mut() { *vv *= 1e-6; }
            p.A = Csc::from_dense(&a, p.m(), p.n());
            p.b[i] = [1e16, 1e17, 3e18, 9e19][rng.gen_range(0..4)];
        }
        // a hugely negative finite right-hand side (only entries at or above +bound are "infinite")
        if rng.gen::<f64>() < 0.08 && p.m() > 0 { let i = rng.gen_range(0..p.m()); p.b[i] = [-3e24, -1e20, -7.5e30][rng.gen_range(0..3)]; }
        let upd = rng.gen::<f64>() < 0.25;
        let ev = roundtrip_event_upd(run, &p, dir, rng.gen::<bool>(), rng.gen::<f64>() < 0.25, upd);
        if ev.get("skipped").is_some() { lines.push(roundtrip_event(run, &p, dir, false, false)); } else { lines.push(ev); }
        cases.push(json!({"run": run, "problem": p, "update": upd}));
    }
    (lines, cases)
}
