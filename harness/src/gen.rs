//! Problem generators (seeded).  They only *drive* the implementation.
#![allow(non_snake_case)]
use crate::problem::{ConeSpec, Csc, Problem};
use rand::rngs::StdRng;
use rand::Rng;
use serde_json::json;

pub fn unif(rng: &mut StdRng, a: f64, b: f64) -> f64 {
    a + (b - a) * rng.gen::<f64>()
}
pub fn normal(rng: &mut StdRng) -> f64 {
    // Box-Muller
    let u1: f64 = rng.gen::<f64>().max(1e-300);
    let u2: f64 = rng.gen();
    (-2.0 * u1.ln()).sqrt() * (2.0 * std::f64::consts::PI * u2).cos()
}

/// a point strictly inside the cone (dual = false) or its dual cone
pub fn interior(c: &ConeSpec, rng: &mut StdRng, dual: bool) -> Vec<f64> {
    match c {
        ConeSpec::Zero(n) => (0..*n).map(|_| if dual { normal(rng) } else { 0.0 }).collect(),
        ConeSpec::Nonneg(n) => (0..*n).map(|_| unif(rng, 0.5, 2.0)).collect(),
        ConeSpec::Soc(n) => {
            if *n == 0 {
                return vec![];
            }
            let v: Vec<f64> = (1..*n).map(|_| unif(rng, -1.0, 1.0)).collect();
            let t = v.iter().map(|x| x * x).sum::<f64>().sqrt() + unif(rng, 0.5, 2.0);
            let mut out = vec![t];
            out.extend(v);
            out
        }
        ConeSpec::Exp => {
            if !dual {
                let y = unif(rng, 0.5, 2.0);
                let x = unif(rng, -1.0, 1.0);
                vec![x, y, y * (x / y).exp() + unif(rng, 0.5, 2.0)]
            } else {
                let u = -unif(rng, 0.5, 2.0);
                let v = unif(rng, -1.0, 1.0);
                vec![u, v, (-u * (v / u).exp()) / std::f64::consts::E + unif(rng, 0.5, 2.0)]
            }
        }
        ConeSpec::Pow(a) => {
            let x = unif(rng, 0.5, 2.0);
            let y = unif(rng, 0.5, 2.0);
            let lim = if !dual { x.powf(*a) * y.powf(1.0 - a) } else { (x / a).powf(*a) * (y / (1.0 - a)).powf(1.0 - a) };
            vec![x, y, unif(rng, -0.8, 0.8) * lim]
        }
        ConeSpec::GenPow(al, d) => {
            let xs: Vec<f64> = al.iter().map(|_| unif(rng, 0.5, 2.0)).collect();
            let mut lim = 1.0;
            for i in 0..al.len() {
                let base = if dual { xs[i] / al[i] } else { xs[i] };
                lim *= base.powf(al[i]);
            }
            let w: Vec<f64> = (0..*d).map(|_| normal(rng)).collect();
            let nw = w.iter().map(|x| x * x).sum::<f64>().sqrt().max(1e-12);
            let r = unif(rng, 0.0, 0.8) * lim;
            let mut out = xs;
            out.extend(w.iter().map(|x| x / nw * r));
            out
        }
        ConeSpec::Psd(n) => {
            let n = *n;
            let b: Vec<Vec<f64>> = (0..n).map(|_| (0..n).map(|_| unif(rng, -1.0, 1.0)).collect()).collect();
            let sh = unif(rng, 0.5, 1.0);
            let mut out = vec![];
            for j in 0..n {
                for i in 0..=j {
                    let mut v = 0.0;
                    for k in 0..n {
                        v += b[i][k] * b[j][k];
                    }
                    if i == j {
                        out.push(v + sh);
                    } else {
                        out.push(v * std::f64::consts::SQRT_2);
                    }
                }
            }
            out
        }
    }
}

#[derive(Clone, Debug)]
pub struct GenOpts {
    pub nmax: usize,
    pub max_cones: usize,
    pub soc_max: usize,
    pub psd_max: usize,    // 0: no PSD cones
    pub allow_nonsym: bool,
    pub allow_genpow: bool,
    pub allow_zero: bool,
    pub bad_scaling: f64,  // probability of row/column scales 10^U(-k,k)
    pub scale_exp: f64,
    pub density: f64,
    pub p_kind: u32,       // 0 none, 1 low-rank, 2 random (by draw)
    pub mag_exp: f64,      // entries 10^U(0,mag_exp)
    pub inf_rows: f64,     // probability that a nonnegative row gets an infinite right-hand side
    pub obj_scale_exp: f64, // objective (P,q) multiplied by 10^U(-e,e)
}

impl Default for GenOpts {
    fn default() -> Self {
        GenOpts { nmax: 8, max_cones: 4, soc_max: 6, psd_max: 3, allow_nonsym: true, allow_genpow: true,
                  allow_zero: true, bad_scaling: 0.0, scale_exp: 4.0, density: 0.6, p_kind: 2, mag_exp: 0.0, inf_rows: 0.0, obj_scale_exp: 0.0 }
    }
}

pub fn genpow_alpha(rng: &mut StdRng, k: usize) -> Vec<f64> {
    // exponents on a 2^-10 grid, last one = 1 - sum (so that the sum is exactly 1)
    loop {
        let mut a: Vec<f64> = (0..k - 1).map(|_| (rng.gen_range(100..400) as f64) / 1024.0 / (k as f64 - 1.0).max(1.0)).collect();
        let s: f64 = a.iter().sum();
        let last = 1.0 - s;
        if last > 0.05 {
            a.push(last);
            return a;
        }
    }
}

pub fn random_cones(rng: &mut StdRng, o: &GenOpts, n: usize) -> Vec<ConeSpec> {
    let k = rng.gen_range(1..=o.max_cones);
    let mut cones = vec![];
    let mut neq = 0;
    for _ in 0..k {
        let mut kinds = vec![1u32, 1, 2];
        if o.allow_zero {
            kinds.push(0);
        }
        if o.allow_nonsym {
            kinds.push(3);
            kinds.push(4);
            if o.allow_genpow {
                kinds.push(5);
            }
        }
        if o.psd_max >= 2 {
            kinds.push(6);
        }
        let kind = kinds[rng.gen_range(0..kinds.len())];
        cones.push(match kind {
            0 => {
                let d = rng.gen_range(1..=(n / 4).max(1));
                if neq + d > (n / 4).max(1) {
                    ConeSpec::Nonneg(d)
                } else {
                    neq += d;
                    ConeSpec::Zero(d)
                }
            }
            1 => ConeSpec::Nonneg(rng.gen_range(1..=n.max(2) + 2)),
            2 => ConeSpec::Soc(rng.gen_range(2..=o.soc_max.max(2))),
            3 => ConeSpec::Exp,
            4 => ConeSpec::Pow((rng.gen_range(205..820) as f64) / 1024.0),
            5 => {
                let ka = rng.gen_range(2..=3);
                ConeSpec::GenPow(genpow_alpha(rng, ka), rng.gen_range(1..=2))
            }
            _ => ConeSpec::Psd(rng.gen_range(2..=o.psd_max)),
        });
    }
    cones
}

fn rand_entry(rng: &mut StdRng, o: &GenOpts) -> f64 {
    let mag = if o.mag_exp > 0.0 { 10f64.powf(unif(rng, 0.0, o.mag_exp)) } else { 1.0 };
    normal(rng) * mag
}

fn random_dense(rng: &mut StdRng, m: usize, n: usize, o: &GenOpts) -> Vec<Vec<f64>> {
    let mut a = vec![vec![0.0; n]; m];
    for i in 0..m {
        for j in 0..n {
            if rng.gen::<f64>() < o.density {
                a[i][j] = rand_entry(rng, o);
            }
        }
        // never leave a row entirely empty by accident here (zero rows are a separate generator option)
        if a[i].iter().all(|v| *v == 0.0) && n > 0 {
            let j = rng.gen_range(0..n);
            a[i][j] = rand_entry(rng, o);
        }
    }
    a
}

fn lowrank_psd(rng: &mut StdRng, n: usize, o: &GenOpts) -> Vec<Vec<f64>> {
    let mut p = vec![vec![0.0; n]; n];
    let kind = if o.p_kind == 2 { rng.gen_range(0..3) } else { o.p_kind };
    if kind == 0 {
        return p;
    }
    let r = rng.gen_range(1..=n.min(4));
    let l: Vec<Vec<f64>> = (0..n).map(|_| (0..r).map(|_| if rng.gen::<f64>() < 0.7 { normal(rng) } else { 0.0 }).collect()).collect();
    for i in 0..n {
        for j in 0..n {
            for k in 0..r {
                p[i][j] += l[i][k] * l[j][k];
            }
        }
    }
    p
}

fn triu_of(p: &[Vec<f64>], n: usize) -> Csc {
    let mut d = p.to_vec();
    for i in 0..n {
        for j in 0..i {
            d[i][j] = 0.0;
        }
    }
    Csc::from_dense(&d, n, n)
}

fn cone_points(cones: &[ConeSpec], rng: &mut StdRng, dual: bool) -> Vec<f64> {
    let mut v = vec![];
    for c in cones {
        v.extend(interior(c, rng, dual));
    }
    v
}

/// per-row scale vector that is constant across every non-scalar cone (keeps the cone)
fn row_scales(cones: &[ConeSpec], rng: &mut StdRng, e: f64) -> Vec<f64> {
    let mut out = vec![];
    for c in cones {
        match c {
            ConeSpec::Zero(n) | ConeSpec::Nonneg(n) => {
                for _ in 0..*n {
                    out.push(10f64.powf(unif(rng, -e, e)));
                }
            }
            _ => {
                let s = 10f64.powf(unif(rng, -e, e));
                for _ in 0..c.numel() {
                    out.push(s);
                }
            }
        }
    }
    out
}

/// Strictly feasible primal-dual pair planted: (x0,s0) primal interior, (x0,z0) dual interior.
pub fn planted_feasible(rng: &mut StdRng, o: &GenOpts) -> Problem {
    let n = rng.gen_range(1..=o.nmax);
    planted_feasible_n(rng, o, n, 0)
}

/// as planted_feasible with n fixed and at least `min_m` rows (nonnegative rows are appended)
pub fn planted_feasible_n(rng: &mut StdRng, o: &GenOpts, n: usize, min_m: usize) -> Problem {
    let mut cones = random_cones(rng, o, n);
    let m0: usize = cones.iter().map(|c| c.numel()).sum();
    if m0 < min_m {
        cones.push(ConeSpec::Nonneg(min_m - m0));
    }
    planted_with_cones(rng, o, n, cones)
}

/// as planted_feasible with n and the cone list given
pub fn planted_with_cones(rng: &mut StdRng, o: &GenOpts, n: usize, cones: Vec<ConeSpec>) -> Problem {
    let m: usize = cones.iter().map(|c| c.numel()).sum();
    let mut a = random_dense(rng, m, n, o);
    let x0: Vec<f64> = (0..n).map(|_| normal(rng)).collect();
    let mut s0 = cone_points(&cones, rng, false);
    let mut z0 = cone_points(&cones, rng, true);
    let mut pd = lowrank_psd(rng, n, o);
    let mut tag = "feasible".to_string();
    if rng.gen::<f64>() < o.bad_scaling {
        tag.push_str("+badscale");
        let rs = row_scales(&cones, rng, o.scale_exp);
        let cs: Vec<f64> = (0..n).map(|_| 10f64.powf(unif(rng, -o.scale_exp / 2.0, o.scale_exp / 2.0))).collect();
        // A <- R A C, s0 <- R s0, z0 <- R^-1 z0, x0 <- C^-1 x0, P <- C P C
        for i in 0..m {
            for j in 0..n {
                a[i][j] *= rs[i] * cs[j];
            }
            s0[i] *= rs[i];
            z0[i] /= rs[i];
        }
        for i in 0..n {
            for j in 0..n {
                pd[i][j] *= cs[i] * cs[j];
            }
        }
    }
    // rows of nonnegative cones with an infinite bound: vacuous constraints, so the planted dual
    // point carries z0 = 0 there
    let mut infrow = vec![false; m];
    if o.inf_rows > 0.0 {
        let mut off = 0;
        for c in &cones {
            if let ConeSpec::Nonneg(k) = c {
                for i in off..off + k {
                    if rng.gen::<f64>() < o.inf_rows {
                        infrow[i] = true;
                        z0[i] = 0.0;
                    }
                }
            }
            off += c.numel();
        }
        if infrow.iter().any(|x| *x) {
            tag.push_str("+infb");
        }
    }
    if o.obj_scale_exp > 0.0 {
        let sc = 10f64.powf(unif(rng, -o.obj_scale_exp, o.obj_scale_exp));
        tag.push_str("+objscale");
        for i in 0..n {
            for j in 0..n {
                pd[i][j] *= sc;
            }
        }
        for i in 0..m {
            z0[i] *= sc;
        }
    }
    // b = A x0 + s0 ; q = -(P x0 + A' z0)
    let mut b = vec![0.0; m];
    for i in 0..m {
        for j in 0..n {
            b[i] += a[i][j] * x0[j];
        }
        b[i] += s0[i];
    }
    let mut q = vec![0.0; n];
    for j in 0..n {
        for i in 0..n {
            q[j] -= pd[j][i] * x0[i];
        }
        for i in 0..m {
            q[j] -= a[i][j] * z0[i];
        }
    }
    let infval = [1e20, 1e30, 5e20, f64::MAX][rng.gen_range(0..4)];
    for i in 0..m {
        if infrow[i] {
            b[i] = infval;
        }
    }
    Problem { P: triu_of(&pd, n), q, A: Csc::from_dense(&a, m, n), b, cones, settings: json!({}), tag }
}

/// Strongly primal infeasible: z0 in int K*, A'z0 = 0, b'z0 = -1.
pub fn planted_pinf(rng: &mut StdRng, o: &GenOpts) -> Problem {
    let n = rng.gen_range(1..=o.nmax);
    let mut oo = o.clone();
    oo.allow_zero = true;
    let mut cones = random_cones(rng, &oo, n);
    // with a single row the projection A'z0 = 0 would leave only rounding noise in A
    if cones.iter().map(|c| c.numel()).sum::<usize>() < 2 {
        cones.push(ConeSpec::Nonneg(2));
    }
    let m: usize = cones.iter().map(|c| c.numel()).sum();
    let mut a = random_dense(rng, m, n, o);
    let z0 = cone_points(&cones, rng, true);
    let zz: f64 = z0.iter().map(|v| v * v).sum::<f64>().max(1e-300);
    for j in 0..n {
        let mut d = 0.0;
        for i in 0..m {
            d += a[i][j] * z0[i];
        }
        for i in 0..m {
            a[i][j] -= d / zz * z0[i];
        }
    }
    let mut b: Vec<f64> = (0..m).map(|_| normal(rng)).collect();
    let bz: f64 = (0..m).map(|i| b[i] * z0[i]).sum();
    for i in 0..m {
        b[i] -= (bz + 1.0) / zz * z0[i];
    }
    let pd = lowrank_psd(rng, n, o);
    let q: Vec<f64> = (0..n).map(|_| normal(rng)).collect();
    Problem { P: triu_of(&pd, n), q, A: Csc::from_dense(&a, m, n), b, cones, settings: json!({}), tag: "pinf".into() }
}

/// Strongly dual infeasible (unbounded): x0 with P x0 = 0, A x0 + s0 = 0, s0 in int K, q'x0 = -1;
/// and the problem is primal feasible.
pub fn planted_dinf(rng: &mut StdRng, o: &GenOpts) -> Problem {
    let n = rng.gen_range(1..=o.nmax);
    let mut oo = o.clone();
    oo.allow_zero = n >= 3;
    let cones = random_cones(rng, &oo, n);
    let m: usize = cones.iter().map(|c| c.numel()).sum();
    let mut a = random_dense(rng, m, n, o);
    let x0: Vec<f64> = (0..n).map(|_| normal(rng)).collect();
    let xx: f64 = x0.iter().map(|v| v * v).sum::<f64>().max(1e-300);
    let s0 = cone_points(&cones, rng, false);
    for i in 0..m {
        let mut d = s0[i];
        for j in 0..n {
            d += a[i][j] * x0[j];
        }
        for j in 0..n {
            a[i][j] -= d / xx * x0[j];
        }
    }
    // P = L L' with L'x0 = 0
    let mut pd = vec![vec![0.0; n]; n];
    let kind = if o.p_kind == 2 { rng.gen_range(0..3) } else { o.p_kind };
    if kind != 0 && n >= 2 {
        let r = rng.gen_range(1..=(n - 1).min(3));
        let mut l: Vec<Vec<f64>> = (0..r).map(|_| (0..n).map(|_| normal(rng)).collect()).collect();
        for col in l.iter_mut() {
            let d: f64 = (0..n).map(|i| col[i] * x0[i]).sum();
            for i in 0..n {
                col[i] -= d / xx * x0[i];
            }
        }
        for i in 0..n {
            for j in 0..n {
                for col in &l {
                    pd[i][j] += col[i] * col[j];
                }
            }
        }
    }
    let mut q: Vec<f64> = (0..n).map(|_| normal(rng)).collect();
    let qx: f64 = (0..n).map(|i| q[i] * x0[i]).sum();
    for i in 0..n {
        q[i] -= (qx + 1.0) / xx * x0[i];
    }
    // primal feasible: b = A x1 + s1
    let x1: Vec<f64> = (0..n).map(|_| normal(rng)).collect();
    let s1 = cone_points(&cones, rng, false);
    let mut b = vec![0.0; m];
    for i in 0..m {
        for j in 0..n {
            b[i] += a[i][j] * x1[j];
        }
        b[i] += s1[i];
    }
    Problem { P: triu_of(&pd, n), q, A: Csc::from_dense(&a, m, n), b, cones, settings: json!({}), tag: "dinf".into() }
}

/// random settings overrides from the lattice used by C01..C03
pub fn random_settings(rng: &mut StdRng, sym: bool) -> serde_json::Value {
    let mut s = serde_json::Map::new();
    let tols = [1e-6, 1e-8, 1e-10];
    if rng.gen::<f64>() < 0.3 {
        let t = tols[rng.gen_range(0..3)];
        s.insert("tol_feas".into(), json!(t));
        s.insert("tol_gap_abs".into(), json!(t));
        s.insert("tol_gap_rel".into(), json!(t));
    }
    // every tolerance varied on its own, so that no two of them coincide by default
    if rng.gen::<f64>() < 0.35 {
        let pick = |rng: &mut StdRng, v: &[f64]| v[rng.gen_range(0..v.len())];
        for (name, vals) in [
            ("tol_gap_abs", vec![1e-5, 1e-7, 1e-9, 1e-30]), ("tol_gap_rel", vec![1e-5, 1e-7, 1e-9, 1e-30]),
            ("tol_feas", vec![1e-5, 1e-7, 1e-9, 1e-30]), ("tol_infeas_abs", vec![1e-6, 1e-9]),
            ("tol_infeas_rel", vec![1e-6, 1e-9]), ("tol_ktratio", vec![1e-5, 1e-7, 1e-3, 1.0, 1e3]),
            ("reduced_tol_gap_abs", vec![1e-2, 1e-3, 5e-5, 1e-10]), ("reduced_tol_gap_rel", vec![1e-2, 5e-5, 1e-6, 1e-10]),
            ("reduced_tol_feas", vec![1e-2, 1e-4, 1e-6]), ("reduced_tol_infeas_abs", vec![5e-12, 1e-8]),
            ("reduced_tol_infeas_rel", vec![5e-5, 1e-3]), ("reduced_tol_ktratio", vec![1e-4, 1e-3, 1.0]),
        ] {
            if rng.gen::<f64>() < 0.4 {
                s.insert(name.into(), json!(pick(rng, &vals)));
            }
        }
    }
    if rng.gen::<f64>() < 0.3 {
        s.insert("equilibrate_enable".into(), json!(false));
    }
    if rng.gen::<f64>() < 0.2 {
        s.insert("presolve_enable".into(), json!(false));
    }
    if rng.gen::<f64>() < 0.15 {
        s.insert("static_regularization_enable".into(), json!(false));
    }
    if rng.gen::<f64>() < 0.15 {
        s.insert("dynamic_regularization_enable".into(), json!(false));
    }
    if rng.gen::<f64>() < 0.15 {
        s.insert("iterative_refinement_enable".into(), json!(false));
    }
    if rng.gen::<f64>() < 0.2 {
        s.insert("direct_solve_method".into(), json!("qdldl"));
    }
    if rng.gen::<f64>() < 0.2 {
        s.insert("max_iter".into(), json!([0u32, 1, 2, 3, 5, 8][rng.gen_range(0..6)]));
    }
    if !sym && rng.gen::<f64>() < 0.2 {
        s.insert("max_step_fraction".into(), json!([0.5, 0.9, 0.999][rng.gen_range(0..3)]));
    }
    if rng.gen::<f64>() < 0.25 {
        s.insert("equilibrate_max_iter".into(), json!([0u32, 1, 3, 5, 20][rng.gen_range(0..5)]));
    }
    if rng.gen::<f64>() < 0.2 {
        s.insert("iterative_refinement_max_iter".into(), json!([1u32, 3, 5][rng.gen_range(0..3)]));
    }
    if rng.gen::<f64>() < 0.15 {
        let k = [1e-2, 1e-3, 1.0][rng.gen_range(0..3)];
        s.insert("equilibrate_min_scaling".into(), json!(k));
        s.insert("equilibrate_max_scaling".into(), json!(1.0 / k));
    }
    if rng.gen::<f64>() < 0.1 {
        s.insert("static_regularization_constant".into(), json!([1e-7, 1e-9][rng.gen_range(0..2)]));
        s.insert("dynamic_regularization_eps".into(), json!([1e-12, 1e-14][rng.gen_range(0..2)]));
        s.insert("dynamic_regularization_delta".into(), json!([1e-6, 1e-8][rng.gen_range(0..2)]));
    }
    // the backtracking line search of the nonsymmetric cones: slow (many probes) and coarse back-off factors, short floors
    if !sym && rng.gen::<f64>() < 0.25 {
        s.insert("linesearch_backtrack_step".into(), json!([0.5, 0.95, 0.99][rng.gen_range(0..3)]));
        if rng.gen::<f64>() < 0.5 {
            s.insert("min_terminate_step_length".into(), json!([1e-6, 1e-2][rng.gen_range(0..2)]));
        }
    }
    serde_json::Value::Object(s)
}
