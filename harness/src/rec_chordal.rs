//! C17: union-find replay (spec -> impl) and clique-tree recording (impl -> spec).
#![allow(non_snake_case)]
use clarabel::verif::{analyse_pattern, VerifDsu};
use rand::rngs::StdRng;
use rand::{Rng, SeedableRng};
use serde_json::{json, Value};
use std::panic::{catch_unwind, AssertUnwindSafe};

pub fn dsu_replay_file(path: &str, out: &str) -> Value {
    let text = std::fs::read_to_string(path).expect("behaviours");
    let mut bad = vec![];
    let mut n = 0usize;
    let mut nontrivial = std::collections::HashSet::new();
    for line in text.lines() {
        if line.trim().is_empty() { continue; }
        let b: Value = serde_json::from_str(line).unwrap();
        n += 1;
        let size = b["n"].as_u64().unwrap() as usize;
        let res = catch_unwind(AssertUnwindSafe(|| -> Option<String> {
            let mut d = VerifDsu::new(size);
            for (k, op) in b["hist"].as_array().unwrap().iter().enumerate() {
                let (x, y) = (op["x"].as_u64().unwrap() as usize, op["y"].as_u64().unwrap() as usize);
                if op["op"] == "union" { d.union(x, y); } else {
                    let r = d.in_same_set(x, y);
                    if r != op["res"].as_bool().unwrap() { return Some(format!("op {}: in_same_set({},{}) = {} but the model says {}", k, x, y, r, op["res"])); }
                }
                let (p, r) = d.state();
                let pe: Vec<usize> = op["parents"].as_array().unwrap().iter().map(|v| v.as_u64().unwrap() as usize).collect();
                let re: Vec<usize> = op["ranks"].as_array().unwrap().iter().map(|v| v.as_u64().unwrap() as usize).collect();
                if p != pe { return Some(format!("op {} ({} {} {}): parents {:?} but the model has {:?}", k, op["op"], x, y, p, pe)); }
                if r != re { return Some(format!("op {}: ranks {:?} but the model has {:?}", k, r, re)); }
            }
            None
        }));
        let hist = b["hist"].as_array().unwrap();
        if hist.iter().filter(|o| o["op"] == "union" && o["x"] != o["y"]).count() >= 2 { nontrivial.insert(line.to_string()); }
        match res {
            Ok(None) => {}
            Ok(Some(m)) => bad.push(json!({"behaviour": b, "mismatch": m, "class": "dsu_state_mismatch"})),
            Err(e) => bad.push(json!({"behaviour": b, "mismatch": format!("panic: {}", crate::rec_ipm::panic_msg(e)), "class": "dsu_panic"})),
        }
    }
    crate::write_lines(out, &bad);
    json!({"behaviours": n, "mismatches": bad.len(), "distinct_nontrivial": nontrivial.len()})
}

/// aggregate sparsity mask (upper triangle, column-major, diagonal forced) from an edge list
fn mask_of(n: usize, edges: &[(usize, usize)]) -> Vec<bool> {
    let mut mask = vec![false; n * (n + 1) / 2];
    for i in 0..n { mask[i * (i + 1) / 2 + i] = true; }
    for &(i, j) in edges { let (a, b) = if i < j { (i, j) } else { (j, i) }; mask[b * (b + 1) / 2 + a] = true; }
    mask
}

pub fn analysed_event(id: usize, n: usize, edges: &[(usize, usize)], merge: &str, wd: Option<&crate::rec_more::Watchdog>) -> Value {
    let mask = mask_of(n, edges);
    let dense = mask.iter().all(|x| *x);
    let ev = json!({"ev": "Analysing", "id": id, "n": n, "edges": edges, "merge": merge});
    if let Some(w) = wd { w.tick(&ev); }
    let res = catch_unwind(AssertUnwindSafe(|| analyse_pattern(&mask, n, merge)));
    let e1: Vec<Vec<usize>> = edges.iter().map(|&(a, b)| vec![a, b]).collect();
    match res {
        Ok(t) => json!({"ev": "Analysed", "id": id, "n": n, "edges": e1, "merge": merge, "dense": dense,
                        "snode": t.snode, "sep": t.sep, "parent": t.parent, "post": t.post, "nblk": t.nblk,
                        "ncliques": t.n_cliques, "ordering": t.ordering}),
        Err(e) => json!({"ev": "Panic", "id": id, "n": n, "edges": e1, "merge": merge, "msg": crate::rec_ipm::panic_msg(e)}),
    }
}

/// random k-tree (optionally thinned): a (k+1)-clique, then every new vertex is joined to a random k-clique of what is
/// there - chordal, with a BRANCHING clique tree and many equal-sized separators
pub fn ktree_graph(rng: &mut StdRng, n: usize) -> Vec<(usize, usize)> {
    let mut e = vec![];
    let k = rng.gen_range(1..9usize).min(n - 1);      // (wide cliques with wide overlaps are the ones the merge strategies act on)
    let mut cliques: Vec<Vec<usize>> = vec![(0..=k).collect()];
    for i in 0..=k { for j in (i + 1)..=k { e.push((i, j)); } }
    for v in (k + 1)..n {
        let base = cliques[rng.gen_range(0..cliques.len())].clone();
        let drop = rng.gen_range(0..base.len());
        let kc: Vec<usize> = base.iter().enumerate().filter(|(t, _)| *t != drop).map(|(_, x)| *x).collect();
        for &u in &kc { e.push((u, v)); }
        let mut nc = kc; nc.push(v);
        cliques.push(nc);
    }
    if rng.gen::<f64>() < 0.3 { e.retain(|_| rng.gen::<f64>() < 0.9); }
    e
}

pub fn random_graph(rng: &mut StdRng, n: usize) -> Vec<(usize, usize)> {
    let mut e = vec![];
    match rng.gen_range(0..8) {
        6 | 7 => { e = ktree_graph(rng, n); }
        0 => { let bw = rng.gen_range(1..4); for i in 0..n { for j in (i + 1)..n.min(i + bw + 1) { e.push((i, j)); } } }
        1 => { for j in 1..n { e.push((0, j)); } let bw = rng.gen_range(0..2); for i in 1..n { for j in (i + 1)..n.min(i + bw + 1) { e.push((i, j)); } } }
        2 => { let bs = rng.gen_range(2..6); for i in 0..n { for j in (i + 1)..n { if i / bs == j / bs { e.push((i, j)); } } } }
        3 => { let p = 1.5 / n as f64; for i in 0..n { for j in (i + 1)..n { if rng.gen::<f64>() < p { e.push((i, j)); } } } }
        4 => { let p = 3.0 / n as f64; for i in 0..n { for j in (i + 1)..n { if rng.gen::<f64>() < p { e.push((i, j)); } } } }
        _ => {
            // random chordal graph: overlapping cliques along a path
            let mut s = 0usize;
            while s + 1 < n {
                let k = rng.gen_range(2..5usize);
                let t = (s + k).min(n);
                for i in s..t { for j in (i + 1)..t { e.push((i, j)); } }
                let back = rng.gen_range(1..(t - s).max(2));
                s = if t == n { n } else { t - back.min(t - s - 1).max(1).min(t - s) + 0 };
                if s >= t { s = t; }
            }
        }
    }
    e
}

pub fn record(seed: u64, thorough: bool, wd: &crate::rec_more::Watchdog) -> (Vec<Value>, Value) {
    let mut rng = StdRng::seed_from_u64(seed);
    let mut out = vec![];
    let merges = ["none", "parent_child", "clique_graph"];
    let mut id = 0;
    let nmax = if thorough { 7 } else { 6 };
    for n in 2..=nmax {
        let ne = n * (n - 1) / 2;
        let total: u64 = 1 << ne;
        let rate = if thorough { if n == 7 { 0.1 } else { 1.0 } } else if n <= 5 { 1.0 } else { 0.06 };
        let pairs: Vec<(usize, usize)> = (0..n).flat_map(|i| ((i + 1)..n).map(move |j| (i, j))).collect();
        for code in 0..total {
            if rate < 1.0 && rng.gen::<f64>() >= rate { continue; }
            let edges: Vec<(usize, usize)> = (0..ne).filter(|k| code >> k & 1 == 1).map(|k| pairs[k]).collect();
            for m in merges { out.push(analysed_event(id, n, &edges, m, Some(wd))); id += 1; }
        }
    }
    let exhaustive_part = out.len();
    let nrand = if thorough { 10000 } else { 300 };
    for _ in 0..nrand {
        let n = rng.gen_range(8..if thorough { 300 } else { 60 });
        let edges = random_graph(&mut rng, n);
        let m = merges[rng.gen_range(0..3)];
        out.push(analysed_event(id, n, &edges, m, Some(wd)));
        id += 1;
    }
    // branching clique trees in numbers: random k-trees under the clique-graph merge (its neighbour bookkeeping is only
    // stressed when several merges share neighbours)
    let nk = if thorough { 20000 } else { 700 };
    for _ in 0..nk {
        let n = rng.gen_range(8..32);
        let edges = ktree_graph(&mut rng, n);
        out.push(analysed_event(id, n, &edges, "clique_graph", Some(wd)));
        id += 1;
    }
    // the analysis as the solver runs it: problems with one or two sparse PSD cones next to other cones, every merge
    // strategy, compact and standard transformation; every tree the solver holds is one Analysed event (no edge list:
    // the pattern is the solver's own), and the size of the augmented problem must be what the trees' blocks add up to
    let nbuilt = if thorough { 1500 } else { 120 };
    let mut built_multi = 0;
    for k in 0..nbuilt {
        let mut p = crate::rec_decomp::sparse_sdp(&mut rng, true, false);
        if !p.settings.is_object() { p.settings = json!({}); }
        let merge = merges[k % 3];
        p.settings["chordal_decomposition_enable"] = json!(true);
        p.settings["chordal_decomposition_merge_method"] = json!(merge);
        p.settings["chordal_decomposition_compact"] = json!(k % 2 == 0);
        p.settings["chordal_decomposition_complete_dual"] = json!(true);
        // now and then the last row / column of a PSD cone carries no data at all, not even on the diagonal (the analysis puts
        // the diagonal into the pattern itself)
        if k % 4 == 1 {
            let mut a = p.A.to_dense();
            let mut off = 0;
            for c in &p.cones {
                if let crate::problem::ConeSpec::Psd(d) = c {
                    let d = *d;
                    for i in 0..d { let r = off + d * (d - 1) / 2 + i; for v in a[r].iter_mut() { *v = 0.0; } p.b[r] = 0.0; }
                }
                off += c.numel();
            }
            p.A = crate::problem::Csc::from_dense(&a, p.m(), p.n());
        }
        let ev = json!({"ev": "Building", "id": id, "merge": merge, "cones": serde_json::to_value(&p.cones).unwrap()});
        wd.tick(&ev);
        let res = catch_unwind(AssertUnwindSafe(|| {
            let (P, A) = (p.P.to_clarabel(), p.A.to_clarabel());
            let solver = clarabel::solver::DefaultSolver::new(&P, &p.q, &A, &p.b, &p.clarabel_cones(), p.settings());
            clarabel::verif::chordal_view(&solver.data).map(|v| (v, solver.data.m, solver.data.cones.len()))
        }));
        // how many cones SHOULD be decomposed (no merging): PSD cones of dimension > 3 whose aggregate pattern (rows with an
        // entry in A or in b) splits into more than one clique
        let mut expected = 0usize;
        if merge == "none" {
            let ad = p.A.to_dense();
            let mut off = 0;
            for c in &p.cones {
                if let crate::problem::ConeSpec::Psd(d) = c {
                    if *d > 3 {
                        let mask: Vec<bool> = (0..c.numel()).map(|t| ad[off + t].iter().any(|v| *v != 0.0) || p.b[off + t] != 0.0).collect();
                        if let Ok(t) = catch_unwind(AssertUnwindSafe(|| analyse_pattern(&mask, *d, "none"))) { if t.n_cliques > 1 { expected += 1; } }
                    }
                }
                off += c.numel();
            }
        }
        match res {
            Err(e) => out.push(json!({"ev": "Panic", "id": id, "n": 0, "edges": [], "merge": merge, "msg": crate::rec_ipm::panic_msg(e), "problem": serde_json::to_value(&p).unwrap()})),
            Ok(None) => { if merge == "none" { out.push(json!({"ev": "Decomposed", "id": id, "merge": merge, "trees": 0, "expected": expected})); } }
            Ok(Some((v, m2, ncones2))) => {
                if merge == "none" { out.push(json!({"ev": "Decomposed", "id": id, "merge": merge, "trees": v.trees.len(), "expected": expected})); }
                if v.trees.len() > 1 { built_multi += 1; }
                let decomposed: Vec<usize> = v.trees.iter().map(|(i, _)| *i).collect();
                let other_rows: usize = v.init_cones.iter().enumerate().filter(|(i, _)| !decomposed.contains(i)).map(|(_, c)| crate::problem::ConeSpec::from_clarabel(c).numel()).sum();
                let other_cones = v.init_cones.len() - decomposed.len();
                let nblks: Vec<Vec<usize>> = v.trees.iter().map(|(_, t)| t.nblk.clone()).collect();
                let seps: Vec<Vec<usize>> = v.trees.iter().map(|(_, t)| t.post.iter().map(|&c| t.sep[c].len()).collect()).collect();
                out.push(json!({"ev": "Built", "id": id, "merge": merge, "compact": v.compact, "m": v.init_dims.1, "m2": m2, "ncones2": ncones2,
                                "other_rows": other_rows, "other_cones": other_cones, "nblk": nblks, "sepsize": seps}));
                for (_, t) in &v.trees {
                    out.push(json!({"ev": "Analysed", "id": id, "n": t.n, "edges": [], "merge": merge, "dense": false,
                                    "snode": t.snode, "sep": t.sep, "parent": t.parent, "post": t.post, "nblk": t.nblk,
                                    "ncliques": t.n_cliques, "ordering": t.ordering}));
                }
            }
        }
        id += 1;
    }
    let panics = out.iter().filter(|e| e["ev"] == "Panic").count();
    let multi = out.iter().filter(|e| e["ev"] == "Analysed" && e["ncliques"].as_u64().unwrap_or(0) > 1).count();
    let meta = json!({"events": out.len(), "small_graph_events": exhaustive_part, "random_events": nrand, "panics": panics, "multi_clique": multi, "built": nbuilt, "built_with_two_decomposed_cones": built_multi});
    (out, meta)
}
