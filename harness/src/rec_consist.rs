//! impl -> spec recorder for Consistency.tla (C05): a base run and equivalent variants, mapped back
//! to the base formulation by the observer.
#![allow(non_snake_case)]
use crate::fenc::*;
use crate::gen::{self, GenOpts};
use crate::observer::*;
use crate::problem::*;
use clarabel::solver::*;
use rand::rngs::StdRng;
use rand::seq::SliceRandom;
use rand::{Rng, SeedableRng};
use serde_json::{json, Value};
use std::panic::{catch_unwind, AssertUnwindSafe};

#[derive(Clone)]
pub struct Sol { pub status: SolverStatus, pub x: Vec<f64>, pub s: Vec<f64>, pub z: Vec<f64>, pub obj: f64, pub obj_d: f64, pub iters: u32 }

pub fn solve(p: &Problem) -> Result<Sol, String> {
    let (P, A) = (p.P.to_clarabel(), p.A.to_clarabel());
    let st = p.settings();
    let cones = p.clarabel_cones();
    let q = p.q.clone();
    let b = p.b.clone();
    catch_unwind(AssertUnwindSafe(move || {
        let mut s = DefaultSolver::new(&P, &q, &A, &b, &cones, st);
        s.solve();
        let o = &s.solution;
        Sol { status: o.status, x: o.x.clone(), s: o.s.clone(), z: o.z.clone(), obj: o.obj_val, obj_d: o.obj_val_dual, iters: o.iterations }
    })).map_err(crate::rec_ipm::panic_msg)
}

/// verdict class; reduced-accuracy infeasibility verdicts (issued after an error or limit status) count as
/// "no verdict" here: their test is absolute-scale dependent and is the subject of C02/C03
fn class_of(s: SolverStatus) -> &'static str {
    match s {
        SolverStatus::Solved | SolverStatus::AlmostSolved => "solved",
        SolverStatus::PrimalInfeasible => "pinf",
        SolverStatus::DualInfeasible => "dinf",
        _ => "none",
    }
}

/// a variant: the transformed problem plus the maps back to the base formulation
pub struct Variant { pub kind: String, pub p: Problem, pub rowmap: Vec<usize>, pub colmap: Vec<usize>, pub scale: f64, pub bit_required: bool }

fn permute_rows(p: &Problem, perm: &[usize]) -> (Csc, Vec<f64>) {
    // new row i' = old row perm[i']
    let a = p.A.to_dense();
    let a2: Vec<Vec<f64>> = perm.iter().map(|&i| a[i].clone()).collect();
    (Csc::from_dense(&a2, p.m(), p.n()), perm.iter().map(|&i| p.b[i]).collect())
}

pub fn variants(p: &Problem, rng: &mut StdRng) -> Vec<Variant> {
    let (m, n) = (p.m(), p.n());
    let idm: Vec<usize> = (0..m).collect();
    let idn: Vec<usize> = (0..n).collect();
    let mut out = vec![];
    let mk = |kind: &str, q: Problem, rowmap: Vec<usize>, colmap: Vec<usize>, scale: f64, bit: bool| Variant { kind: kind.into(), p: q, rowmap, colmap, scale, bit_required: bit };
    // identical call: bit-for-bit
    out.push(mk("identical", p.clone(), idm.clone(), idn.clone(), 1.0, true));
    // rows permuted inside zero / nonnegative cones and SOC tails
    {
        let mut perm = idm.clone();
        let mut off = 0;
        for c in &p.cones {
            let k = c.numel();
            match c {
                ConeSpec::Zero(_) | ConeSpec::Nonneg(_) => perm[off..off + k].shuffle(rng),
                ConeSpec::Soc(_) if k > 2 => perm[off + 1..off + k].shuffle(rng),
                _ => {}
            }
            off += k;
        }
        let (A2, b2) = permute_rows(p, &perm);
        let mut q = p.clone(); q.A = A2; q.b = b2;
        out.push(mk("rowperm", q, perm, idn.clone(), 1.0, false));
    }
    // cones reordered
    if p.cones.len() > 1 {
        let mut order: Vec<usize> = (0..p.cones.len()).collect();
        order.shuffle(rng);
        let offs: Vec<usize> = p.cones.iter().scan(0, |a, c| { let o = *a; *a += c.numel(); Some(o) }).collect();
        let mut perm = vec![];
        let mut cones2 = vec![];
        for &ci in &order { for i in offs[ci]..offs[ci] + p.cones[ci].numel() { perm.push(i); } cones2.push(p.cones[ci].clone()); }
        let (A2, b2) = permute_rows(p, &perm);
        let mut q = p.clone(); q.A = A2; q.b = b2; q.cones = cones2;
        out.push(mk("conereorder", q, perm, idn.clone(), 1.0, false));
    }
    // variables permuted
    if n > 1 {
        let mut cp = idn.clone();
        cp.shuffle(rng);
        let a = p.A.to_dense();
        let pd = sym_dense(&p.P);
        let a2: Vec<Vec<f64>> = (0..m).map(|i| cp.iter().map(|&j| a[i][j]).collect()).collect();
        let mut p2 = vec![vec![0.0; n]; n];
        for i in 0..n { for j in i..n { p2[i][j] = pd[cp[i]][cp[j]]; } }
        let mut q = p.clone();
        q.A = Csc::from_dense(&a2, m, n); q.P = Csc::from_dense(&p2, n, n); q.q = cp.iter().map(|&j| p.q[j]).collect();
        out.push(mk("varperm", q, idm.clone(), cp, 1.0, false));
    }
    // nonnegative cones split / merged, SOC(1) / PSD(1) spelling
    {
        let mut cones2 = vec![];
        for c in &p.cones {
            match c {
                ConeSpec::Nonneg(k) if *k >= 2 => {
                    let a = rng.gen_range(1..*k);
                    cones2.push(ConeSpec::Nonneg(a));
                    if rng.gen::<bool>() { cones2.push(ConeSpec::Nonneg(0)); }
                    for _ in 0..(*k - a) { cones2.push(if rng.gen::<bool>() { ConeSpec::Soc(1) } else if rng.gen::<bool>() { ConeSpec::Psd(1) } else { ConeSpec::Nonneg(1) }); }
                }
                _ => cones2.push(c.clone()),
            }
        }
        if cones2 != p.cones { let mut q = p.clone(); q.cones = cones2; out.push(mk("nnsplit", q, idm.clone(), idn.clone(), 1.0, false)); }
    }
    // P given as full symmetric matrix
    if p.P.nnz() > 0 {
        let pd = sym_dense(&p.P);
        let mut q = p.clone(); q.P = Csc::from_dense(&pd, n, n);
        out.push(mk("Pfull", q, idm.clone(), idn.clone(), 1.0, false));
    }
    // objective scaled by a power of two
    {
        let c = 2f64.powi([-14, -6, 2, 6, 14, 17, 20, 20][rng.gen_range(0..8)]);
        let mut q = p.clone();
        for v in q.P.nzval.iter_mut() { *v *= c; }
        for v in q.q.iter_mut() { *v *= c; }
        out.push(mk("objscale", q, idm.clone(), idn.clone(), c, false));
    }
    // configuration toggles
    for (name, key, val) in [("presolve_off", "presolve_enable", json!(false)), ("equil_off", "equilibrate_enable", json!(false)),
                             ("backend_qdldl", "direct_solve_method", json!("qdldl")), ("threads4", "max_threads", json!(4)),
                             ("refine_off", "iterative_refinement_enable", json!(false))] {
        let mut q = p.clone();
        if !q.settings.is_object() { q.settings = json!({}); }
        q.settings[key] = val;
        out.push(mk(name, q, idm.clone(), idn.clone(), 1.0, false));
    }
    out
}

/// map a variant's solution back to base coordinates
fn map_back(v: &Variant, s: &Sol, m: usize, n: usize) -> (Vec<f64>, Vec<f64>, Vec<f64>) {
    let mut x = vec![0.0; n];
    let mut sv = vec![0.0; m];
    let mut z = vec![0.0; m];
    for (jp, &j) in v.colmap.iter().enumerate() { x[j] = s.x[jp]; }
    for (ip, &i) in v.rowmap.iter().enumerate() { sv[i] = s.s[ip]; z[i] = s.z[ip] / v.scale; }
    (x, sv, z)
}

pub fn pair_event(run: usize, kind: &str, p: &Problem, s1: &Sol, x2: &[f64], s2v: &[f64], z2: &[f64], st2: SolverStatus, obj2: (f64, f64),
                  bit_required: bool, bits_equal: bool) -> Value {
    pair_event_scaled(run, kind, p, s1, x2, s2v, z2, st2, obj2, bit_required, bits_equal, 1.0)
}

/// `scale`: factor by which the second run's objective was multiplied (its absolute gap tolerance maps back as tol/scale)
#[allow(clippy::too_many_arguments)]
pub fn pair_event_scaled(run: usize, kind: &str, p: &Problem, s1: &Sol, x2: &[f64], s2v: &[f64], z2: &[f64], st2: SolverStatus, obj2: (f64, f64),
                  bit_required: bool, bits_equal: bool, scale: f64) -> Value {
    let (m, _n) = (p.m(), p.n());
    let nod = vec![false; m];
    let o1 = observe(p, &s1.x, &s1.s, &s1.z, &nod, f64::INFINITY);
    let o2 = observe(p, x2, s2v, z2, &nod, f64::INFINITY);
    let (c1, c2) = (class_of(s1.status), class_of(st2));
    let mut comparable = c1 != "none" && c2 != "none";
    // one run certifies primal infeasibility and the other dual infeasibility: the problem is infeasible
    // both ways (not well-posed in the property's sense), either verdict is right, and the validity of
    // each certificate is the subject of C02
    if (c1 == "pinf" && c2 == "dinf") || (c1 == "dinf" && c2 == "pinf") {
        comparable = false;
    }
    // residual vectors in the base formulation: r = Ax+s-b (norm via pres numerator), g = Px+A'z+q
    let den_p = |o: &Obs, bn: f64| 1.0f64.max(bn + o.normx + o.norms);
    let bn = norminf(&p.b);
    let qn = norminf(&p.q);
    let r1 = o1.pres * den_p(&o1, bn);
    let r2 = o2.pres * den_p(&o2, bn);
    let g1 = o1.dres * 1.0f64.max(qn + o1.normx + o1.normz);
    let g2 = o2.dres * 1.0f64.max(qn + o2.normx + o2.normz);
    let slack12 = g2 * o1.normx + r1 * o2.normz;
    let slack21 = g1 * o2.normx + r2 * o1.normz;
    let round = |a: f64, b: f64| 1e-9 * (1.0 + a.abs() + b.abs());
    // reported objective values (variant scaled back) agree within the gap tolerances plus the slacks
    let both_solved = s1.status == SolverStatus::Solved && st2 == SolverStatus::Solved;
    let tolg = 1e-8 * (1.0 + 1.0 / scale) + 2e-8 * 1.0f64.max(s1.obj.abs().max(obj2.0.abs()));
    let obj_diff = (s1.obj - obj2.0).abs().max((s1.obj_d - obj2.1).abs());
    let obj_bound = tolg + 4.0 * (slack12 + slack21) + round(s1.obj, obj2.0);
    json!({"ev": "Pair", "both_solved": both_solved, "obj_diff": fj(obj_diff), "obj_bound": fj(obj_bound), "run": run, "kind": kind, "class1": c1, "class2": c2, "comparable": comparable,
           "status1": format!("{:?}", s1.status), "status2": format!("{:?}", st2),
           "d2_minus_p1": fj(o2.dobj - o1.pobj), "bound12": fj(4.0 * slack12 + round(o1.pobj, o2.dobj)),
           "d1_minus_p2": fj(o1.dobj - o2.pobj), "bound21": fj(4.0 * slack21 + round(o2.pobj, o1.dobj)),
           "bit_required": bit_required, "bits_equal": bits_equal})
}

fn bits_eq(a: &Sol, b: &Sol) -> bool {
    a.status == b.status && a.iters == b.iters
        && a.x.len() == b.x.len() && a.x.iter().zip(&b.x).all(|(u, v)| u.to_bits() == v.to_bits())
        && a.s.iter().zip(&b.s).all(|(u, v)| u.to_bits() == v.to_bits())
        && a.z.iter().zip(&b.z).all(|(u, v)| u.to_bits() == v.to_bits())
        && (a.obj.to_bits() == b.obj.to_bits() || (a.obj.is_nan() && b.obj.is_nan()))
}

pub fn record_one(run: usize, p: &Problem, seed: u64) -> (Vec<Value>, usize, usize) {
    let mut rng = StdRng::seed_from_u64(seed ^ (run as u64).wrapping_mul(0x9E3779B97F4A7C15));
    let rng = &mut rng;
    let o = GenOpts { nmax: 6, max_cones: 3, soc_max: 5, psd_max: 3, mag_exp: 1.0, ..Default::default() };
    let mut lines = vec![];
    let (mut compared, mut skipped) = (0usize, 0usize);
    let base = match solve(p) { Ok(s) => s, Err(m) => { lines.push(json!({"ev": "Panic", "run": run, "kind": "base", "msg": m})); return (lines, 0, 0); } };
    for v in variants(p, rng) {
        match solve(&v.p) {
            Err(msg) => lines.push(json!({"ev": "Panic", "run": run, "kind": v.kind, "msg": msg})),
            Ok(s2) => {
                let (x2, sv2, z2) = map_back(&v, &s2, p.m(), p.n());
                let be = if v.bit_required { bits_eq(&base, &s2) } else { true };
                let e = pair_event_scaled(run, &v.kind, p, &base, &x2, &sv2, &z2, s2.status, (s2.obj / v.scale, s2.obj_d / v.scale), v.bit_required, be, v.scale);
                if e["comparable"] == true { compared += 1; } else { skipped += 1; }
                lines.push(e);
            }
        }
    }
    {
        let (P, A) = (p.P.to_clarabel(), p.A.to_clarabel());
        let r = catch_unwind(AssertUnwindSafe(|| {
            let mut s = DefaultSolver::new(&P, &p.q, &A, &p.b, &p.clarabel_cones(), p.settings());
            s.solve();
            let a = Sol { status: s.solution.status, x: s.solution.x.clone(), s: s.solution.s.clone(), z: s.solution.z.clone(), obj: s.solution.obj_val, obj_d: s.solution.obj_val_dual, iters: s.solution.iterations };
            s.solve();
            let b = Sol { status: s.solution.status, x: s.solution.x.clone(), s: s.solution.s.clone(), z: s.solution.z.clone(), obj: s.solution.obj_val, obj_d: s.solution.obj_val_dual, iters: s.solution.iterations };
            (a, b)
        }));
        match r {
            Ok((a, b)) => lines.push(pair_event(run, "solve_twice", p, &a, &b.x, &b.s, &b.z, b.status, (b.obj, b.obj_d), true, bits_eq(&a, &b) && bits_eq(&a, &base))),
            Err(e) => lines.push(json!({"ev": "Panic", "run": run, "kind": "solve_twice", "msg": crate::rec_ipm::panic_msg(e)})),
        }
    }
    {
        // the same problem reached through the update API: built on other q and b (same patterns), then given the base's data
        // through the owned (indices, values) form in descending order.  And a setup-time switch flipped on the live object,
        // which the constructor has already consumed: bit for bit the base run.
        let (P, A) = (p.P.to_clarabel(), p.A.to_clarabel());
        let bound = clarabel::get_infinity();
        let finite = p.b.iter().all(|v| v.abs() < bound);
        let r = catch_unwind(AssertUnwindSafe(|| {
            let q0: Vec<f64> = p.q.iter().enumerate().map(|(i, v)| 3.0 * v + 0.25 * (i as f64 + 1.0)).collect();
            let b0: Vec<f64> = p.b.iter().enumerate().map(|(i, v)| 0.5 * v + 0.125 * (i as f64 + 1.0)).collect();
            let mut s = DefaultSolver::new(&P, &q0, &A, &b0, &p.clarabel_cones(), p.settings());
            let upd = finite && s.is_data_update_allowed();
            let a = if upd {
                let iq: Vec<usize> = (0..p.q.len()).rev().collect();
                let vq: Vec<f64> = iq.iter().map(|&i| p.q[i]).collect();
                s.update_q(&(iq, vq)).expect("update_q");
                let ib: Vec<usize> = (0..p.b.len()).rev().collect();
                let vb: Vec<f64> = ib.iter().map(|&i| p.b[i]).collect();
                s.update_b(&(ib, vb)).expect("update_b");
                s.solve();
                Some(Sol { status: s.solution.status, x: s.solution.x.clone(), s: s.solution.s.clone(), z: s.solution.z.clone(), obj: s.solution.obj_val, obj_d: s.solution.obj_val_dual, iters: s.solution.iterations })
            } else { None };
            let mut f = DefaultSolver::new(&P, &p.q, &A, &p.b, &p.clarabel_cones(), p.settings());
            f.settings.equilibrate_enable = !f.settings.equilibrate_enable;
            f.solve();
            let b = Sol { status: f.solution.status, x: f.solution.x.clone(), s: f.solution.s.clone(), z: f.solution.z.clone(), obj: f.solution.obj_val, obj_d: f.solution.obj_val_dual, iters: f.solution.iterations };
            (a, b)
        }));
        match r {
            Ok((a, b)) => {
                let mut push = |e: Value| { if e["comparable"] == true { compared += 1; } else { skipped += 1; } lines.push(e); };
                if let Some(a) = a { push(pair_event(run, "via_update", p, &base, &a.x, &a.s, &a.z, a.status, (a.obj, a.obj_d), false, true)); }
                push(pair_event(run, "setup_switch_flipped_after_build", p, &base, &b.x, &b.s, &b.z, b.status, (b.obj, b.obj_d), true, bits_eq(&base, &b)));
            }
            Err(e) => lines.push(json!({"ev": "Panic", "run": run, "kind": "via_update", "msg": crate::rec_ipm::panic_msg(e)})),
        }
    }
    if run % 4 == 0 {
        let other = gen::planted_feasible(rng, &o);
        let handles: Vec<_> = (0..4).map(|k| { let pk = if k == 3 { other.clone() } else { p.clone() }; std::thread::spawn(move || solve(&pk)) }).collect();
        let rs: Vec<_> = handles.into_iter().map(|h| h.join().unwrap_or(Err("thread panicked".into()))).collect();
        for (k, r) in rs.iter().enumerate().take(3) {
            match r {
                Ok(s2) => lines.push(pair_event(run, &format!("thread{}", k), p, &base, &s2.x, &s2.s, &s2.z, s2.status, (s2.obj, s2.obj_d), true, bits_eq(&base, s2))),
                Err(m) => lines.push(json!({"ev": "Panic", "run": run, "kind": "thread", "msg": m})),
            }
        }
    }
    if run % 4 == 1 {
        // Lifecycle.tla `Frozen`: once a solver is built, a set_infinity issued by another thread does not change what it
        // computes.  The problem gets a vacuous nonnegative row with an "infinite" right-hand side, so that the bound matters
        // (the row is dropped at build time and reinstated in the solution with s = bound at build).
        let mut pf = p.clone();
        let (m, n) = (pf.m(), pf.n());
        let mut rows: Vec<Vec<f64>> = vec![vec![0.0; n]; m + 1];
        for j in 0..n { for k in pf.A.colptr[j]..pf.A.colptr[j + 1] { rows[pf.A.rowval[k]][j] = pf.A.nzval[k]; } }
        pf.A = Csc::from_dense(&rows, m + 1, n);
        pf.b.push(1e30);
        pf.cones.push(ConeSpec::Nonneg(1));
        let r = catch_unwind(AssertUnwindSafe(|| {
            let (P, A) = (pf.P.to_clarabel(), pf.A.to_clarabel());
            let run1 = |disturb: bool| {
                let mut s = DefaultSolver::new(&P, &pf.q, &A, &pf.b, &pf.clarabel_cones(), pf.settings());
                if disturb { std::thread::spawn(|| clarabel::set_infinity(1e25)).join().unwrap(); }
                s.solve();
                if disturb { clarabel::default_infinity(); }
                Sol { status: s.solution.status, x: s.solution.x.clone(), s: s.solution.s.clone(), z: s.solution.z.clone(), obj: s.solution.obj_val, obj_d: s.solution.obj_val_dual, iters: s.solution.iterations }
            };
            (run1(false), run1(true))
        }));
        clarabel::default_infinity();
        match r {
            Ok((a, b)) => lines.push(pair_event(run, "frozen_after_build", &pf, &a, &b.x, &b.s, &b.z, b.status, (b.obj, b.obj_d), true, bits_eq(&a, &b))),
            Err(e) => lines.push(json!({"ev": "Panic", "run": run, "kind": "frozen_after_build", "msg": crate::rec_ipm::panic_msg(e)})),
        }
    }
    if run % 16 == 2 {
        // the bound is process-wide: set here, read by a solver that is built on another thread
        let mut pf = p.clone();
        let (m, n) = (pf.m(), pf.n());
        let mut rows: Vec<Vec<f64>> = vec![vec![0.0; n]; m + 1];
        for j in 0..n { for k in pf.A.colptr[j]..pf.A.colptr[j + 1] { rows[pf.A.rowval[k]][j] = pf.A.nzval[k]; } }
        pf.A = Csc::from_dense(&rows, m + 1, n);
        pf.b.push(1e15);
        pf.cones.push(ConeSpec::Nonneg(1));
        clarabel::set_infinity(1e10);
        let pf2 = pf.clone();
        let r = std::thread::spawn(move || catch_unwind(AssertUnwindSafe(|| {
            let (P, A) = (pf2.P.to_clarabel(), pf2.A.to_clarabel());
            let mut s = DefaultSolver::new(&P, &pf2.q, &A, &pf2.b, &pf2.clarabel_cones(), pf2.settings());
            let dropped = s.data.m + 1 == pf2.m();
            s.solve();
            (dropped, s.solution.s.last().copied().unwrap_or(f64::NAN))
        }))).join();
        clarabel::default_infinity();
        match r {
            Ok(Ok((dropped, slack))) => lines.push(json!({"ev": "Shared", "run": run, "kind": "bound_visible_across_threads", "dropped": dropped, "slack_is_bound": slack == 1e10, "slack": slack})),
            _ => lines.push(json!({"ev": "Panic", "run": run, "kind": "bound_visible_across_threads", "msg": "panic in the building thread"})),
        }
    }
    (lines, compared, skipped)
}

pub fn record(seed: u64, count: usize) -> (Vec<Value>, Vec<Value>, Value) {
    let mut rng = StdRng::seed_from_u64(seed);
    let mut lines = vec![];
    let mut cases = vec![];
    let (mut compared, mut skipped) = (0usize, 0usize);
    for run in 0..count {
        let o = GenOpts { nmax: 6, max_cones: 3, soc_max: 5, psd_max: 3, mag_exp: 1.0, ..Default::default() };
        let fam = rng.gen_range(0..4);
        let mut p = match fam { 0 | 1 => gen::planted_feasible(&mut rng, &o), 2 => gen::planted_pinf(&mut rng, &o), _ => gen::planted_dinf(&mut rng, &o) };
        p.settings = json!({});
        cases.push(json!({"run": run, "problem": p}));
        let (l, c, s) = record_one(run, &p, seed);
        compared += c;
        skipped += s;
        lines.extend(l);
    }
    let meta = json!({"runs": count, "pairs": lines.len(), "compared": compared, "skipped_no_verdict": skipped});
    (lines, cases, meta)
}
