//! impl -> spec recorder for ConeAlgebra.tla (C13): the scaling operators and the Jordan algebra of the symmetric cones,
//! evaluated by the real cone objects at Nesterov-Todd points of generated (s, z) through one hook; every identity is turned
//! into an <<error, tolerance>> pair by the observer (own Jordan products, own dot products), and TLC decides.
use crate::fenc::*;
use crate::gen;
use crate::observer;
use crate::problem::*;
use clarabel::verif::{self, SymBattery};
use rand::rngs::StdRng;
use rand::{Rng, SeedableRng};
use serde_json::{json, Value};
use std::panic::{catch_unwind, AssertUnwindSafe};

fn dot(a: &[f64], b: &[f64]) -> f64 { a.iter().zip(b).map(|(x, y)| x * y).sum() }
fn norm(a: &[f64]) -> f64 { dot(a, a).sqrt() }
fn dist(a: &[f64], b: &[f64]) -> f64 { if a.len() != b.len() { return f64::INFINITY; } a.iter().zip(b).map(|(x, y)| (x - y) * (x - y)).sum::<f64>().sqrt() }

/// svec <- dense symmetric (upper triangle, column-major, off-diagonals times sqrt 2)
fn svec(m: &[Vec<f64>], n: usize) -> Vec<f64> {
    let sq2 = std::f64::consts::SQRT_2;
    let mut v = vec![];
    for j in 0..n { for i in 0..=j { v.push(if i == j { m[i][j] } else { m[i][j] * sq2 }); } }
    v
}

/// the Jordan product by definition: componentwise (nonnegative), (<x,y>, x0 y1 + y0 x1) (second-order), (XY + YX)/2 (PSD)
pub fn jordan(c: &ConeSpec, x: &[f64], y: &[f64]) -> Vec<f64> {
    match c {
        ConeSpec::Nonneg(_) => x.iter().zip(y).map(|(a, b)| a * b).collect(),
        ConeSpec::Soc(_) => {
            let mut o = vec![dot(x, y)];
            for i in 1..x.len() { o.push(x[0] * y[i] + y[0] * x[i]); }
            o
        }
        ConeSpec::Psd(n) => {
            let (a, b) = (observer::smat(x, *n), observer::smat(y, *n));
            let mut m = vec![vec![0.0; *n]; *n];
            for i in 0..*n { for j in 0..*n { for k in 0..*n { m[i][j] += 0.5 * (a[i][k] * b[k][j] + b[i][k] * a[k][j]); } } }
            svec(&m, *n)
        }
        _ => vec![],
    }
}

/// the unit element of the algebra
pub fn unit(c: &ConeSpec) -> Vec<f64> {
    match c {
        ConeSpec::Nonneg(n) => vec![1.0; *n],
        ConeSpec::Soc(n) => { let mut e = vec![0.0; *n]; e[0] = 1.0; e }
        ConeSpec::Psd(n) => { let mut m = vec![vec![0.0; *n]; *n]; for i in 0..*n { m[i][i] = 1.0; } svec(&m, *n) }
        _ => vec![],
    }
}

/// dense operator of the block the cone hands to the KKT matrix (diagonal, or packed upper triangle) applied to x
fn apply_block(b: &SymBattery, x: &[f64]) -> Vec<f64> { apply_block_of(&b.hs_block, b.hs_is_diagonal, x) }
fn apply_block_of(hs_block: &[f64], diagonal: bool, x: &[f64]) -> Vec<f64> {
    let n = x.len();
    if diagonal { return (0..n).map(|i| hs_block.get(i).copied().unwrap_or(f64::NAN) * x[i]).collect(); }
    let mut m = vec![vec![0.0; n]; n];
    let mut k = 0;
    for j in 0..n { for i in 0..=j { let v = hs_block.get(k).copied().unwrap_or(f64::NAN); m[i][j] = v; m[j][i] = v; k += 1; } }
    (0..n).map(|i| (0..n).map(|j| m[i][j] * x[j]).sum()).collect()
}

/// an interior point at relative distance ~rel from the boundary of its cone
fn near_boundary_point(c: &ConeSpec, rng: &mut StdRng, rel: f64) -> Vec<f64> {
    match c {
        ConeSpec::Nonneg(n) => { let mut v: Vec<f64> = (0..*n).map(|_| gen::unif(rng, 0.5, 2.0)).collect(); v[0] = rel; v }
        ConeSpec::Soc(n) => { let t: Vec<f64> = (1..*n).map(|_| gen::unif(rng, -1.0, 1.0)).collect(); let nt = norm(&t).max(1e-3); let mut v = vec![nt * (1.0 + rel)]; v.extend(t); v }
        ConeSpec::Psd(n) => {
            // G G' with G of rank n-1, plus rel * I
            let g: Vec<Vec<f64>> = (0..*n).map(|_| (0..n.saturating_sub(1)).map(|_| gen::normal(rng)).collect()).collect();
            let mut m = vec![vec![0.0; *n]; *n];
            for i in 0..*n { for j in 0..*n { m[i][j] = (0..n.saturating_sub(1)).map(|k| g[i][k] * g[j][k]).sum::<f64>() + if i == j { rel } else { 0.0 }; } }
            svec(&m, *n)
        }
        _ => vec![],
    }
}

pub fn event(id: usize, c: &ConeSpec, s: &[f64], z: &[f64], x: &[f64], y: &[f64], sigma_mu: f64, y_interior: bool, family: &str) -> Value {
    let cc = c.to_clarabel();
    let res = catch_unwind(AssertUnwindSafe(|| verif::sym_cone_battery(&cc, s, z, x, y, sigma_mu, y_interior)));
    let b = match res { Ok(b) => b, Err(e) => return json!({"ev": "Panic", "id": id, "cone": c.tag(), "msg": crate::rec_ipm::panic_msg(e)}) };
    // conditioning of the scaling: ||W|| ||W^-1|| estimated from the vectors at hand (identities hold to eps * kappa^2)
    let lam = &b.wz;
    let kap = { let a = norm(&b.wx) / norm(x).max(1e-300); let bb = norm(&b.winvx) / norm(x).max(1e-300); (a * bb).max(1.0) };
    // ... and degrade with the relative distance of s and z to the boundary (the scaling point itself is then ill-conditioned)
    let mmin = observer::margin(c, s, false).min(observer::margin(c, z, true)).min(1.0).max(1e-12);
    let eps = 1e-11 * kap * kap / mmin;
    let mut ids = serde_json::Map::new();
    let mut put = |name: &str, err: f64, scale: f64| { ids.insert(name.into(), json!([fj(err), fj(eps * scale + 1e-300)])); };
    // Nesterov-Todd point: W z = W^-T s (= lambda), W^T W z = s
    put("nt_point", dist(&b.wz, &b.wits), norm(&b.wz) + norm(&b.wits));
    put("wtw_z_is_s", dist(&b.wtwz, s), norm(s));
    // W and its inverse are mutually inverse, also transposed
    put("w_winv", dist(&b.w_winv_x, x), norm(x));
    put("winv_w", dist(&b.winv_w_x, x), norm(x));
    put("wt_winvt", dist(&b.wt_winvt_x, x), norm(x));
    // the scaling of a symmetric cone is the same under either strategy and any mu (bit for bit: same inputs, same code)
    put("strategy_independent", dist(&b.dual_wz, &b.wz) + dist(&b.dual_hs_x, &b.hs_x), 0.0);
    // the general form out = alpha * op(x) + beta * out of both multiplications (the solver only ever uses beta = 0)
    let wacc: Vec<f64> = (0..x.len()).map(|i| y[i] - b.wx[i]).collect();
    put("mul_w_accumulates", dist(&b.w_acc, &wacc), norm(y) + norm(&b.wx));
    let winvtx = { let r = catch_unwind(AssertUnwindSafe(|| verif::sym_cone_battery(&cc, s, z, y, x, sigma_mu, false))); r.map(|q| q.winvty.clone()).unwrap_or_default() };
    let wiacc: Vec<f64> = (0..x.len()).map(|i| 2.0 * winvtx.get(i).copied().unwrap_or(f64::NAN) - y[i]).collect();
    put("mul_winv_accumulates", dist(&b.winv_acc, &wiacc), norm(y) + 2.0 * norm(&winvtx));
    // transpose consistency: <W x, y> = <x, W^T y>, <W^-1 x, y> = <x, W^-T y>
    put("transpose_w", (dot(&b.wx, y) - dot(x, &b.wty)).abs(), norm(&b.wx) * norm(y) + norm(x) * norm(&b.wty));
    put("transpose_winv", (dot(&b.winvx, y) - dot(x, &b.winvty)).abs(), norm(&b.winvx) * norm(y) + norm(x) * norm(&b.winvty));
    // the block written into the KKT matrix and mul_Hs are both W^T W
    let wtwx = { let r = catch_unwind(AssertUnwindSafe(|| verif::sym_cone_battery(&cc, s, z, x, &b.wx, sigma_mu, false))); r.map(|q| q.wty.clone()).unwrap_or_default() };
    // (a second-order cone above the sparse-expansion threshold hands over the diagonal part only; the low-rank part lives in
    //  extra KKT rows and columns, whose elimination is compared with mul_Hs under C11)
    let expanded = matches!(c, ConeSpec::Soc(n) if *n > 4);
    if !expanded { put("block_is_mul_hs", dist(&apply_block(&b, x), &b.hs_x), norm(&b.hs_x)); }
    // ... for an expanded cone the block is diagonal plus rank two, eta^2 (D + uu' - vv'): the same operator again
    if expanded { put("expanded_block_is_mul_hs", dist(&b.expanded_x, &b.hs_x), norm(&b.hs_x)); }
    put("mul_hs_is_wtw", dist(&b.hs_x, &wtwx), norm(&b.hs_x));
    // the same object put back to the identity scaling (start of a second solve): every representation is the identity
    // again, exactly (tolerance independent of the conditioning of the scaling that was there before)
    let idt = eps * mmin / (kap * kap) * 1e-3;        // = 1e-14
    put("identity_reset_mul_hs", dist(&b.ident_hs_x, x) / idt * eps, norm(x));
    let blk_x = if expanded { b.ident_expanded_x.clone() } else { apply_block_of(&b.ident_block, b.hs_is_diagonal, x) };
    put("identity_reset_block", dist(&blk_x, x) / idt * eps, norm(x));
    // unit_initialization writes the cone's identity element into both vectors, whatever they held before
    {
        let e = unit(c);
        let err = if b.unit_s.len() == e.len() && b.unit_z.len() == e.len() { dist(&b.unit_s, &e) + dist(&b.unit_z, &e) } else { f64::INFINITY };
        put("unit_start_is_identity", err, 0.0);
    }
    // Jordan product by definition, commutative, unit element
    let xy = jordan(c, x, y);
    put("circ_definition", dist(&b.x_circ_y, &xy), norm(x) * norm(y));
    put("circ_commutes", dist(&b.x_circ_y, &b.y_circ_x), norm(x) * norm(y));
    // Jordan division: y o (y \ x) = x (y interior), lambda o (lambda \ x) = x
    if y_interior && !b.y_inv_circ.is_empty() { put("inv_circ", dist(&jordan(c, y, &b.y_inv_circ), x), norm(x) + norm(y) * norm(&b.y_inv_circ)); }
    put("lambda_inv_circ", dist(&jordan(c, lam, &b.lam_inv_x), x), norm(x) + norm(lam) * norm(&b.lam_inv_x));
    // affine term lambda o lambda; corrector W^-T ds o W dz - sigma mu e (step_z = x, step_s = y)
    put("affine_ds", dist(&b.lam_circ_lam, &jordan(c, lam, lam)), norm(lam) * norm(lam));
    let e = unit(c);
    let corr: Vec<f64> = jordan(c, &b.winvty, &b.wx).iter().zip(&e).map(|(a, u)| a - sigma_mu * u).collect();
    put("combined_shift", dist(&b.shift, &corr), norm(&b.winvty) * norm(&b.wx) + sigma_mu.abs());
    // offset of the slack recovery: out = W^T (lambda \ ds)  <=>  lambda o (W^-T out) = ds   (ds = x)
    let wit_off = { let r = catch_unwind(AssertUnwindSafe(|| verif::sym_cone_battery(&cc, s, z, x, &b.offset, sigma_mu, false))); r.map(|q| q.winvty.clone()).unwrap_or_default() };
    put("ds_offset", dist(&jordan(c, lam, &wit_off), x), norm(x) + norm(lam) * norm(&wit_off));
    json!({"ev": "SymCone", "id": id, "run": id, "cone": c.tag(), "cone_spec": serde_json::to_value(c).unwrap(), "dim": s.len(), "family": family, "scaled_ok": b.scaled_ok, "expanded": expanded, "has_division": !b.y_inv_circ.is_empty(), "kappa": fj(kap), "ids": Value::Object(ids),
           "s": s, "z": z, "x": x, "y": y, "sigma_mu": sigma_mu, "y_interior": y_interior})
}

pub fn record(seed: u64, count: usize) -> (Vec<Value>, Value) {
    let mut rng = StdRng::seed_from_u64(seed ^ 0xc13);
    let mut out = vec![];
    let mut fam_count = std::collections::BTreeMap::<String, usize>::new();
    for id in 0..count {
        let c = match rng.gen_range(0..9) { 0 => ConeSpec::Nonneg(rng.gen_range(1..=6)), 1 | 2 => ConeSpec::Soc(rng.gen_range(2..=4)), 3 | 4 | 5 => ConeSpec::Soc(rng.gen_range(5..=9)),
                                            6 => ConeSpec::Psd(1), _ => ConeSpec::Psd(rng.gen_range(2..=4)) };
        let mut s = gen::interior(&c, &mut rng, false);
        let mut z = gen::interior(&c, &mut rng, true);
        let family = ["centred", "centred", "magnitudes", "near_boundary"][rng.gen_range(0..4)];
        match family {
            "magnitudes" => { let (a, b) = (10f64.powf(gen::unif(&mut rng, -10.0, 4.0)), 10f64.powf(gen::unif(&mut rng, -10.0, 4.0))); for v in s.iter_mut() { *v *= a; } for v in z.iter_mut() { *v *= b; } }
            // (a nonnegative cone at the end of a solve: slack and multiplier 16 to 19 orders of magnitude apart, either way)
            "centred" if matches!(c, ConeSpec::Nonneg(_)) && rng.gen::<f64>() < 0.5 => {
                let (a, b) = (10f64.powf(gen::unif(&mut rng, 6.0, 9.0)), 10f64.powf(gen::unif(&mut rng, -10.0, -8.0)));
                let flip = rng.gen::<bool>();
                for v in s.iter_mut() { *v *= if flip { b } else { a }; }
                for v in z.iter_mut() { *v *= if flip { a } else { b }; }
            }
            "near_boundary" => { let rel = 10f64.powf(gen::unif(&mut rng, -6.0, -2.0)); if rng.gen::<bool>() { s = near_boundary_point(&c, &mut rng, rel); } else { z = near_boundary_point(&c, &mut rng, rel); } }
            _ => {}
        }
        // still interior? (the generator's own responsibility)
        if observer::margin(&c, &s, false) <= 0.0 || observer::margin(&c, &z, true) <= 0.0 { continue; }
        let n = s.len();
        let x: Vec<f64> = (0..n).map(|_| gen::normal(&mut rng)).collect();
        let y_interior = rng.gen::<bool>();
        let y: Vec<f64> = if y_interior { gen::interior(&c, &mut rng, false) } else { (0..n).map(|_| gen::normal(&mut rng)).collect() };
        let sigma_mu = gen::unif(&mut rng, 0.0, 2.0);
        *fam_count.entry(format!("{}:{}", c.tag(), family)).or_default() += 1;
        out.push(event(id, &c, &s, &z, &x, &y, sigma_mu, y_interior, family));
    }
    let meta = json!({"events": out.len(), "by_family": fam_count});
    (out, meta)
}
