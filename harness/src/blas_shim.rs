//! One-instruction trampolines from the Fortran BLAS/LAPACK names the `blas`/`lapack` crates
//! import to the `scipy_`-prefixed exports of scipy-openblas.
use std::arch::global_asm;
macro_rules! tramp {
    ($($n:literal),*) => { $( global_asm!(
        concat!(".globl ", $n, "_"), concat!(".type ", $n, "_,@function"),
        concat!($n, "_:"), concat!("jmp scipy_", $n, "_@PLT")); )* };
}
tramp!("dsyevr","ssyevr","dpotrf","spotrf","dpotrs","spotrs","dgesdd","sgesdd","dgesvd","sgesvd",
       "dgemm","sgemm","dgemv","sgemv","dsymv","ssymv","dsyrk","ssyrk","dsyr2k","ssyr2k","dgesv","sgesv");
