//! impl -> spec recorder for ConeStep.tla (C15).
#![allow(non_snake_case)]
use crate::fenc::*;
use crate::gen::{self};
use crate::observer;
use crate::problem::*;
use clarabel::solver::*;
use clarabel::verif;
use rand::rngs::StdRng;
use rand::{Rng, SeedableRng};
use serde_json::{json, Value};
use std::panic::{catch_unwind, AssertUnwindSafe};

fn settings() -> DefaultSettings<f64> { let mut s = DefaultSettings::<f64>::default(); s.verbose = false; s }

fn ivec(v: &[i32]) -> Vec<f64> { v.iter().map(|x| *x as f64).collect() }

fn all_vecs(dim: usize, r: i32) -> Vec<Vec<i32>> {
    let mut out = vec![vec![]];
    for _ in 0..dim { let mut nx = vec![]; for v in &out { for a in -r..=r { let mut w = v.clone(); w.push(a); nx.push(w); } } out = nx; }
    out
}
fn interior(kind: &str, x: &[i32]) -> bool {
    match kind {
        "Nonneg" => x.iter().all(|v| *v > 0),
        "Soc" => x[0] > 0 && (x[0] as i64).pow(2) > x[1..].iter().map(|v| (*v as i64).pow(2)).sum::<i64>(),
        _ => true,
    }
}

pub fn step_event(kind: &str, dim: usize, s: &[i32], ds: &[i32], z: &[i32], dz: &[i32], amax: f64) -> Value {
    let cone = match kind { "Nonneg" => ConeSpec::Nonneg(dim), "Soc" => ConeSpec::Soc(dim), _ => ConeSpec::Zero(dim) };
    let res = catch_unwind(AssertUnwindSafe(|| verif::cones_step_length(&[cone.to_clarabel()], &ivec(dz), &ivec(ds), &ivec(z), &ivec(s), &settings(), amax, false)));
    match res {
        Ok((az, asl)) => json!({"ev": "Step", "kind": kind, "s": s, "ds": ds, "z": z, "dz": dz, "amax": fj(amax),
                                "alpha_s": fj(asl), "ps": (asl * 1024.0).floor().max(-1.0).min(5000.0) as i64,
                                "alpha_z": fj(az), "pz": (az * 1024.0).floor().max(-1.0).min(5000.0) as i64}),
        Err(e) => json!({"ev": "Panic", "kind": kind, "msg": crate::rec_ipm::panic_msg(e)}),
    }
}

pub fn record_steps(rng: &mut StdRng, rate: f64, out: &mut Vec<Value>) {
    for (kind, dim, r) in [("Nonneg", 1usize, 4), ("Nonneg", 2, 3), ("Zero", 2, 1), ("Soc", 2, 4), ("Soc", 3, 4)] {
        let vecs = all_vecs(dim, r);
        let pts: Vec<&Vec<i32>> = vecs.iter().filter(|x| interior(kind, x)).collect();
        for x in &pts {
            for y in &vecs {
                if rate < 1.0 && rng.gen::<f64>() >= rate { continue; }
                let amax = [1.0, 0.5, 0.99][rng.gen_range(0..3)];
                // the dual side uses another (point, direction) pair from the same enumeration
                let x2 = pts[rng.gen_range(0..pts.len())];
                let y2 = &vecs[rng.gen_range(0..vecs.len())];
                out.push(step_event(kind, dim, x, y, x2, y2, amax));
            }
        }
    }
}

/// Second-order cone points a few ulps inside the boundary, with an axis-aligned tail (so that the norm of the tail is
/// exact) and directions for which the exact distance to the boundary is itself a floating-point number:
/// x = (t(1 + k eps), sg t, 0, ..), y = (-1, 0, ..) or (0, sg, 0, ..) -> alpha = x0 - t;  y = (-1, sg, 0, ..) -> alpha = (x0 - t)/2.
pub fn near_boundary_events(out: &mut Vec<Value>) {
    for dim in [2usize, 3, 5, 6] {
        for t in [1.0f64, 3.0, 0.1, 1e5, 1e-3] {
            for k in [1u64, 2, 3, 5, 17, 1000, 1 << 20, 1 << 40] {
                for sg in [1.0f64, -1.0] {
                    let x0 = f64::from_bits(t.to_bits() + k);          // t moved up by k ulps
                    let gap = x0 - t;                                  // exact (Sterbenz)
                    for (dir, exact) in [(0usize, gap), (1, gap), (2, gap / 2.0)] {
                        let mut x = vec![0.0; dim]; x[0] = x0; x[1] = sg * t;
                        let mut y = vec![0.0; dim];
                        match dir { 0 => y[0] = -1.0, 1 => y[1] = sg, _ => { y[0] = -1.0; y[1] = sg; } }
                        let mut z = vec![0.0; dim]; z[0] = 1.0;
                        let dz = vec![0.0; dim];
                        let cone = ConeSpec::Soc(dim);
                        let res = catch_unwind(AssertUnwindSafe(|| verif::cones_step_length(&[cone.to_clarabel()], &dz, &y, &z, &x, &settings(), 1.0, false)));
                        out.push(match res {
                            Ok((az, asl)) => json!({"ev": "NearBoundary", "dim": dim, "t": t, "k": k, "dir": dir, "alpha_s": fj(asl), "alpha_z": fj(az), "exact": fj(exact.min(1.0))}),
                            Err(e) => json!({"ev": "Panic", "kind": "near_boundary", "msg": crate::rec_ipm::panic_msg(e)}),
                        });
                    }
                }
            }
        }
    }
}

fn split_probes(evs: &[verif::Event], amax: f64) -> (Vec<(f64, bool)>, Vec<(f64, bool)>) {
    let pr: Vec<(f64, bool)> = evs.iter().filter(|e| e.name == "Probe").map(|e| (e.f[0], e.i[0] != 0)).collect();
    let mut cut = pr.len();
    for k in 1..pr.len() { if pr[k].0 == amax { cut = k; break; } }
    (pr[..cut].to_vec(), pr[cut..].to_vec())
}

pub fn backtrack_event(rng: &mut StdRng) -> Value {
    let cone = match rng.gen_range(0..3) { 0 => ConeSpec::Exp, 1 => ConeSpec::Pow((rng.gen_range(100..900) as f64) / 1024.0), _ => ConeSpec::GenPow(gen::genpow_alpha(rng, 2), rng.gen_range(1..=2)) };
    let s = gen::interior(&cone, rng, false);
    let z = gen::interior(&cone, rng, true);
    let mag = 10f64.powf(gen::unif(rng, -1.0, 1.5));
    let ds: Vec<f64> = s.iter().map(|_| gen::normal(rng) * mag).collect();
    let dz: Vec<f64> = z.iter().map(|_| gen::normal(rng) * mag).collect();
    let mut st = settings();
    st.linesearch_backtrack_step = [0.5, 0.8, 0.95][rng.gen_range(0..3)];
    st.min_terminate_step_length = [1e-4, 1e-2, 1e-6][rng.gen_range(0..3)];
    let amax = [1.0, 0.99, 0.5, 0.3, 5e-5, 2e-6][rng.gen_range(0..6)];   // (the last two lie below min_terminate_step_length: the requested maximum is still tried)
    verif::start();
    let res = catch_unwind(AssertUnwindSafe(|| verif::cones_step_length(&[cone.to_clarabel()], &dz, &ds, &z, &s, &st, amax, false)));
    let evs = verif::take();
    match res {
        Err(e) => json!({"ev": "Panic", "kind": cone.tag(), "msg": crate::rec_ipm::panic_msg(e)}),
        Ok((az, asl)) => {
            let (pz, ps) = split_probes(&evs, amax);
            let enc = |pr: &[(f64, bool)], q: &[f64], dq: &[f64], dual: bool| -> Vec<Value> {
                pr.iter().map(|&(a, cin)| {
                    let w: Vec<f64> = (0..q.len()).map(|i| q[i] + a * dq[i]).collect();
                    let mg = observer::margin(&cone, &w, dual);
                    json!({"alpha": fj(a), "next": fj(a * st.linesearch_backtrack_step), "code_in": cin, "obs_in": mg > 1e-9, "obs_out": mg < -1e-9})
                }).collect()
            };
            // note: the composite cone caps nonsymmetric cones at max_step_fraction after the search
            let cap = st.max_step_fraction;
            json!({"ev": "Backtrack", "kind": cone.tag(), "amax": fj(amax), "amin": fj(st.min_terminate_step_length),
                   "probes_z": enc(&pz, &z, &dz, true), "probes_s": enc(&ps, &s, &ds, false),
                   "alpha_z": fj(pz.last().map(|p| if p.1 { p.0 } else { 0.0 }).unwrap_or(f64::NAN)),
                   "alpha_s": fj(ps.last().map(|p| if p.1 { p.0 } else { 0.0 }).unwrap_or(f64::NAN)),
                   "returned": [fj(az), fj(asl)], "cap": fj(cap),
                   "cone": serde_json::to_value(&cone).unwrap(), "s": s, "ds": ds, "z": z, "dz": dz})
        }
    }
}

pub fn composite_event(rng: &mut StdRng) -> Value {
    let k = rng.gen_range(1..=3);
    let mut cones = vec![];
    for _ in 0..k {
        cones.push(match rng.gen_range(0..6) { 0 => ConeSpec::Nonneg(rng.gen_range(1..4)), 1 => ConeSpec::Soc(rng.gen_range(2..7)), 2 => ConeSpec::Exp,
                                               3 => ConeSpec::Pow((rng.gen_range(200..800) as f64) / 1024.0), 4 => ConeSpec::Psd(rng.gen_range(2..4)), _ => ConeSpec::Zero(1) });
    }
    let mut s = vec![]; let mut z = vec![];
    for c in &cones { s.extend(gen::interior(c, rng, false)); z.extend(gen::interior(c, rng, true)); }
    let mag = 10f64.powf(gen::unif(rng, -1.0, 1.0));
    let mut ds: Vec<f64> = s.iter().map(|_| gen::normal(rng) * mag).collect();
    let dz: Vec<f64> = z.iter().map(|_| gen::normal(rng) * mag).collect();
    let mut dz = dz;
    // zero-cone slack never moves; now and then a direction points from the iterate straight through the apex of a
    // second-order cone (ds = -k s, k > 1: the quadratic has a double root at 1/k and its discriminant is pure rounding noise)
    let mut off = 0;
    for c in &cones {
        if let ConeSpec::Zero(n) = c { for i in off..off + n { ds[i] = 0.0; } }
        if let ConeSpec::Soc(n) = c {
            if rng.gen::<f64>() < 0.25 {
                let k = gen::unif(rng, 1.05, 6.0);
                if rng.gen::<bool>() { for i in off..off + n { ds[i] = -k * s[i]; } } else { for i in off..off + n { dz[i] = -k * z[i]; } }
                if rng.gen::<f64>() < 0.3 { for i in off + 1..off + n { s[i] = 0.0; ds[i] = 0.0; } }      // on the axis
            }
        }
        off += c.numel();
    }
    let dz = dz;
    let st = settings();
    let amax = [1.0, 0.7][rng.gen_range(0..2)];
    let has_psd = cones.iter().any(|c| matches!(c, ConeSpec::Psd(_)));
    let has_nonsym = cones.iter().any(|c| !c.is_symmetric());
    let cc: Vec<_> = cones.iter().map(|c| c.to_clarabel()).collect();
    let res = catch_unwind(AssertUnwindSafe(|| verif::cones_step_length(&cc, &dz, &ds, &z, &s, &st, amax, has_psd)));
    match res {
        Err(e) => json!({"ev": "Panic", "kind": "composite", "msg": crate::rec_ipm::panic_msg(e)}),
        Ok((az, asl)) => {
            let margins = |a: f64| -> Vec<f64> {
                let sv: Vec<f64> = (0..s.len()).map(|i| s[i] + a * ds[i]).collect();
                let zv: Vec<f64> = (0..z.len()).map(|i| z[i] + a * dz[i]).collect();
                let m = observer::cone_margins(&cones, &sv, &zv);
                let mut out = vec![];
                for (k, c) in cones.iter().enumerate() { if !matches!(c, ConeSpec::Zero(_)) { out.push(m.s[k]); out.push(m.z[k]); } }
                out
            };
            let after = margins(az);
            let longer = if has_nonsym { (az / st.linesearch_backtrack_step).max(az + 1.0 / 1024.0) } else { az + 1.0 / 1024.0 };
            let longer_leaves = margins(longer).iter().any(|m| *m <= 1e-12);
            let cap = if has_nonsym { amax.min(st.max_step_fraction) } else { amax };
            json!({"ev": "Composite", "alpha_z": fj(az), "alpha_s": fj(asl), "amax": fj(amax), "has_nonsym": has_nonsym,
                   "max_step_fraction": fj(st.max_step_fraction), "margins_after": fjv(&after), "floor": fj(-1e-9), "cap": fj(cap),
                   "longer_leaves": longer_leaves, "cones": serde_json::to_value(&cones).unwrap(), "s": s, "ds": ds, "z": z, "dz": dz})
        }
    }
}

pub fn shift_event(rng: &mut StdRng) -> Value {
    let k = rng.gen_range(1..=3);
    let mut cones = vec![];
    for _ in 0..k { cones.push(match rng.gen_range(0..5) { 0 | 1 => ConeSpec::Nonneg(rng.gen_range(1..4)), 2 => ConeSpec::Soc(rng.gen_range(2..6)), 3 => ConeSpec::Psd(rng.gen_range(2..4)), _ => ConeSpec::Zero(rng.gen_range(1..3)) }); }
    let m: usize = cones.iter().map(|c| c.numel()).sum();
    let huge = rng.gen::<f64>() < 0.5;
    let mut s = vec![0.0; m]; let mut z = vec![0.0; m];
    let mut off = 0;
    for c in &cones {
        // extreme magnitudes only where the observer's membership test is exact (scalar cones)
        let e = if huge && matches!(c, ConeSpec::Nonneg(_) | ConeSpec::Zero(_)) { gen::unif(rng, 10.0, 21.0) } else { gen::unif(rng, -2.0, 6.0) };
        for i in off..off + c.numel() { s[i] = gen::normal(rng) * 10f64.powf(e); z[i] = gen::normal(rng) * 10f64.powf(e); }
        // a second-order cone with an exactly zero tail and a head on either side of zero (the margin is the head itself)
        if matches!(c, ConeSpec::Soc(_)) && rng.gen::<f64>() < 0.15 {
            for i in off + 1..off + c.numel() { s[i] = 0.0; z[i] = 0.0; }
            s[off] = [-5.0, 0.0, -1e-3, 3.0][rng.gen_range(0..4)];
            z[off] = [-5.0, 0.0, -1e-3, 3.0][rng.gen_range(0..4)];
        }
        // a second-order cone whose head is hugely negative next to an ordinary tail: the shift that repairs it is only
        // accurate to a few units at that magnitude, more than the margin it aims at
        if huge && matches!(c, ConeSpec::Soc(_)) && rng.gen::<f64>() < 0.5 {
            let h = -10f64.powf(gen::unif(rng, 15.0, 20.0));
            if rng.gen::<bool>() { s[off] = h; } else { z[off] = h; }
        }
        off += c.numel();
    }
    // overflowing entries in a PSD cone (every twentieth event with one): nothing can be said about the result, but the
    // call must return (the eigenvalue routine fails on such data)
    let overflow = cones.iter().any(|c| matches!(c, ConeSpec::Psd(_))) && rng.gen::<f64>() < 0.25;
    if overflow {
        let mut off = 0;
        for c in &cones {
            if let ConeSpec::Psd(_) = c {
                let big = [1e300, 1.5e308, f64::INFINITY][rng.gen_range(0..3)];      // (an overflowed initial solve hands over infinite entries)
                for i in off..off + c.numel() { s[i] = gen::normal(rng) * big; z[i] = gen::normal(rng) * [1.0, big][rng.gen_range(0..2)]; }
            }
            off += c.numel();
        }
    }
    let (s0, z0) = (s.clone(), z.clone());
    let cc: Vec<_> = cones.iter().map(|c| c.to_clarabel()).collect();
    let res = catch_unwind(AssertUnwindSafe(|| { let (mut a, mut b) = (s.clone(), z.clone()); verif::shift_to_interior(&cc, &mut a, &mut b); (a, b) }));
    match res {
        Err(e) => json!({"ev": "Panic", "kind": "shift", "msg": crate::rec_ipm::panic_msg(e)}),
        Ok(_) if overflow => json!({"ev": "ShiftOverflow", "returned": true, "cones": serde_json::to_value(&cones).unwrap()}),
        Ok((sa, za)) => {
            let mg = observer::cone_margins(&cones, &sa, &za);
            let mut sm = vec![]; let mut zm = vec![];
            let mut zero_ok = true;
            let mut off = 0;
            for (k, c) in cones.iter().enumerate() {
                if let ConeSpec::Zero(n) = c { for i in off..off + n { if sa[i] != 0.0 { zero_ok = false; } } } else { sm.push(mg.s[k]); zm.push(mg.z[k]); }
                off += c.numel();
            }
            json!({"ev": "Shift", "s_margins": fjv(&sm), "z_margins": fjv(&zm), "zero_cone_slack_is_zero": zero_ok,
                   "cones": serde_json::to_value(&cones).unwrap(), "s_before": s0, "z_before": z0})
        }
    }
}

pub fn record(seed: u64, thorough: bool) -> (Vec<Value>, Value) {
    let mut rng = StdRng::seed_from_u64(seed);
    let mut out = vec![];
    record_steps(&mut rng, if thorough { 1.0 } else { 0.15 }, &mut out);
    near_boundary_events(&mut out);
    let nsteps = out.len();
    let (nb, nc, ns) = if thorough { (20000, 20000, 10000) } else { (1500, 1500, 1000) };
    for _ in 0..nb { out.push(backtrack_event(&mut rng)); }
    for _ in 0..nc { out.push(composite_event(&mut rng)); }
    for _ in 0..ns { out.push(shift_event(&mut rng)); }
    let meta = json!({"events": out.len(), "exact_steps": nsteps, "backtrack": nb, "composite": nc, "shift": ns, "exhaustive_exact": thorough});
    (out, meta)
}
