//! impl -> spec recorder for Decomp.tla (C18).
#![allow(non_snake_case)]
use crate::fenc::*;
use crate::gen;
use crate::observer;
use crate::problem::*;
use crate::rec_chordal::random_graph;
use clarabel::solver::*;
use clarabel::verif::{chordal_view, ChordalView, CliqueTreeView};
use rand::rngs::StdRng;
use rand::{Rng, SeedableRng};
use serde_json::{json, Value};
use std::panic::{catch_unwind, AssertUnwindSafe};

fn tri(k: usize) -> usize { k * (k + 1) / 2 }

pub struct SdpSpec { pub p: Problem, pub pattern_edges: Vec<Vec<(usize, usize)>> }

/// a sparse SDP: optional NN cone before, one or two PSD cones with sparse aggregate patterns, optional SOC after
pub fn sparse_sdp(rng: &mut StdRng, integer: bool, inf_bound: bool) -> Problem {
    let n = rng.gen_range(2..=4usize);
    let mut cones = vec![];
    let nn_before = rng.gen::<f64>() < 0.5 || inf_bound;
    if nn_before { cones.push(ConeSpec::Nonneg(rng.gen_range(1..=3))); }
    let npsd = if rng.gen::<f64>() < 0.35 { 2 } else { 1 };
    let mut psd_dims = vec![];
    for _ in 0..npsd { let d = rng.gen_range(4..=7usize); psd_dims.push(d); cones.push(ConeSpec::Psd(d)); }
    if rng.gen::<f64>() < 0.3 { cones.push(ConeSpec::Soc(3)); }
    if inf_bound && rng.gen::<bool>() { cones.push(ConeSpec::Nonneg(2)); }
    let m: usize = cones.iter().map(|c| c.numel()).sum();
    let mut a = vec![vec![0.0; n]; m];
    let mut b = vec![0.0; m];
    let mut id = 1.0;
    let sq2 = std::f64::consts::SQRT_2;
    let mut off = 0;
    let psd_first_off: usize = cones.iter().take_while(|c| !matches!(c, ConeSpec::Psd(_))).map(|c| c.numel()).sum();
    let mut s0 = vec![0.0; m];
    let mut z0 = vec![0.0; m];
    for c in &cones {
        match c {
            ConeSpec::Psd(d) => {
                // (with two PSD cones the first one is dense now and then: it stays whole in front of a decomposed one)
                let dense_first = psd_dims.len() == 2 && off == psd_first_off && rng.gen::<f64>() < 0.3;
                let edges = if dense_first { (0..*d).flat_map(|i| ((i + 1)..*d).map(move |j| (i, j))).collect::<Vec<_>>() }
                            else { loop { let e = random_graph(rng, *d); if e.len() < d * (d - 1) / 2 { break e; } } };
                let mut entries: Vec<(usize, usize)> = (0..*d).map(|i| (i, i)).collect();
                entries.extend(edges.iter().map(|&(i, j)| if i < j { (i, j) } else { (j, i) }));
                for &(i, j) in &entries {
                    let r = off + tri(j) + i;
                    let only_b = i != j && rng.gen::<f64>() < 0.3;      // pattern entry present only through b
                    if !only_b { let col = rng.gen_range(0..n); a[r][col] = if integer { id } else { gen::normal(rng) }; id += 1.0; }
                    if integer { b[r] = if rng.gen::<bool>() { 100.0 + id } else { -(100.0 + id) }; id += 1.0; }
                    s0[r] = if i == j { (*d as f64) + 1.0 } else { 0.3 * sq2 * if rng.gen::<bool>() { 1.0 } else { -1.0 } };
                    if i == j { z0[r] = 1.0; }
                }
            }
            _ => {
                let (sv, zv) = (gen::interior(c, rng, false), gen::interior(c, rng, true));
                for t in 0..c.numel() {
                    let r = off + t;
                    for col in 0..n { if rng.gen::<f64>() < 0.6 { a[r][col] = if integer { id } else { gen::normal(rng) }; id += 1.0; } }
                    if integer { b[r] = 50.0 + id; id += 1.0; }
                    s0[r] = sv[t]; z0[r] = zv[t];
                }
            }
        }
        off += c.numel();
    }
    let mut q = vec![0.0; n];
    let mut pmat = Csc::zeros(n, n);
    if !integer {
        // planted strictly feasible primal-dual pair: b = A x0 + s0, q = -(P x0 + A' z0)
        let x0: Vec<f64> = (0..n).map(|_| gen::normal(rng)).collect();
        for r in 0..m { b[r] = s0[r] + (0..n).map(|j| a[r][j] * x0[j]).sum::<f64>(); }
        for j in 0..n { q[j] = -(0..m).map(|r| a[r][j] * z0[r]).sum::<f64>(); }
        // now and then a quadratic objective, handed over as an upper triangle or as the full symmetric matrix
        if rng.gen::<f64>() < 0.4 {
            let g: Vec<f64> = (0..n).map(|_| gen::normal(rng)).collect();
            let mut pd = vec![vec![0.0; n]; n];
            for i in 0..n { for j in 0..n { pd[i][j] = g[i] * g[j] + if i == j { 0.5 } else { 0.0 }; } }
            for j in 0..n { q[j] -= (0..n).map(|i| pd[j][i] * x0[i]).sum::<f64>(); }
            if rng.gen::<bool>() { for i in 0..n { for j in 0..i { pd[i][j] = 0.0; } } }
            pmat = Csc::from_dense(&pd, n, n);
        }
    } else {
        for j in 0..n { q[j] = (j + 1) as f64; }
    }
    if inf_bound {
        let mut off = 0;
        for c in &cones { if let ConeSpec::Nonneg(k) = c { b[off + rng.gen_range(0..*k)] = 1e30; } off += c.numel(); }
    }
    let mut s = serde_json::Map::new();
    s.insert("equilibrate_enable".into(), json!(false));
    s.insert("chordal_decomposition_enable".into(), json!(true));
    s.insert("chordal_decomposition_compact".into(), json!(rng.gen::<bool>()));
    s.insert("chordal_decomposition_merge_method".into(), json!(["none", "parent_child", "clique_graph"][rng.gen_range(0..3)]));
    s.insert("chordal_decomposition_complete_dual".into(), json!(rng.gen::<bool>()));
    Problem { P: pmat, q, A: Csc::from_dense(&a, m, n), b, cones, settings: Value::Object(s), tag: "sdp+decomp".into() }
}

fn clique_verts(t: &CliqueTreeView, i: usize) -> (Vec<usize>, Vec<usize>, Option<usize>) {
    // clique with post index i: sorted original vertices, sorted separator, post index of the parent
    let c = t.post[i];
    let mut verts: Vec<usize> = t.snode[c].iter().chain(t.sep[c].iter()).map(|&v| t.ordering[v]).collect();
    verts.sort(); verts.dedup();
    let mut sep: Vec<usize> = t.sep[c].iter().map(|&v| t.ordering[v]).collect();
    sep.sort();
    let par = t.parent[c];
    let ppost = if par < 0 { None } else { t.post.iter().position(|&x| x as i64 == par) };
    (verts, sep, ppost)
}

/// the blocks of the augmented cone list as the OBSERVER reads them from the clique trees
fn blocks_of(view: &ChordalView, lo_start: usize) -> Vec<Value> {
    let ocones: Vec<ConeSpec> = view.init_cones.iter().map(ConeSpec::from_clarabel).collect();
    let mut out: Vec<Value> = vec![];
    let mut lo = lo_start;
    let mut tree_iter = view.trees.iter().peekable();
    for (ci, c) in ocones.iter().enumerate() {
        if tree_iter.peek().map(|t| t.0 == ci).unwrap_or(false) {
            let (_, t) = tree_iter.next().unwrap();
            let ncl = t.n_cliques;
            let order: Vec<usize> = if view.compact { (0..ncl).rev().collect() } else { (0..ncl).collect() };
            let first_block = out.len();
            let pos_of = |i: usize| -> usize { first_block + order.iter().position(|&x| x == i).unwrap() + 1 };
            for &i in &order {
                let (verts, sep, ppost) = clique_verts(t, i);
                let d = tri(verts.len());
                out.push(json!({"kind": "Psd", "lo": lo, "hi": lo + d - 1, "orig": ci + 1, "verts": verts,
                                "sep": if view.compact { sep } else { sep }, "parent": ppost.map(|pp| pos_of(pp)).unwrap_or(0)}));
                lo += d;
            }
        } else {
            let d = c.numel();
            out.push(json!({"kind": c.tag(), "lo": lo, "hi": lo + d - 1, "orig": ci + 1, "verts": [], "sep": [], "parent": 0}));
            lo += d;
        }
    }
    out
}

fn entries(A: &clarabel::algebra::CscMatrix<f64>) -> Vec<Value> {
    let mut out = vec![];
    for j in 0..A.n { for k in A.colptr[j]..A.colptr[j + 1] { let v = A.nzval[k]; out.push(json!([A.rowval[k], j, if v.fract() == 0.0 && v.abs() < 1e9 { json!(v as i64) } else { json!(format!("{}", v)) }])); } }
    out
}
fn ventries(b: &[f64]) -> Vec<Value> {
    b.iter().enumerate().filter(|(_, v)| **v != 0.0).map(|(i, v)| json!([i, if v.fract() == 0.0 && v.abs() < 1e9 { json!(*v as i64) } else { json!(format!("{}", v)) }])).collect()
}

fn ocones_json(view: &ChordalView) -> Vec<Value> {
    let mut out = vec![];
    let mut lo = 0;
    for c in view.init_cones.iter().map(ConeSpec::from_clarabel) {
        let d = c.numel();
        let dim = if let ConeSpec::Psd(k) = c { k } else { d };
        out.push(json!({"kind": c.tag(), "lo": lo, "hi": if d == 0 { lo } else { lo + d - 1 }, "dim": dim}));
        lo += d;
    }
    out
}

/// structural event from a constructed solver (integer data, equilibration off)
pub fn augmented_event(run: usize, p: &Problem) -> Value {
    let (P, A) = (p.P.to_clarabel(), p.A.to_clarabel());
    let st = p.settings();
    let res = catch_unwind(AssertUnwindSafe(|| {
        // reference: the same problem without decomposition gives the (presolved, capped) original data
        let mut st0 = st.clone();
        st0.chordal_decomposition_enable = false;
        let ref_solver = DefaultSolver::new(&P, &p.q, &A, &p.b, &p.clarabel_cones(), st0);
        let solver = DefaultSolver::new(&P, &p.q, &A, &p.b, &p.clarabel_cones(), st.clone());
        let view = match chordal_view(&solver.data) { Some(v) => v, None => return json!({"ev": "NotDecomposed", "run": run}) };
        let (n, m) = view.init_dims;
        let d = &solver.data;
        let lo_start = if view.compact { 0 } else { m };
        let blocks = blocks_of(&view, lo_start);
        let std_zero = view.compact || matches!(ConeSpec::from_clarabel(&d.cones[0]), ConeSpec::Zero(k) if k == m);
        // P2 = blockdiag(P, 0), q2 = [q; 0]
        let pq_ok = d.P.nnz() == ref_solver.data.P.nnz() && d.q[..n] == ref_solver.data.q[..] && d.q[n..].iter().all(|v| *v == 0.0) && d.P.n == d.n;
        // the augmented cone list agrees in kind and size with the blocks
        let cones2: Vec<ConeSpec> = d.cones.iter().map(ConeSpec::from_clarabel).collect();
        let skip = if view.compact { 0 } else { 1 };
        let cones_match = cones2.len() == blocks.len() + skip && cones2.iter().skip(skip).zip(&blocks).all(|(c, b)| c.tag() == b["kind"].as_str().unwrap() && c.numel() == (b["hi"].as_u64().unwrap() - b["lo"].as_u64().unwrap() + 1) as usize);
        json!({"ev": "Augmented", "run": run, "compact": view.compact, "n": n, "m": m, "n2": d.n, "m2": d.m,
               "ocones": ocones_json(&view), "blocks": blocks, "std_zero_cone_ok": std_zero && cones_match, "pq_ok": pq_ok && cones_match,
               "Aorig": entries(&ref_solver.data.A), "borig": ventries(&ref_solver.data.b), "A2": entries(&d.A), "b2": ventries(&d.b)})
    }));
    match res { Ok(v) => v, Err(e) => json!({"ev": "Panic", "run": run, "msg": crate::rec_ipm::panic_msg(e)}) }
}

fn class_of(s: SolverStatus) -> &'static str {
    match s { SolverStatus::Solved | SolverStatus::AlmostSolved => "solved", SolverStatus::PrimalInfeasible => "pinf", SolverStatus::DualInfeasible => "dinf", _ => "none" }
}

/// reversal + end-to-end events from a solved feasible SDP
pub fn solved_events(run: usize, p: &Problem) -> Vec<Value> {
    let (P, A) = (p.P.to_clarabel(), p.A.to_clarabel());
    let st = p.settings();
    let res = catch_unwind(AssertUnwindSafe(|| {
        let mut out = vec![];
        let mut solver = DefaultSolver::new(&P, &p.q, &A, &p.b, &p.clarabel_cones(), st.clone());
        let view = match chordal_view(&solver.data) { Some(v) => v, None => return vec![json!({"ev": "NotDecomposed", "run": run})] };
        solver.solve();
        let (n, m) = view.init_dims;
        let lo_start = if view.compact { 0 } else { m };
        let blocks = blocks_of(&view, lo_start);
        let ocones: Vec<ConeSpec> = view.init_cones.iter().map(ConeSpec::from_clarabel).collect();
        let olo: Vec<usize> = ocones.iter().scan(0, |a, c| { let o = *a; *a += c.numel(); Some(o) }).collect();
        // observer's row map for the block rows
        let m2 = solver.data.m;
        let mut rowmap = vec![];
        for b in &blocks {
            let (lo, hi) = (b["lo"].as_u64().unwrap() as usize, b["hi"].as_u64().unwrap() as usize);
            let oc = b["orig"].as_u64().unwrap() as usize - 1;
            let verts: Vec<usize> = b["verts"].as_array().unwrap().iter().map(|v| v.as_u64().unwrap() as usize).collect();
            for r2 in lo..=hi {
                if verts.is_empty() { rowmap.push(olo[oc] + (r2 - lo)); } else {
                    let pp = r2 - lo;
                    let mut bcol = 0; while tri(bcol + 1) <= pp { bcol += 1; }
                    let a = pp - tri(bcol);
                    rowmap.push(olo[oc] + tri(verts[bcol]) + verts[a]);
                }
            }
        }
        let (sa, za) = (&solver.variables.s, &solver.variables.z);
        let (s, z) = (&solver.solution.s, &solver.solution.z);
        let lens_ok = s.len() == p.m() && z.len() == p.m() && solver.solution.x.len() == p.n() && sa.len() == m2 && m == p.m() && n == p.n();
        let mut s_pairs = vec![];
        let mut z_pairs = vec![];
        if lens_ok {
            for r in 0..m {
                let src: Vec<usize> = (0..rowmap.len()).filter(|&k| rowmap[k] == r).map(|k| lo_start + k).collect();
                if src.is_empty() { continue; }
                let mut sum = 0.0; for &r2 in &src { sum += sa[r2]; }
                s_pairs.push(json!([fj(sum), fj(s[r])]));
                if view.compact {
                    // agreement with a clique block up to the rounding of the svec <-> matrix conversions
                    // (sqrt(2) scalings) that the PSD completion applies
                    z_pairs.push(json!(src.iter().any(|&r2| (za[r2] - z[r]).abs() <= 8.0 * f64::EPSILON * za[r2].abs().max(z[r].abs()))));
                } else {
                    let mean = src.iter().map(|&r2| za[r2]).sum::<f64>() / src.len() as f64;
                    z_pairs.push(json!((mean - z[r]).abs() <= 1e-12 * (1.0 + mean.abs())));
                }
            }
        }
        // PSD-ness of the returned (completed) dual on every decomposed cone
        let mut mineig = f64::INFINITY;
        for (ci, _) in &view.trees { let c = &ocones[*ci]; mineig = mineig.min(observer::margin(c, &z[olo[*ci]..olo[*ci] + c.numel()], true)); }
        out.push(json!({"ev": "Reversed", "run": run, "compact": view.compact, "complete_dual": st.chordal_decomposition_complete_dual,
                        "ocones": ocones_json(&view), "blocks": blocks, "aug_lo": lo_start, "rowmap": rowmap, "lens_ok": lens_ok,
                        "s_pairs": s_pairs, "z_pairs": z_pairs, "z_min_eig": fj(mineig), "eig_floor": fj(-1e-7)}));
        // end to end: decomposition off
        let mut st0 = st.clone();
        st0.chordal_decomposition_enable = false;
        let mut s0 = DefaultSolver::new(&P, &p.q, &A, &p.b, &p.clarabel_cones(), st0);
        s0.solve();
        let (a, b) = (&solver.solution, &s0.solution);
        let novl = solver.data.n - n;
        let o = observer::observe(p, &a.x, &a.s, &a.z, &vec![false; p.m()], f64::INFINITY);
        let relax = (1.0 + novl as f64) * 1e-8 * 1.001;
        out.push(json!({"ev": "DecompPair", "run": run, "class1": class_of(a.status), "class2": class_of(b.status),
                        "comparable": class_of(a.status) != "none" && class_of(b.status) != "none",
                        "obj_diff": fj((a.obj_val - b.obj_val).abs()), "obj_bound": fj(1e-6 * (1.0 + a.obj_val.abs().max(b.obj_val.abs()))),
                        "solved_on": a.status == SolverStatus::Solved, "pres": fj(o.pres), "pres_bound": fj(relax + o.pres_rho),
                        "dres": fj(o.dres), "dres_bound": fj(relax + o.dres_rho), "smin": fj(o.smin),
                        // without completion the returned dual is only PSD-completable, not PSD
                        "zmin": fj(if st.chordal_decomposition_complete_dual { o.zmin } else { 0.0 }), "floor": fj(-1e-7),
                        "status": format!("{:?}/{:?}", a.status, b.status), "overlaps": novl}));
        out
    }));
    match res { Ok(v) => v, Err(e) => vec![json!({"ev": "Panic", "run": run, "msg": crate::rec_ipm::panic_msg(e)})] }
}

pub fn record(seed: u64, count: usize) -> (Vec<Value>, Vec<Value>, Value) {
    let mut rng = StdRng::seed_from_u64(seed);
    let mut lines = vec![];
    let mut cases = vec![];
    let (mut ndec, mut nnot) = (0, 0);
    for run in 0..count {
        let kind = run % 3;
        let p = match kind { 0 => sparse_sdp(&mut rng, true, false), 1 => { let ib = rng.gen::<f64>() < 0.6; sparse_sdp(&mut rng, true, ib) } _ => sparse_sdp(&mut rng, false, false) };
        cases.push(json!({"run": run, "problem": p, "kind": kind}));
        let evs = if kind == 2 { solved_events(run, &p) } else { vec![augmented_event(run, &p)] };
        for e in evs {
            if e["ev"] == "NotDecomposed" { nnot += 1; continue; }
            if e["ev"] == "Augmented" || e["ev"] == "Reversed" { ndec += 1; }
            lines.push(e);
        }
    }
    (lines, cases, json!({"runs": count, "decomposed_events": ndec, "not_decomposed": nnot}))
}
