//! spec -> impl replay for the design level of Print.tla (C20): sequences of print-target selections, verbosity changes
//! and solves on one real solver; afterwards every target must hold exactly the number of complete logs the model says.
use clarabel::algebra::*;
use clarabel::io::ConfigurablePrintTarget;
use clarabel::solver::*;
use serde_json::{json, Value};
use std::panic::{catch_unwind, AssertUnwindSafe};
use std::sync::{Arc, Mutex};

#[derive(Clone)]
struct Shared(Arc<Mutex<Vec<u8>>>);
impl std::io::Write for Shared {
    fn write(&mut self, b: &[u8]) -> std::io::Result<usize> { self.0.lock().unwrap().extend_from_slice(b); Ok(b.len()) }
    fn flush(&mut self) -> std::io::Result<()> { Ok(()) }
}

fn banners(s: &str) -> usize { s.matches("Clarabel.rs v").count() }
fn footers(s: &str) -> usize { s.matches("Terminated with status").count() }

pub fn replay_one(b: &Value, dir: &str, id: usize) -> Option<String> {
    let res = catch_unwind(AssertUnwindSafe(|| -> Option<String> {
        // min x  s.t.  x >= 1
        let P = CscMatrix::<f64>::zeros((1, 1));
        let A = CscMatrix::new(1, 1, vec![0, 1], vec![0], vec![-1.0]);
        let mut st = DefaultSettings::<f64>::default();
        st.verbose = true;       // the model's initial state: stdout, verbose (behaviours that print there are not exported)
        let mut s = DefaultSolver::new(&P, &[1.0], &A, &[-1.0], &[NonnegativeConeT(1)], st);
        let stream = Shared(Arc::new(Mutex::new(vec![])));
        let path = format!("{}/print_replay_{}.txt", dir, id);
        let _ = std::fs::remove_file(&path);
        let mut target = "Stdout".to_string();
        for op in b["hist"].as_array().unwrap() {
            match op["op"].as_str().unwrap() {
                "verbose" => s.settings.verbose = op["v"].as_bool().unwrap(),
                "target" => {
                    target = op["t"].as_str().unwrap().to_string();
                    match target.as_str() {
                        "Stdout" => s.print_to_stdout(),
                        "Buffer" => s.print_to_buffer(),
                        "Sink" => s.print_to_sink(),
                        "Stream" => s.print_to_stream(Box::new(stream.clone())),
                        _ => { let f = std::fs::OpenOptions::new().create(true).append(true).open(&path).unwrap(); s.print_to_file(f); }
                    }
                }
                _ => { s.solve(); }
            }
        }
        let getbuf = s.get_print_buffer();
        let nbuf = getbuf.as_ref().map(|t| (banners(t), footers(t))).unwrap_or((0, 0));
        // leave the file target so that the handle is flushed and closed before reading
        s.print_to_sink();
        let ftxt = std::fs::read_to_string(&path).unwrap_or_default();
        let _ = std::fs::remove_file(&path);
        let stxt = String::from_utf8_lossy(&stream.0.lock().unwrap()).to_string();
        let want = |k: &str| b[k].as_u64().unwrap() as usize;
        if getbuf.is_ok() != b["getbuf_ok"].as_bool().unwrap() {
            return Some(format!("get_print_buffer is {} with target {} but the model says {}", if getbuf.is_ok() { "Ok" } else { "Err" }, target, b["getbuf_ok"]));
        }
        if getbuf.is_ok() && nbuf != (want("buffer"), want("buffer")) { return Some(format!("buffer holds {} banners / {} footers but the model says {} logs", nbuf.0, nbuf.1, want("buffer"))); }
        if (banners(&stxt), footers(&stxt)) != (want("stream"), want("stream")) { return Some(format!("stream received {} banners / {} footers but the model says {} logs", banners(&stxt), footers(&stxt), want("stream"))); }
        if (banners(&ftxt), footers(&ftxt)) != (want("file"), want("file")) { return Some(format!("file holds {} banners / {} footers but the model says {} logs", banners(&ftxt), footers(&ftxt), want("file"))); }
        None
    }));
    match res { Ok(r) => r, Err(e) => Some(format!("panic: {}", crate::rec_ipm::panic_msg(e))) }
}

pub fn replay_file(path: &str, out: &str, dir: &str) -> Value {
    let text = std::fs::read_to_string(path).expect("behaviours");
    let mut bad = vec![];
    let mut n = 0usize;
    for (k, line) in text.lines().enumerate() {
        if line.trim().is_empty() { continue; }
        let b: Value = serde_json::from_str(line).expect("json");
        n += 1;
        if let Some(m) = replay_one(&b, dir, k) {
            let class = m.split(|c: char| c.is_ascii_digit()).next().unwrap_or("").trim().replace(' ', "_");
            bad.push(json!({"behaviour": b, "mismatch": m, "class": class}));
        }
    }
    crate::write_lines(out, &bad);
    json!({"behaviours": n, "mismatches": bad.len(), "distinct_nontrivial": n})
}
